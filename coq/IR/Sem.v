(* The codec IR - the level at which the five codec generators take their decisions - and
   its semantics, which is the written-down runtime contract ("a runtime that honours the
   API the generated code calls").  Model only: no proofs here.

   One packet = one emitted type; its encoder/decoder is a list of steps, each tagged with
   the index of the member (= declared field) it reads or fills.  Messages are positional
   (Wire/Layout.v), so a step touching the wrong member or in the wrong order is a
   different term with a different meaning.                                              *)
From FP Require Export Layout.
Open Scope N_scope.
Open Scope list_scope.

(* pad arguments as emitted: the literal's text and the "from left" flag;
   None = the call without padding arguments (runtime default: space, on the right) *)
Definition padarg := option (string * bool).

Inductive estep :=
| EInt (w : nat) (le : bool)
| EFixed (n : nat) (pad : padarg)
| EStr (pw : nat) (ple : bool) (empty_le : bool)          (* byte order used for the 0 prefix of an empty string *)
| EList (pw : nat) (ple : bool) (empty_le : bool) (elem : estep)
| EObj (ty : string)                                       (* statically typed member: its type's encoder *)
| EDyn                                                     (* member holds a codec object: that object's encoder *)
| EMarkZero (mark : nat) (w : nat) (le : bool)             (* remember the position under [mark], write a zero placeholder *)
| ESpan (inner : estep) (sid : nat)                        (* run [inner]; remember how many bytes it wrote under [sid] *)
| EPatch (mark : nat) (sid : nat) (w : nat) (le : bool) (cast_w : nat) (slice : option nat)
      (* write the size of span [sid] as a [w]-byte integer at position [mark];
         [cast_w]: width the size is cast to first; [slice]: width of the window the patch is written
         through, when the language takes one (Go, Rust).  Position variables are identified by the
         member index of the step that defines them (999 = not defined before use). *)
| ECheck (alg : string) (w : nat) (le : bool)              (* registered ? alg(buffer) : member ; written as w bytes *)
| ENone (why : string).                                    (* no encode step / marker text *)

Inductive dstep :=
| DInt (w : nat) (le : bool)
| DFixed (n : nat) (pad : padarg)
| DStr (pw : nat) (ple : bool) (sguard : bool)             (* sguard: prefix read as a signed value and tested "> 0" *)
| DList (pw : nat) (ple : bool) (sguard : bool) (elem : dstep)
| DObj (ty : string)
| DDispatch (table : list (string * string)) (first_wins : bool) (key : nat) (unk_err : bool)
      (* key literal |-> packet, in registration order; which registration wins for a repeated key;
         index of the key member; whether an unknown key is reported (true) or crashes (false) *)
| DNone (why : string).

Record pkt_ir := mkPkt {
  ir_members : nat;                         (* number of declared members *)
  ir_enc : list (nat * estep);
  ir_dec : list (nat * dstep)
}.

Definition prog := list (string * pkt_ir).     (* packet path |-> its emitted codec *)

Fixpoint find_ir (P : prog) (n : string) : option pkt_ir :=
  match P with
  | [] => None
  | (k, v) :: r => if String.eqb k n then Some v else find_ir r n
  end.

(* ---- literals of the target languages that the generators can emit as pad character ---- *)
Definition lit_byte (s : string) : option byte :=
  match s with
  | String "'"%char (String c (String "'"%char EmptyString)) =>
      if Ascii.eqb c "\"%char then None else Some (N_of_ascii c)
  | String "'"%char (String "\"%char (String "\"%char (String "'"%char EmptyString))) => Some 92
  | String "'"%char (String "\"%char (String "0"%char (String "'"%char EmptyString))) => Some 0
  | String "'"%char (String "\"%char (String "x"%char (String "0"%char (String "0"%char (String "'"%char EmptyString))))) => Some 0
  | _ => None      (* e.g. the bare space emitted for FixedStringPadFromLeft without a pad char *)
  end.

Definition pad_of (p : padarg) : option (byte * bool) :=
  match p with
  | None => Some (32, false)
  | Some (lit, lft) => match lit_byte lit with Some b => Some (b, lft) | None => None end
  end.

Fixpoint lookup_mark (m : list (nat * nat)) (k : nat) : option nat :=
  match m with
  | [] => None
  | (k', v) :: r => if Nat.eqb k k' then Some v else lookup_mark r k
  end.

(* buffer, position marks, span sizes *)
Record estate := mkSt { st_buf : list byte; st_marks : list (nat * nat); st_spans : list (nat * nat) }.

Section Enc.
  Variable cs : string -> option (list byte -> N).
  (* open recursion: encode a message of the packet at a path (one level less fuel) *)
  Variable rec : string -> value -> list byte -> option (list byte).

  Fixpoint enc_list (f : value -> list byte -> option (list byte)) (l : list value) (buf : list byte) :=
    match l with
    | [] => Some buf
    | v :: r => match f v buf with Some b => enc_list f r b | None => None end
    end.

  (* steps that only append *)
  Fixpoint enc_elem (s : estep) (v : value) (buf : list byte) : option (list byte) :=
    match s, v with
    | EInt w le, VInt n => Some (buf ++ enc_int w le n)
    | EFixed n pad, VStr str =>
        match pad_of pad with
        | Some (c, lft) => if Nat.leb (length str) n then Some (buf ++ pad_to n c lft str) else None
        | None => None
        end
    | EStr pw ple ele, VStr str =>
        let o := match str with [] => ele | _ => ple end in
        Some (buf ++ enc_int pw o (N.of_nat (length str)) ++ str)
    | EList pw ple ele elem, VList l =>
        let o := match l with [] => ele | _ => ple end in
        enc_list (enc_elem elem) l (buf ++ enc_int pw o (N.of_nat (length l)))
    | EObj ty, _ => rec ty v buf
    | EDyn, VDyn q pv => rec q pv buf
    | _, _ => None
    end.

  Definition enc_step (s : estep) (v : value) (st : estate) : option estate :=
    let buf := st_buf st in
    match s with
    | EMarkZero m w le => Some (mkSt (buf ++ enc_int w le 0) ((m, length buf) :: st_marks st) (st_spans st))
    | ESpan inner sid =>
        match enc_elem inner v buf with
        | Some b => Some (mkSt b (st_marks st) ((sid, (length b - length buf)%nat) :: st_spans st))
        | None => None
        end
    | EPatch m sid w le cw slice =>
        match lookup_mark (st_marks st) m, lookup_mark (st_spans st) sid with
        | Some pos, Some n =>
            let ok := match slice with Some k => Nat.leb w k | None => true end in
            if ok
            then Some (mkSt (patch_at buf pos (enc_int w le (N.of_nat n mod pow256 cw))) (st_marks st) (st_spans st))
            else None
        | _, _ => None
        end
    | ECheck alg w le =>
        match v with
        | VInt n => let x := match cs (unquote alg) with Some h => h buf | None => n end in
                    Some (mkSt (buf ++ enc_int w le x) (st_marks st) (st_spans st))
        | _ => None
        end
    | ENone _ => Some st
    | _ => match enc_elem s v buf with Some b => Some (mkSt b (st_marks st) (st_spans st)) | None => None end
    end.

  Fixpoint enc_steps (steps : list (nat * estep)) (vs : list value) (st : estate) : option (list byte) :=
    match steps with
    | [] => Some (st_buf st)
    | (i, s) :: r =>
        match nth_error vs i with
        | Some v => match enc_step s v st with Some st' => enc_steps r vs st' | None => None end
        | None => None
        end
    end.

  Definition enc_packet_body (ir : pkt_ir) (v : value) (buf : list byte) : option (list byte) :=
    match v with
    | VObj vs => if Nat.eqb (length vs) (ir_members ir) then enc_steps (ir_enc ir) vs (mkSt buf [] []) else None
    | _ => None
    end.
End Enc.

Fixpoint sem_enc (cs : string -> option (list byte -> N)) (P : prog) (fuel : nat)
  : string -> value -> list byte -> option (list byte) :=
  match fuel with
  | O => fun _ _ _ => None
  | S fuel' => fun name v buf =>
      match find_ir P name with
      | Some ir => enc_packet_body cs (sem_enc cs P fuel') ir v buf
      | None => None
      end
  end.

(* ------------------------------------------------------------------ decoding *)

Inductive dres (A : Type) :=
| DOk (a : A)
| DErr                  (* the decoder reports an error (error / None / exception) *)
| DCrash.               (* anything else: crash, stuck, ill-typed, truncated input, out of fuel *)
Arguments DOk {A} a.
Arguments DErr {A}.
Arguments DCrash {A}.

Definition take (n : nat) (l : list byte) : option (list byte * list byte) :=
  if Nat.ltb (length l) n then None else Some (firstn n l, skipn n l).

(* does the key literal of a match pair denote the value held by the key member ?
   digits: equal as integers; "...": equal as byte strings *)
Fixpoint digits_val (acc : N) (s : string) : option N :=
  match s with
  | EmptyString => Some acc
  | String c r => let d := N_of_ascii c in
                  if andb (N.leb 48 d) (N.leb d 57) then digits_val (acc * 10 + (d - 48)) r else None
  end.

Fixpoint string_bytes (s : string) : list byte :=
  match s with EmptyString => [] | String c r => N_of_ascii c :: string_bytes r end.

Fixpoint list_eqb (a b : list byte) : bool :=
  match a, b with
  | [], [] => true
  | x :: r, y :: s => andb (N.eqb x y) (list_eqb r s)
  | _, _ => false
  end.

Definition is_quoted (s : string) : bool :=
  match s with String c _ => Ascii.eqb c """"%char | EmptyString => false end.

Definition key_matches (lit : string) (v : value) : bool :=
  match v with
  | VInt n => if is_quoted lit then false
              else match lit with
                   | EmptyString => false
                   | _ => match digits_val 0 lit with Some k => N.eqb k n | None => false end
                   end
  | VStr s => if is_quoted lit then list_eqb (string_bytes (unquote lit)) s else false
  | _ => false
  end.

Fixpoint table_first (t : list (string * string)) (v : value) : option string :=
  match t with
  | [] => None
  | (k, p) :: r => if key_matches k v then Some p else table_first r v
  end.

Definition table_lookup (t : list (string * string)) (first_wins : bool) (v : value) : option string :=
  if first_wins then table_first t v else table_first (rev t) v.

Section Dec.
  Variable rec : string -> list byte -> dres (value * list byte).

  Fixpoint dec_repeat (f : list byte -> dres (value * list byte)) (k : nat) (rd : list byte) (acc : list value)
    : dres (list value * list byte) :=
    match k with
    | O => DOk (rev acc, rd)
    | S k' => match f rd with
              | DOk (v, rd') => dec_repeat f k' rd' (v :: acc)
              | DErr => DErr
              | DCrash => DCrash
              end
    end.

  (* The same loop driven by the binary count, LAZY in the count: the number of evaluation steps
     is the number of elements actually decoded (plus log n), so that a garbage count read from the
     buffer (a decoder that reads a prefix of the wrong width) fails at the end of the buffer instead
     of first building a unary number of that size.  Proofs/DecRepeat.v: dec_repeat_n f n = dec_repeat f (N.to_nat n). *)
  Definition rstate := (list value * list byte)%type.
  Definition rstep (f : list byte -> dres (value * list byte)) (s : rstate) : dres rstate :=
    match f (snd s) with
    | DOk (v, rd') => DOk (v :: fst s, rd')
    | DErr => DErr
    | DCrash => DCrash
    end.
  Definition rbind (a : dres rstate) (k : rstate -> dres rstate) : dres rstate :=
    match a with DOk s => k s | DErr => DErr | DCrash => DCrash end.
  Fixpoint iter_pos (g : rstate -> dres rstate) (p : positive) (s : rstate) : dres rstate :=
    match p with
    | xH => g s
    | xO q => rbind (iter_pos g q s) (iter_pos g q)
    | xI q => rbind (g s) (fun s1 => rbind (iter_pos g q s1) (iter_pos g q))
    end.
  Definition dec_repeat_n (f : list byte -> dres (value * list byte)) (n : N) (rd : list byte) (acc : list value)
    : dres (list value * list byte) :=
    match n with
    | N0 => DOk (rev acc, rd)
    | Npos p => match iter_pos (rstep f) p (acc, rd) with
                | DOk (acc', rd') => DOk (rev acc', rd')
                | DErr => DErr
                | DCrash => DCrash
                end
    end.
  (* take with a binary length: fails without converting when the buffer is too short *)
  Definition take_n (n : N) (l : list byte) : option (list byte * list byte) :=
    if N.ltb (N.of_nat (length l)) n then None else take (N.to_nat n) l.

  (* a length prefix read the Java way: as a signed value, the body only "if (len > 0)" *)
  Definition guard_skips (sguard : bool) (pw : nat) (n : N) : bool :=
    andb sguard (N.leb (pow256 pw / 2) n).

  Fixpoint dec_elem (s : dstep) (members : list (option value)) (rd : list byte) : dres (value * list byte) :=
    match s with
    | DInt w le => match dec_int w le rd with Some (n, rd') => DOk (VInt n, rd') | None => DCrash end
    | DFixed n pad =>
        match pad_of pad, take n rd with
        | Some (c, lft), Some (h, rd') => DOk (VStr (trim_pad c lft h), rd')
        | _, _ => DCrash
        end
    | DStr pw ple sg =>
        match dec_int pw ple rd with
        | Some (n, rd') =>
            if guard_skips sg pw n then DOk (VStr [], rd')
            else match take_n n rd' with Some (h, rd'') => DOk (VStr h, rd'') | None => DCrash end
        | None => DCrash
        end
    | DList pw ple sg elem =>
        match dec_int pw ple rd with
        | Some (n, rd') =>
            if guard_skips sg pw n then DOk (VList [], rd')
            else match dec_repeat_n (dec_elem elem members) n rd' [] with
                 | DOk (l, rd'') => DOk (VList l, rd'')
                 | DErr => DErr
                 | DCrash => DCrash
                 end
        | None => DCrash
        end
    | DObj ty => rec ty rd
    | DDispatch table fw key unk_err =>
        match nth_error members key with
        | Some (Some kv) =>
            match table_lookup table fw kv with
            | Some q => match rec q rd with
                        | DOk (v, rd') => DOk (VDyn q v, rd')
                        | DErr => DErr
                        | DCrash => DCrash
                        end
            | None => if unk_err then DErr else DCrash
            end
        | _ => DCrash
        end
    | DNone _ => DCrash
    end.

  Fixpoint set_nth {A} (l : list A) (i : nat) (x : A) : list A :=
    match l, i with
    | [], _ => []
    | _ :: r, O => x :: r
    | y :: r, S i' => y :: set_nth r i' x
    end.

  Fixpoint dec_steps (steps : list (nat * dstep)) (members : list (option value)) (rd : list byte)
    : dres (list (option value) * list byte) :=
    match steps with
    | [] => DOk (members, rd)
    | (i, DNone _) :: r => dec_steps r members rd          (* member left at its default *)
    | (i, s) :: r =>
        match dec_elem s members rd with
        | DOk (v, rd') => dec_steps r (set_nth members i (Some v)) rd'
        | DErr => DErr
        | DCrash => DCrash
        end
    end.

  Fixpoint all_some (l : list (option value)) : option (list value) :=
    match l with
    | [] => Some []
    | Some v :: r => match all_some r with Some vs => Some (v :: vs) | None => None end
    | None :: _ => None
    end.

  Definition dec_packet_body (ir : pkt_ir) (rd : list byte) : dres (value * list byte) :=
    match dec_steps (ir_dec ir) (repeat None (ir_members ir)) rd with
    | DOk (ms, rd') => match all_some ms with Some vs => DOk (VObj vs, rd') | None => DCrash end
    | DErr => DErr
    | DCrash => DCrash
    end.
End Dec.

Fixpoint sem_dec (P : prog) (fuel : nat) : string -> list byte -> dres (value * list byte) :=
  match fuel with
  | O => fun _ _ => DCrash
  | S fuel' => fun name rd =>
      match find_ir P name with
      | Some ir => dec_packet_body (sem_dec P fuel') ir rd
      | None => DCrash
      end
  end.
