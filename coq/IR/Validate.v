(* The run-time validator: is a given IR program (in practice: the IR extracted from the
   real generator's output) equivalent to the reference compilation of the model?  Proved
   sound in Proofs/Validated.v: a validated program encodes/decodes as the wire
   specification says, for every message.  Model only. *)
From FP Require Export Eqv Ref.
Open Scope list_scope.

(* the identity the program itself uses for its length placeholder's position variable *)
Fixpoint first_mark (l : list (nat * estep)) : nat :=
  match l with
  | [] => undefined_mark
  | (_, EMarkZero m _ _) :: _ => m
  | _ :: r => first_mark r
  end.

Definition mk_of (O : prog) (path : string) (_ : packet) : nat :=
  match find_ir O path with
  | Some ir => first_mark (ir_enc ir)
  | None => undefined_mark
  end.

Fixpoint nodupb (l : list string) : bool :=
  match l with
  | [] => true
  | x :: r => andb (negb (existsb (String.eqb x) r)) (nodupb r)
  end.

Definition paths_ok (M : bmodel) : bool := nodupb (map fst (all_packets M)).

Definition validate_enc (M : bmodel) (O : prog) : bool :=
  andb (paths_ok M) (enc_prog_eqvb O (ref_prog M (mk_of O))).

Definition validate_dec (M : bmodel) (O : prog) : bool :=
  andb (paths_ok M) (dec_prog_eqvb O (ref_prog M (mk_of O))).

(* per packet, for diagnostics *)
Definition validate_packets (dec : bool) (M : bmodel) (O : prog) : list (string * bool) :=
  map (fun '(path, ir) =>
         (path, match find_ir (ref_prog M (mk_of O)) path with
                | Some r => pkt_eqvb dec (path, ir) (path, r)
                | None => false
                end)) O.

(* ---- diagnostics: which steps of a packet are not equivalent to the reference's ---- *)
From FP Require Import Show.
Open Scope string_scope.

Definition e_valueless (s : estep) : bool := match s with EMarkZero _ _ _ | EPatch _ _ _ _ _ _ => true | _ => false end.

Definition diff_enc (n : nat) (a b : list (nat * estep)) : list (string * string) :=
  let live l := filter (fun x : nat * estep => negb (is_noop (snd x))) l in
  let cmp (xs ys : list (nat * estep)) :=
      if forall2b (step_eqvb n) xs ys then []
      else [(join " " (map (fun x => show_estep (snd x)) xs), join " " (map (fun x => show_estep (snd x)) ys))] in
  let at_ i l := filter (fun x : nat * estep => andb (Nat.eqb (fst x) i) (negb (e_valueless (snd x)))) (live l) in
  let vl l := filter (fun x : nat * estep => e_valueless (snd x)) (live l) in
  (flat_map (fun i => cmp (at_ i a) (at_ i b)) (seq 0 n ++ [undefined_mark]) ++ cmp (vl a) (vl b))%list.

Definition diff_dec (n : nat) (a b : list (nat * dstep)) : list (string * string) :=
  let live l := filter (fun x : nat * dstep => negb (d_noop (snd x))) l in
  let cmp (xs ys : list (nat * dstep)) :=
      if forall2b dstep_eqvb xs ys then []
      else [(join " " (map (fun x => show_dstep (snd x)) xs), join " " (map (fun x => show_dstep (snd x)) ys))] in
  let at_ i l := filter (fun x : nat * dstep => Nat.eqb (fst x) i) (live l) in
  flat_map (fun i => cmp (at_ i a) (at_ i b)) (seq 0 n ++ [undefined_mark])%list.

Definition diff_packets (dec : bool) (M : bmodel) (O : prog) : list (string * list (string * string)) :=
  map (fun '(path, ir) =>
         (path, match find_ir (ref_prog M (mk_of O)) path with
                | Some r =>
                    let n := Nat.max (ir_members ir) (ir_members r) in
                    ((if Nat.eqb (ir_members ir) (ir_members r) then [] else [("members", "members")]) ++
                     (if dec then diff_dec n (ir_dec ir) (ir_dec r) else diff_enc n (ir_enc ir) (ir_enc r)))%list
                | None => [("no such packet", "-")]
                end)) O.

Definition show_diffs (d : list (string * list (string * string))) : string :=
  join "%%" (map (fun '(path, l) => path ++ "==" ++ join "&&" (map (fun '(a, b) => a ++ "~~" ++ b) l)) d).

(* one string per (model, observed program): the reference's text, the validator's verdicts
   and the differing steps - computed once *)
Definition report (M : bmodel) (O : prog) : string :=
  let R := ref_prog M (mk_of O) in
  let verdicts (dec : bool) :=
      join "," (map (fun '(path, ir) =>
                       path ++ "=" ++ show_bool (match find_ir R path with
                                                 | Some r => pkt_eqvb dec (path, ir) (path, r)
                                                 | None => false
                                                 end)) O) in
  let diffs (dec : bool) :=
      show_diffs (map (fun '(path, ir) =>
         (path, match find_ir R path with
                | Some r =>
                    let n := Nat.max (ir_members ir) (ir_members r) in
                    ((if Nat.eqb (ir_members ir) (ir_members r) then [] else [("members", "members")]) ++
                     (if dec then diff_dec n (ir_dec ir) (ir_dec r) else diff_enc n (ir_enc ir) (ir_enc r)))%list
                | None => [("no such packet", "-")]
                end)) O) in
  show_prog R ++ "@@" ++ show_bool (paths_ok M) ++ "@@" ++ verdicts false ++ "@@" ++ verdicts true
  ++ "@@" ++ diffs false ++ "@@" ++ diffs true.
