(* The run-time validator: is a given IR program (in practice: the IR extracted from the
   real generator's output) equivalent to the reference compilation of the model?  Proved
   sound in Proofs/Validated.v: a validated program encodes/decodes as the wire
   specification says, for every message.  Model only. *)
From FP Require Export Eqv Ref.
Open Scope list_scope.

(* the identity the program itself uses for its length placeholder's position variable *)
Fixpoint first_mark (l : list (nat * estep)) : nat :=
  match l with
  | [] => undefined_mark
  | (_, EMarkZero m _ _) :: _ => m
  | _ :: r => first_mark r
  end.

Definition mk_of (O : prog) (path : string) (_ : packet) : nat :=
  match find_ir O path with
  | Some ir => first_mark (ir_enc ir)
  | None => undefined_mark
  end.

Fixpoint nodupb (l : list string) : bool :=
  match l with
  | [] => true
  | x :: r => andb (negb (existsb (String.eqb x) r)) (nodupb r)
  end.

Definition paths_ok (M : bmodel) : bool := nodupb (map fst (all_packets M)).

Definition validate_enc (M : bmodel) (O : prog) : bool :=
  andb (paths_ok M) (enc_prog_eqvb O (ref_prog M (mk_of O))).

Definition validate_dec (M : bmodel) (O : prog) : bool :=
  andb (paths_ok M) (dec_prog_eqvb O (ref_prog M (mk_of O))).

(* per packet, for diagnostics *)
Definition validate_packets (dec : bool) (M : bmodel) (O : prog) : list (string * bool) :=
  map (fun '(path, ir) =>
         (path, match find_ir (ref_prog M (mk_of O)) path with
                | Some r => pkt_eqvb dec (path, ir) (path, r)
                | None => false
                end)) O.
