(* A boolean equivalence on IR programs, proved sound in Proofs/EqvSound.v: equivalent
   programs encode and decode identically.  It is what relates a generator model - and, on
   every run, the IR extracted from the real generator's output - to the reference
   compilation.  Model only: no proofs here. *)
From FP Require Export Sem.
Open Scope list_scope.

Definition pad_eqb (a b : padarg) : bool :=
  match pad_of a, pad_of b with
  | Some (x, l), Some (y, m) => andb (N.eqb x y) (Bool.eqb l m)
  | _, _ => false
  end.

(* byte order is immaterial for at most one byte *)
Definition order_eqb (w : nat) (a b : bool) : bool := orb (Bool.eqb a b) (Nat.leb w 1).

Fixpoint elem_eqvb (s t : estep) : bool :=
  match s, t with
  | EInt w le, EInt w' le' => andb (Nat.eqb w w') (order_eqb w le le')
  | EFixed n p, EFixed n' p' => andb (Nat.eqb n n') (pad_eqb p p')
  | EStr pw ple _, EStr pw' ple' _ => andb (Nat.eqb pw pw') (order_eqb pw ple ple')
  | EList pw ple _ e, EList pw' ple' _ e' => andb (andb (Nat.eqb pw pw') (order_eqb pw ple ple')) (elem_eqvb e e')
  | EObj a, EObj b => String.eqb a b
  | EDyn, EDyn => true
  | _, _ => false
  end.

Definition slice_ok (sl : option nat) (w : nat) : bool :=
  match sl with Some k => Nat.leb w k | None => true end.

(* [n] = number of members: tags of steps that read no member only have to be valid *)
Definition step_eqvb (n : nat) (a b : nat * estep) : bool :=
  let '(i, s) := a in let '(j, t) := b in
  match s, t with
  | EMarkZero m w le, EMarkZero m' w' le' =>
      andb (andb (Nat.eqb m m') (andb (Nat.eqb w w') (order_eqb w le le'))) (andb (Nat.ltb i n) (Nat.ltb j n))
  | ESpan e sid, ESpan e' sid' => andb (Nat.eqb i j) (andb (elem_eqvb e e') (Nat.eqb sid sid'))
  | EPatch m sid w le cw sl, EPatch m' sid' w' le' cw' sl' =>
      andb (andb (andb (Nat.eqb m m') (Nat.eqb sid sid')) (andb (Nat.eqb w w') (order_eqb w le le')))
           (andb (andb (orb (Nat.eqb cw cw') (andb (Nat.leb w cw) (Nat.leb w cw'))) (andb (slice_ok sl w) (slice_ok sl' w')))
                 (andb (Nat.ltb i n) (Nat.ltb j n)))
  | ECheck alg w le, ECheck alg' w' le' =>
      andb (Nat.eqb i j) (andb (String.eqb alg alg') (andb (Nat.eqb w w') (order_eqb w le le')))
  | _, _ => andb (Nat.eqb i j) (elem_eqvb s t)
  end.

(* steps without effect may be dropped, provided their tag is valid *)
Definition is_noop (s : estep) : bool := match s with ENone _ => true | _ => false end.

Fixpoint strip_noops (n : nat) (l : list (nat * estep)) : option (list (nat * estep)) :=
  match l with
  | [] => Some []
  | (i, s) :: r =>
      match strip_noops n r with
      | None => None
      | Some r' => if is_noop s then (if Nat.ltb i n then Some r' else None) else Some ((i, s) :: r')
      end
  end.

Fixpoint forall2b {A} (f : A -> A -> bool) (a b : list A) : bool :=
  match a, b with
  | [], [] => true
  | x :: r, y :: s => andb (f x y) (forall2b f r s)
  | _, _ => false
  end.

Definition enc_eqvb (n : nat) (a b : list (nat * estep)) : bool :=
  match strip_noops n a, strip_noops n b with
  | Some a', Some b' => forall2b (step_eqvb n) a' b'
  | _, _ => false
  end.

(* ---- decoders ---- *)

(* what a key literal can match: an integer or a byte string *)
Definition key_norm (lit : string) : option (N + list byte) :=
  if is_quoted lit then Some (inr (string_bytes (unquote lit)))
  else match lit with
       | EmptyString => None
       | _ => match digits_val 0 lit with Some k => Some (inl k) | None => None end
       end.

Definition same_key (k k' : string) : bool :=
  match key_norm k, key_norm k' with
  | Some (inl a), Some (inl b) => N.eqb a b
  | Some (inr a), Some (inr b) => list_eqb a b
  | _, _ => false
  end.

(* no two entries can match the same key value: which registration wins is then immaterial *)
Fixpoint keys_distinct (t : list (string * string)) : bool :=
  match t with
  | [] => true
  | (k, _) :: r => andb (negb (existsb (fun kp => same_key k (fst kp)) r)) (keys_distinct r)
  end.

Fixpoint delem_eqvb (s t : dstep) : bool :=
  match s, t with
  | DInt w le, DInt w' le' => andb (Nat.eqb w w') (order_eqb w le le')
  | DFixed n p, DFixed n' p' => andb (Nat.eqb n n') (pad_eqb p p')
  | DStr pw ple sg, DStr pw' ple' sg' => andb (andb (Nat.eqb pw pw') (order_eqb pw ple ple')) (Bool.eqb sg sg')
  | DList pw ple sg e, DList pw' ple' sg' e' =>
      andb (andb (andb (Nat.eqb pw pw') (order_eqb pw ple ple')) (Bool.eqb sg sg')) (delem_eqvb e e')
  | DObj a, DObj b => String.eqb a b
  | DDispatch t fw k ue, DDispatch t' fw' k' ue' =>
      andb (andb (forall2b (fun a b => andb (String.eqb (fst a) (fst b)) (String.eqb (snd a) (snd b))) t t')
                 (orb (Bool.eqb fw fw') (keys_distinct t)))
           (andb (Nat.eqb k k') (Bool.eqb ue ue'))
  | _, _ => false
  end.

Definition dstep_eqvb (a b : nat * dstep) : bool :=
  andb (Nat.eqb (fst a) (fst b)) (delem_eqvb (snd a) (snd b)).

Definition d_noop (s : dstep) : bool := match s with DNone _ => true | _ => false end.

Definition dec_eqvb (a b : list (nat * dstep)) : bool :=
  forallb (fun x => negb (d_noop (snd x))) a && forallb (fun x => negb (d_noop (snd x))) b && forall2b dstep_eqvb a b.

Definition pkt_eqvb (dec : bool) (a b : string * pkt_ir) : bool :=
  andb (String.eqb (fst a) (fst b))
       (andb (Nat.eqb (ir_members (snd a)) (ir_members (snd b)))
             (if dec then dec_eqvb (ir_dec (snd a)) (ir_dec (snd b))
              else enc_eqvb (ir_members (snd a)) (ir_enc (snd a)) (ir_enc (snd b)))).

Definition enc_prog_eqvb (P Q : prog) : bool := forall2b (pkt_eqvb false) P Q.
Definition dec_prog_eqvb (P Q : prog) : bool := forall2b (pkt_eqvb true) P Q.
