(* Executable oracles used by the check when it searches for a failing input: an IR
   (the model's, or the one extracted from the real generator's output) is run on a message
   and judged against the wire specification.  Model only: no proofs here. *)
From FP Require Export Sem.
Open Scope N_scope.
Open Scope list_scope.

(* the test registry: every algorithm name registered (a one-byte additive checksum), or none *)
Definition cs_test (registered : bool) : string -> option (list byte -> N) :=
  fun _ => if registered then Some (fun b => fold_left N.add b 7 mod 251) else None.

Fixpoint value_eqb (a b : value) {struct a} : bool :=
  match a, b with
  | VInt x, VInt y => N.eqb x y
  | VStr x, VStr y => list_eqb x y
  | VList x, VList y =>
      (fix go (x y : list value) : bool :=
         match x, y with
         | [], [] => true
         | u :: r, v :: s => andb (value_eqb u v) (go r s)
         | _, _ => false
         end) x y
  | VObj x, VObj y =>
      (fix go (x y : list value) : bool :=
         match x, y with
         | [], [] => true
         | u :: r, v :: s => andb (value_eqb u v) (go r s)
         | _, _ => false
         end) x y
  | VDyn p x, VDyn q y => andb (String.eqb p q) (value_eqb x y)
  | _, _ => false
  end.

(* a message with its computed members (length-of, checksum) blanked: what the caller chose *)
Section Blank.
  Variable M : bmodel.
  Fixpoint blank (fuel : nat) (p : packet) (v : value) : value :=
    match fuel with
    | O => v
    | S fuel' =>
        let blank_ref (name : string) (v : value) :=
            match lookup_packet M name with Some q => blank fuel' q v | None => v end in
        let blank_elem (a : attr) (v : value) : value :=
            match a, v with
            | AObj true _ _ (Some q), _ => blank fuel' q v
            | AObj false _ (Some name) _, _ => blank_ref name v
            | AMatch _ _ _, VDyn name pv => VDyn name (blank_ref name pv)
            | _, _ => v
            end in
        match v with
        | VObj vs =>
            VObj ((fix go (fs : list field) (vs : list value) : list value :=
                     match fs, vs with
                     | f :: fr, v :: vr =>
                         (match f_attr f, f_rep f, v with
                          | ALen _ _, false, _ => VInt 0
                          | ACheck _ _, false, _ => VInt 0
                          | a, true, VList l => VList (map (blank_elem a) l)
                          | a, _, _ => blank_elem a v
                          end) :: go fr vr
                     | _, _ => vs
                     end) (p_fields p) vs)
        | _ => v
        end
    end.
End Blank.

Inductive verdict :=
| Agree            (* the message is laid out by the spec and the IR agrees on everything *)
| NotAMessage      (* the specification does not lay this value out (ill-typed / out of range) *)
| EncFails         (* the encoder faults or gets stuck on a message the spec lays out *)
| EncDiffers       (* the encoder writes other bytes *)
| DecFails         (* the decoder does not return a message for the canonical bytes *)
| DecDiffers       (* decoded field values differ from the original (computed members aside) *)
| DecConsumes      (* the decoder consumes more or fewer bytes than the message *)
| ReencDiffers.    (* re-encoding the decoded message does not reproduce the bytes *)

Definition fuel0 : nat := 24%nat.

Definition check_enc (registered : bool) (M : bmodel) (P : prog) (path : string) (v : value) : verdict :=
  match packet_at M path with
  | None => NotAMessage
  | Some p =>
      match layout (cs_test registered) M fuel0 p v with
      | None => NotAMessage
      | Some b =>
          match sem_enc (cs_test registered) P fuel0 path v [] with
          | None => EncFails
          | Some b' => if list_eqb b b' then Agree else EncDiffers
          end
      end
  end.

Definition check_dec (registered : bool) (M : bmodel) (P : prog) (path : string) (v : value) (rest : list byte) : verdict :=
  match packet_at M path with
  | None => NotAMessage
  | Some p =>
      match layout (cs_test registered) M fuel0 p v with
      | None => NotAMessage
      | Some b =>
          match sem_dec P fuel0 path (b ++ rest) with
          | DOk (v', rest') =>
              if negb (list_eqb rest rest') then DecConsumes
              else if negb (value_eqb (blank M fuel0 p v) (blank M fuel0 p v')) then DecDiffers
              else match sem_enc (cs_test registered) P fuel0 path v' [] with
                   | Some b' => if list_eqb b b' then Agree else ReencDiffers
                   | None => ReencDiffers
                   end
          | _ => DecFails
          end
      end
  end.

Definition verdict_code (v : verdict) : nat :=
  match v with
  | Agree => 0 | NotAMessage => 1 | EncFails => 2 | EncDiffers => 3 | DecFails => 4
  | DecDiffers => 5 | DecConsumes => 6 | ReencDiffers => 7
  end%nat.
