(* C12, the SPECIFICATION side: which semantic faults a parse tree contains and on which
   line each has to be reported.  Written from the text of the property, independently of
   the visitor model (Model/Visitor.v is not imported).  MODEL ONLY: no proofs here.

   "Line of the offending declaration" = line of the first token of the declaration that
   introduces the offence: for a top-level field the first token of
   fieldDefinitionWithAttribute (the first prefixed attribute when there is one), for a
   field of an inline object the first token of its fieldDefinition, for a packet the first
   token of packetDefinition (the ROOT keyword when present), for a MetaData entry / an
   option the first token of the declaration, for a duplicate match key the later key
   token, for an undeclared packet in a match pair the first token of the pair.

   A name is DECLARED when it is declared anywhere in the file (the DSL has no
   declare-before-use rule: the samples reference packets before their definition). *)
From Coq Require Import String Ascii NArith Bool Arith List.
From FP Require Import PT Flatten.
Import ListNotations.
Open Scope string_scope.

Inductive fault_kind :=
| FDupPacket            (* duplicate packet name: the later packetDefinition *)
| FDupMeta              (* duplicate MetaData entry, also through a ref-declaration *)
| FDupOption            (* duplicate option *)
| FDupField             (* duplicate field name in one packet / inline object: the later field *)
| FDupMatchKey          (* duplicate key in one match field: the later key *)
| FSecondRoot           (* more than one root packet: the later one *)
| FUnknownOption        (* option name that is not documented *)
| FIllegalOptionValue   (* documented option, value outside its documented set *)
| FLenOutsideRoot       (* length-of field in a non-root packet or in an inline object *)
| FSecondLen            (* second length-of field in the root packet *)
| FUndeclaredPacket     (* object field type / match pair value that is no declared packet (or MetaData entry) *)
| FUndeclaredMatchKey   (* match on a key that is no field of the same packet / inline object *)
| FUndeclaredLenTarget. (* length-of a target that is no field of the same packet / inline object *)

Definition fault_kind_eqb (a b : fault_kind) : bool :=
  match a, b with
  | FDupPacket, FDupPacket | FDupMeta, FDupMeta | FDupOption, FDupOption | FDupField, FDupField
  | FDupMatchKey, FDupMatchKey | FSecondRoot, FSecondRoot | FUnknownOption, FUnknownOption
  | FIllegalOptionValue, FIllegalOptionValue | FLenOutsideRoot, FLenOutsideRoot | FSecondLen, FSecondLen
  | FUndeclaredPacket, FUndeclaredPacket | FUndeclaredMatchKey, FUndeclaredMatchKey
  | FUndeclaredLenTarget, FUndeclaredLenTarget => true
  | _, _ => false
  end.

Definition fault := (fault_kind * nat)%type.

Definition line_of (sp : span) : nat := p_line (sp_start sp).
Definition name_in (n : string) (l : list string) : bool := existsb (String.eqb n) l.

(* the lines of the entries whose name occurred earlier in the list *)
Fixpoint later_dups (seen : list string) (l : list (string * nat)) : list nat :=
  match l with
  | [] => []
  | (n, ln) :: r => if name_in n seen then ln :: later_dups seen r else later_dups (n :: seen) r
  end.

Definition tag (k : fault_kind) (lines : list nat) : list fault := map (fun l => (k, l)) lines.

(* ------------------------------------------------------------------ the declarations of a file *)

Definition packet_defs (t : pt) : list packet_def :=
  flat_map (fun d => match d with DPacket p => [p] | _ => [] end) (pk_defs t).
Definition meta_items (t : pt) : list meta_item :=
  flat_map (fun d => match d with DMeta m => me_items m | _ => [] end) (pk_defs t).
Definition option_decls (t : pt) : list option_decl :=
  flat_map (fun d => match d with DOption o => op_decls o | _ => [] end) (pk_defs t).

Definition meta_item_name (i : meta_item) : string :=
  match i with MIDecl d => p_text (md_name d) | MIRef d => p_text (rm_name d) end.
Definition meta_item_line (i : meta_item) : nat :=
  match i with MIDecl d => line_of (md_span d) | MIRef d => line_of (rm_span d) end.

Definition packet_names (t : pt) : list string := map (fun p => p_text (pd_name p)) (packet_defs t).
Definition meta_names (t : pt) : list string := map meta_item_name (meta_items t).

(* ------------------------------------------------------------------ options *)

Definition int_prefix_values : list string := ["u8"; "u16"; "u32"; "u64"; "uint8"; "uint16"; "uint32"; "uint64"].
Definition bool_values : list string := ["true"; "false"].
(* as the user spells them: the third is quote, backslash, x, 0, 0, quote *)
Definition pad_char_values : list string := ["'0'"; "' '"; "'\x00'"].

(* documented options; [] = any value *)
Definition documented_options : list (string * list string) :=
  [ ("StringPrefixLenType", int_prefix_values); ("ArrayPrefixLenType", int_prefix_values);
    ("LittleEndian", bool_values); ("JavaPackage", []); ("GoPackage", []); ("GoModule", []);
    ("FixedStringPadFromLeft", bool_values); ("FixedStringPadChar", pad_char_values) ].

Fixpoint lookup {A} (l : list (string * A)) (k : string) : option A :=
  match l with
  | [] => None
  | (k', v) :: r => if String.eqb k k' then Some v else lookup r k
  end.

Definition option_fault (d : option_decl) : list fault :=
  match lookup documented_options (p_text (od_name d)) with
  | None => [(FUnknownOption, line_of (od_span d))]
  | Some [] => []
  | Some vs => if name_in (text_of (toks_value (od_value d))) vs then [] else [(FIllegalOptionValue, line_of (od_span d))]
  end.

(* ------------------------------------------------------------------ fields *)

Definition field_name (f : field_def) : string :=
  match f with
  | InerObjectField _ _ (InerObjectDecl _ n _ _ _) _ => p_text n
  | MetaField _ _ d => p_text (md_name d)
  | ObjectField _ _ ft fn _ _ => match fn with Some t => p_text t | None => p_text ft end
  | LengthField _ d => p_text (lf_name d)
  | CheckSumField _ d => p_text (ck_name d)
  | MatchField _ d _ => p_text (mf_name d)
  end.

(* a field as declared in a scope: its definition, its prefixed attributes, its first line *)
Record entry := mkEntry { e_def : field_def; e_attrs : list field_attribute; e_line : nat }.

(* a packet body or the body of an inline object *)
Record scope := mkScope { sc_top : bool; sc_root : bool; sc_entries : list entry }.

Definition inline_entry (f : field_def) : entry := mkEntry f [] (line_of (fd_span f)).

Fixpoint inline_scopes (f : field_def) : list scope :=
  match f with
  | InerObjectField _ _ (InerObjectDecl _ _ _ fields _) _ =>
      mkScope false false (map inline_entry fields) :: flat_map inline_scopes fields
  | _ => []
  end.

Definition top_entry (fw : field_with_attr) : entry := mkEntry (fw_def fw) (fw_attrs fw) (line_of (fw_span fw)).

Definition packet_scopes (p : packet_def) : list scope :=
  mkScope true (match pd_root p with Some _ => true | None => false end) (map top_entry (pd_fields p))
  :: flat_map (fun fw => inline_scopes (fw_def fw)) (pd_fields p).

Definition scopes (t : pt) : list scope := flat_map packet_scopes (packet_defs t).

Definition scope_names (s : scope) : list string := map (fun e => field_name (e_def e)) (sc_entries s).

(* the length-of targets an entry declares: the inline form and the prefixed attributes *)
Definition len_targets (e : entry) : list string :=
  (match e_def e with LengthField _ d => [p_text (lo_from (lf_length_of d))] | _ => [] end ++
   flat_map (fun a => match a with FALengthOf _ l => [p_text (lo_from l)] | _ => [] end) (e_attrs e))%list.

Definition is_len_entry (e : entry) : bool := match len_targets e with [] => false | _ => true end.

(* the keys of a match field in source order *)
Definition pair_keys (p : match_pair) : list ptok :=
  match PT.mp_key p with
  | MKDigits t | MKString t => [t]
  | MKList l => li_first l :: map snd (li_rest l)
  end.
Definition match_keys (d : match_field_decl) : list (string * nat) :=
  map (fun k => (p_text k, p_line k)) (flat_map pair_keys (mf_pairs d)).

Definition scope_faults (pnames mnames : list string) (s : scope) : list fault :=
  let names := scope_names s in
  let es := sc_entries s in
  (tag FDupField (later_dups [] (map (fun e => (field_name (e_def e), e_line e)) es)) ++
   flat_map (fun e => match e_def e with
                      | MatchField _ d _ => tag FDupMatchKey (later_dups [] (match_keys d))
                      | _ => []
                      end) es ++
   (* length-of fields: placement *)
   (if sc_top s && sc_root s
    then tag FSecondLen (map e_line (tl (filter is_len_entry es)))
    else tag FLenOutsideRoot (map e_line (filter is_len_entry es))) ++
   (* references *)
   flat_map (fun e =>
     (match e_def e with
      | ObjectField _ _ ft _ _ _ =>
          if name_in (p_text ft) pnames || name_in (p_text ft) mnames then [] else [(FUndeclaredPacket, e_line e)]
      | MatchField _ d _ =>
          (if name_in (p_text (mf_key d)) names then [] else [(FUndeclaredMatchKey, e_line e)]) ++
          flat_map (fun p => if name_in (p_text (mp_ident p)) pnames then [] else [(FUndeclaredPacket, line_of (mp_span p))])
                   (mf_pairs d)
      | _ => []
      end) ++
     (if forallb (fun tg => name_in tg names) (len_targets e) then [] else [(FUndeclaredLenTarget, e_line e)])) es)%list.

(* ------------------------------------------------------------------ the file *)

Definition root_defs (t : pt) : list packet_def :=
  filter (fun p => match pd_root p with Some _ => true | None => false end) (packet_defs t).

Definition faults (t : pt) : list fault :=
  (tag FDupPacket (later_dups [] (map (fun p => (p_text (pd_name p), line_of (pd_span p))) (packet_defs t))) ++
   tag FDupMeta (later_dups [] (map (fun i => (meta_item_name i, meta_item_line i)) (meta_items t))) ++
   tag FDupOption (later_dups [] (map (fun d => (p_text (od_name d), line_of (od_span d))) (option_decls t))) ++
   tag FSecondRoot (map (fun p => line_of (pd_span p)) (tl (root_defs t))) ++
   flat_map option_fault (option_decls t) ++
   flat_map (scope_faults (packet_names t) (meta_names t)) (scopes t))%list.

Definition well_formed (t : pt) : bool := match faults t with [] => true | _ => false end.

(* ------------------------------------------------------------------ printing (harness) *)

Definition fault_kind_name (k : fault_kind) : string :=
  match k with
  | FDupPacket => "DupPacket" | FDupMeta => "DupMeta" | FDupOption => "DupOption" | FDupField => "DupField"
  | FDupMatchKey => "DupMatchKey" | FSecondRoot => "SecondRoot" | FUnknownOption => "UnknownOption"
  | FIllegalOptionValue => "IllegalOptionValue" | FLenOutsideRoot => "LenOutsideRoot" | FSecondLen => "SecondLen"
  | FUndeclaredPacket => "UndeclaredPacket" | FUndeclaredMatchKey => "UndeclaredMatchKey"
  | FUndeclaredLenTarget => "UndeclaredLenTarget"
  end.
