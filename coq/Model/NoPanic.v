(* C11 (compile part): a structural fragment of parse trees on which the UNREPAIRED visitor did not
   panic (the repaired visitor returns a result on every tree: visit_never_panics; the fragment and its
   helper functions are kept because the C12 theorems name declarations with them).  [nopanic_frag] only looks at the tree (it does not run the visitor); it excludes,
   conservatively, the five panic sites of Model/Visitor.v:

   site_attr      a padding attribute on anything but a fixed string
                  -> padding attributes only on a MetaField of type char[n]/zchar[n] whose
                     attribute list has no @lengthOf/@calculatedFrom (those replace Attr)
   site_gettype   @lengthOf/@calculatedFrom written before an ObjectField (Field.GetType
                  dereferences RefPacket, nil at that point, or calls a method on a nil Attr)
                  -> not on ObjectField
   site_lenfield, site_checksum
                  a length / checksum field whose NAME is a MetaData entry with a nil Attr
                  (a ref-declaration of an undeclared MetaData type)
                  -> the name of such a field is not the name of any ref-declaration
   site_packetdef the target of the root packet's length field is not a field of the packet
                  and a field follows
                  -> in a root packet every @lengthOf target names a field of the packet that
                     carries no @lengthOf itself (such a field is certainly kept)

   MODEL ONLY: no proofs here; Proofs/VisitorProofs.v relates it to [visit]. *)
From Coq Require Import String Ascii NArith Bool Arith List.
From FP Require Import PT Flatten.
Import ListNotations.
Open Scope string_scope.

Definition np_mem (n : string) (l : list string) : bool := existsb (String.eqb n) l.

Definition ref_names (t : pt) : list string :=
  flat_map (fun d => match d with
                     | DMeta m => flat_map (fun i => match i with MIRef r => [p_text (rm_name r)] | MIDecl _ => [] end) (me_items m)
                     | _ => []
                     end) (pk_defs t).

(* length / checksum field names, at any depth, avoid [refs] *)
Fixpoint def_ok (refs : list string) (f : field_def) : bool :=
  match f with
  | LengthField _ d => negb (np_mem (p_text (lf_name d)) refs)
  | CheckSumField _ d => negb (np_mem (p_text (ck_name d)) refs)
  | InerObjectField _ _ (InerObjectDecl _ _ _ fields _) _ => forallb (def_ok refs) fields
  | _ => true
  end.

Definition is_len_or_calc (a : field_attribute) : bool :=
  match a with FALengthOf _ _ | FACalculatedFrom _ _ => true | _ => false end.
Definition is_padding (a : field_attribute) : bool := match a with FAPadding _ _ => true | _ => false end.
Definition is_fixed_meta_field (f : field_def) : bool :=
  match f with MetaField _ _ d => match md_type d with TyFixed _ _ => true | _ => false end | _ => false end.
Definition is_object_field (f : field_def) : bool := match f with ObjectField _ _ _ _ _ _ => true | _ => false end.

Definition attrs_ok (fw : field_with_attr) : bool :=
  let lc := existsb is_len_or_calc (fw_attrs fw) in
  (if existsb is_padding (fw_attrs fw) then is_fixed_meta_field (fw_def fw) && negb lc else true) &&
  (if lc then negb (is_object_field (fw_def fw)) else true).

Definition np_field_name (f : field_def) : string :=
  match f with
  | InerObjectField _ _ (InerObjectDecl _ n _ _ _) _ => p_text n
  | MetaField _ _ d => p_text (md_name d)
  | ObjectField _ _ ft fn _ _ => match fn with Some t => p_text t | None => p_text ft end
  | LengthField _ d => p_text (lf_name d)
  | CheckSumField _ d => p_text (ck_name d)
  | MatchField _ d _ => p_text (mf_name d)
  end.

Definition fw_len_targets (fw : field_with_attr) : list string :=
  (match fw_def fw with LengthField _ d => [p_text (lo_from (lf_length_of d))] | _ => [] end ++
   flat_map (fun a => match a with FALengthOf _ l => [p_text (lo_from l)] | _ => [] end) (fw_attrs fw))%list.

Definition has_len (fw : field_with_attr) : bool := match fw_len_targets fw with [] => false | _ => true end.

Definition targets_ok (p : packet_def) : bool :=
  match pd_root p with
  | None => true
  | Some _ =>
      let safe := map (fun fw => np_field_name (fw_def fw)) (filter (fun fw => negb (has_len fw)) (pd_fields p)) in
      forallb (fun fw => forallb (fun tg => np_mem tg safe) (fw_len_targets fw)) (pd_fields p)
  end.

Definition packet_ok (refs : list string) (p : packet_def) : bool :=
  forallb (fun fw => attrs_ok fw && def_ok refs (fw_def fw)) (pd_fields p) && targets_ok p.

Definition nopanic_frag (t : pt) : bool :=
  forallb (fun d => match d with DPacket p => packet_ok (ref_names t) p | _ => true end) (pk_defs t).
