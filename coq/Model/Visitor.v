(* The visitor: parse tree -> BinaryModel  (internal/parser/packet_dsl_parser.go and the
   methods of internal/model/model.go it calls).  MODEL ONLY: no proofs here
   (Proofs/VisitorProofs.v).  The model follows the Go code statement by statement,
   defects included.

   Pointers.  The Go visitor builds a graph; the sharing that can be OBSERVED is modelled
   explicitly, the rest is a tree:
   - *FixedStringFieldAttribute objects live in a STORE ([fcell], addressed by their
     allocation number).  A MetaData entry, every refMetaData alias of it and every field
     whose type is that MetaData name hold the same cell; a padding attribute written on
     one of those fields assigns the Padding member of the shared object.  A *Padding is
     never shared between two FixedStringFieldAttribute objects (every &Padding{} is
     assigned to exactly one place), so it lives inside its cell.
   - *Field pointers into the Fields slice of the packet under construction (FieldMap,
     LengthField, MatchKeyField, TragetField) are indices into the field list ([FRIdx]);
     [FRNew n] is the placeholder object &Field{Name: n} (nil Attr), [FRNil] a nil pointer.
   - *Packet pointers (RefPacket, PacketsMap, RootPacket) are packet names: PacketsMap
     holds one packet per name and RefPacket is only ever looked up by name.
   - Basic/Dynamic/Object/Match/Length/CheckSum attribute objects are not shared in an
     observable way (the only writes go to objects created for the field at hand).

   Panics.  Every type assertion / pointer dereference that the Go code does not guard is an explicit
   [RPanic site] (site = innermost function of fin-protoc on the panicking stack); Proofs/VisitorProofs.v
   shows that none of them is reachable (visit_never_panics).  What used to panic (padding on a field
   that is no fixed string, @lengthOf/@calculatedFrom before an object field, a MetaData entry without
   type, an undeclared length target) is a diagnostic in the code and in the model.

   Columns are not modelled (the visitor stores the lexer's final column everywhere). *)
From Coq Require Import String Ascii NArith Bool Arith List.
From FP Require BModel.
From FP Require Import PT Flatten.
Import ListNotations.
Open Scope string_scope.

Definition snoc {A} (l : list A) (x : A) : list A := app l [x].

(* ------------------------------------------------------------------ strings *)

Fixpoint prefixb (p s : string) : bool :=
  match p with
  | EmptyString => true
  | String c p' => match s with
                   | EmptyString => false
                   | String d s' => Ascii.eqb c d && prefixb p' s'
                   end
  end.

(* strings.Contains *)
Fixpoint containsb (p s : string) : bool :=
  prefixb p s || match s with EmptyString => false | String _ s' => containsb p s' end.

Fixpoint rev_string_aux (s acc : string) : string :=
  match s with EmptyString => acc | String c r => rev_string_aux r (String c acc) end.
Definition rev_string (s : string) : string := rev_string_aux s EmptyString.

Definition dquote : ascii := ascii_of_nat 34.

Fixpoint drop_quotes (s : string) : string :=
  match s with
  | EmptyString => EmptyString
  | String c r => if Ascii.eqb c dquote then drop_quotes r else s
  end.

(* strings.Trim(s, cutset = one double quote) *)
Definition trim_quotes (s : string) : string := rev_string (drop_quotes (rev_string (drop_quotes s))).

(* raw[1 : len(raw)-1]  (raw is a STRING_LITERAL: at least the two backticks) *)
Definition strip_ends (s : string) : string :=
  match s with
  | EmptyString => EmptyString
  | String _ r => rev_string (match rev_string r with EmptyString => EmptyString | String _ m => m end)
  end.

(* strconv.Atoi on a DIGITS token (errors ignored by the callers): the decimal value,
   MaxInt64 when it does not fit; 0 for a text that is not [0-9]+ (cannot come out of the lexer) *)
Definition is_digit (c : ascii) : bool := let n := nat_of_ascii c in Nat.leb 48 n && Nat.leb n 57.
Fixpoint all_digits (s : string) : bool :=
  match s with EmptyString => true | String c r => is_digit c && all_digits r end.
Fixpoint dec_val (s : string) (acc : N) : N :=
  match s with
  | EmptyString => acc
  | String c r => dec_val r (acc * 10 + (N_of_ascii c - 48))%N
  end.
Definition max_int64 : N := 9223372036854775807%N.
Definition atoi (s : string) : N :=
  match s with
  | EmptyString => 0%N
  | _ => if all_digits s then N.min (dec_val s 0%N) max_int64 else 0%N
  end.

Definition tok_line (t : ptok) : nat := p_line t.
Definition start_line (sp : span) : nat := p_line (sp_start sp).
Definition opt_text (o : option ptok) : string := match o with Some t => p_text t | None => "" end.
Definition is_some {A} (o : option A) : bool := match o with Some _ => true | None => false end.

(* ctx.Type_().GetText() *)
Definition type_text (t : type_) : string := text_of (toks_type t).
Definition value_text (v : value) : string := text_of (toks_value v).

(* ------------------------------------------------------------------ the model's objects *)

(* a *FixedStringFieldAttribute object *)
Record fcell := mkCell { fc_len : N; fc_pad : option BModel.padding }.

Record vpair := mkVPair { vp_key : string; vp_value : string; vp_line : nat }.

(* a *Field pointer *)
Inductive fref :=
| FRNew (n : string)               (* &model.Field{Name: n} made for the occasion *)
| FRIdx (i : nat) (n : string)     (* the i-th element of Fields of the enclosing packet (its name is n) *)
| FRNil.
Definition fref_name (r : fref) : option string :=
  match r with FRNew n | FRIdx _ n => Some n | FRNil => None end.

(* Field.LenAttr *)
Inductive vlen :=
| VLNone
| VLLen (target : option string) (lenty : string)   (* a *LengthFieldAttribute (they are never written after creation) *)
| VLLenOf (length_field : string).                  (* &LengthOfAttribute{LengthField: ...}, Type "" *)

Inductive vattr :=
| VABasic (ty : string)
| VAFixed (cell : nat)
| VADyn
| VALen (target : fref) (lenty : string)
| VACheck (alg : string) (ty : string)
| VAObj (iner : bool) (pname : string) (ref : option string) (inlp : option vpacket)
| VAMatch (key : fref) (pairs : list vpair)
| VANil                                              (* nil interface *)
with vfield :=
| mkVField (name : string) (a : vattr) (la : vlen) (rep : bool) (doc : string) (tag : N) (line : nat)
with vpacket :=
| mkVPacket (name : string) (is_root : bool) (len_field : option nat) (fields : list vfield)
            (field_map : list (string * nat)) (match_fields : list (string * list vpair)) (line : nat).

Definition vf_name (f : vfield) := let 'mkVField n _ _ _ _ _ _ := f in n.
Definition vf_attr (f : vfield) := let 'mkVField _ a _ _ _ _ _ := f in a.
Definition vf_la (f : vfield) := let 'mkVField _ _ l _ _ _ _ := f in l.
Definition vf_rep (f : vfield) := let 'mkVField _ _ _ r _ _ _ := f in r.
Definition vf_doc (f : vfield) := let 'mkVField _ _ _ _ d _ _ := f in d.
Definition vf_tag (f : vfield) := let 'mkVField _ _ _ _ _ t _ := f in t.
Definition vf_line (f : vfield) := let 'mkVField _ _ _ _ _ _ l := f in l.
Definition set_attr (f : vfield) (a : vattr) := let 'mkVField n _ l r d t ln := f in mkVField n a l r d t ln.
Definition set_la (f : vfield) (l : vlen) := let 'mkVField n a _ r d t ln := f in mkVField n a l r d t ln.
Definition set_tag (f : vfield) (t : N) := let 'mkVField n a l r d _ ln := f in mkVField n a l r d t ln.

Definition vk_name (p : vpacket) := let 'mkVPacket n _ _ _ _ _ _ := p in n.
Definition vk_root (p : vpacket) := let 'mkVPacket _ r _ _ _ _ _ := p in r.
Definition vk_lenf (p : vpacket) := let 'mkVPacket _ _ l _ _ _ _ := p in l.
Definition vk_fields (p : vpacket) := let 'mkVPacket _ _ _ f _ _ _ := p in f.
Definition vk_fmap (p : vpacket) := let 'mkVPacket _ _ _ _ m _ _ := p in m.
Definition vk_mfs (p : vpacket) := let 'mkVPacket _ _ _ _ _ m _ := p in m.
Definition vk_line (p : vpacket) := let 'mkVPacket _ _ _ _ _ _ l := p in l.
Definition set_fields (p : vpacket) (fs : list vfield) :=
  let 'mkVPacket n r l _ fm mf ln := p in mkVPacket n r l fs fm mf ln.

(* MetaData{Name, Attr, Description, Line} *)
Record vmeta := mkVMeta { vm_name : string; vm_attr : vattr; vm_desc : string; vm_line : nat }.

(* the AddSyntaxError call sites *)
Inductive dkind :=
| DK_DupMeta          (* model.go AddMetaData *)
| DK_OptValue         (* model.go AddOption: "is not allowed to be" *)
| DK_OptUnknown       (* model.go AddOption: "is not allowed in this context" *)
| DK_OptDup           (* model.go AddOption: "is already defined" *)
| DK_DupPacket        (* model.go AddPacket *)
| DK_MultiRoot        (* model.go AddPacket *)
| DK_UnknownPacket    (* model.go ResolveDependencies *)
| DK_LenNotRoot       (* VisitPacketDefinition *)
| DK_LenDup           (* VisitPacketDefinition *)
| DK_DupMatchKey      (* VisitMatchFieldDeclaration *)
| DK_UnexpectedField  (* VisitFieldDefinition default branch (dead: the six alternatives are all handled) *)
| DK_UnknownMeta      (* VisitPacket: ref-declaration of a MetaData type that is not there *)
| DK_PadNotFixed      (* VisitFieldDefinitionWithAttribute: padding attribute on a field that is no fixed string *)
| DK_AttrOnObject     (* VisitFieldDefinitionWithAttribute: @lengthOf / @calculatedFrom before an object field *)
| DK_UnknownLenTarget (* VisitPacketDefinition, second loop *)
| DK_UnknownMatchKey  (* VisitPacketDefinition, second loop; VisitInerObjectField *)
| DK_DupField.        (* VisitPacketDefinition, first loop; VisitInerObjectField *)

Record diag := mkDiag { d_line : nat; d_kind : dkind; d_msg : string }.

Inductive res (A : Type) := ROk (a : A) | RPanic (site : string).
Arguments ROk {A} a.
Arguments RPanic {A} site.

(* panic sites: frames[0] of the hook *)
Definition site_attr : string := "parser.(*PacketDslVisitorImpl).VisitFieldDefinitionWithAttribute".
Definition site_gettype : string := "model.Field.GetType".
Definition site_lenfield : string := "parser.(*PacketDslVisitorImpl).VisitLengthFieldDeclaration".
Definition site_checksum : string := "parser.(*PacketDslVisitorImpl).VisitCheckSumFieldDeclaration".
Definition site_packetdef : string := "parser.(*PacketDslVisitorImpl).VisitPacketDefinition".

(* ------------------------------------------------------------------ maps *)

Fixpoint alookup {A} (l : list (string * A)) (k : string) : option A :=
  match l with
  | [] => None
  | (k', v) :: r => if String.eqb k k' then Some v else alookup r k
  end.

(* m[k] = v *)
Fixpoint aset {A} (l : list (string * A)) (k : string) (v : A) : list (string * A) :=
  match l with
  | [] => [(k, v)]
  | (k', v') :: r => if String.eqb k k' then (k, v) :: r else (k', v') :: aset r k v
  end.

Fixpoint find_meta (ms : list vmeta) (n : string) : option vmeta :=
  match ms with
  | [] => None
  | m :: r => if String.eqb n (vm_name m) then Some m else find_meta r n
  end.

Definition mem (n : string) (l : list string) : bool := existsb (String.eqb n) l.

Fixpoint upd_nth {A} (i : nat) (x : A) (l : list A) : list A :=
  match l, i with
  | [], _ => []
  | _ :: r, O => x :: r
  | y :: r, S j => y :: upd_nth j x r
  end.

(* ------------------------------------------------------------------ GetType *)

(* the second switch of Field.GetType applied to Attr.GetType() = t *)
Definition field_type_norm (t : string) : string :=
  let l := BModel.to_lower t in
  if String.eqb l "string" || String.eqb l "char[]" then "string" else BModel.get_basic_type t.

(* FieldAttribute.GetType(); None: nil interface (the method call panics in the caller) *)
Definition attr_get_type (store : list fcell) (a : vattr) : option string :=
  match a with
  | VABasic t => Some (BModel.get_basic_type t)
  | VAFixed _ => Some "string"
  | VADyn => Some "string"
  | VALen _ t => Some (BModel.get_basic_type t)
  | VACheck _ t => Some (BModel.get_basic_type t)
  | VAObj _ _ _ _ => Some "object"
  | VAMatch _ _ => Some "match"
  | VANil => None
  end.

(* Field.GetType(); None: panic inside model.Field.GetType (nil Attr, nil RefPacket) *)
Definition field_get_type (a : vattr) : option string :=
  match a with
  | VAFixed _ | VADyn => Some "string"
  | VAObj _ _ (Some r) _ => Some r
  | VAObj _ _ None _ => None
  | VAMatch _ _ => Some "match"
  | VANil => None
  | VABasic t | VALen _ t | VACheck _ t => Some (field_type_norm (BModel.get_basic_type t))
  end.

(* ------------------------------------------------------------------ MetaData *)

(* the attribute both metaDataDeclarationToMetaData and metaDataDeclarationToField build;
   a fixed string allocates a new object *)
Definition meta_decl_attr (d : meta_decl) (store : list fcell) : vattr * list fcell :=
  match md_type d with
  | TyBasic _ _ => (VABasic (type_text (md_type d)), store)
  | TyFixed _ f =>
      let size := atoi (p_text (fs_digits f)) in
      let pad := if containsb "zchar" (type_text (md_type d))
                 then Some (BModel.mkPad (String "'" (String (ascii_of_nat 0) "'")) false)
                 else None in
      (VAFixed (length store), snoc store (mkCell size pad))
  | TyDynamic _ _ => (VADyn, store)
  end.

Record vst := mkSt {
  s_store : list fcell;
  s_metas : list vmeta;                  (* MetaDataMap, in insertion order (names are unique) *)
  s_options : list (string * string);    (* Options, in insertion order (names are unique) *)
  s_packets : list vpacket;              (* Packets; PacketsMap = the same packets by name *)
  s_root : option string;                (* RootPacket *)
  s_diags : list diag                    (* SyntaxErrors *)
}.

Definition st0 : vst := mkSt [] [] [] [] None [].

Definition add_diag (s : vst) (d : diag) : vst :=
  mkSt (s_store s) (s_metas s) (s_options s) (s_packets s) (s_root s) (snoc (s_diags s) d).
Definition set_store (s : vst) (st : list fcell) : vst :=
  mkSt st (s_metas s) (s_options s) (s_packets s) (s_root s) (s_diags s).

(* BinaryModel.AddMetaData *)
Definition add_meta (s : vst) (m : vmeta) : vst :=
  match find_meta (s_metas s) (vm_name m) with
  | Some _ => add_diag s (mkDiag (vm_line m) DK_DupMeta ("Duplicate metadata definition for " ++ vm_name m))
  | None =>
      (* "if m.MetaDataMap[name] != (MetaData{})" cannot hold here: the key is absent *)
      mkSt (s_store s) (snoc (s_metas s) m) (s_options s) (s_packets s) (s_root s) (s_diags s)
  end.

Definition visit_meta_item (s : vst) (i : meta_item) : vst :=
  match i with
  | MIRef d =>
      (* VisitRefMetaDataDeclaration: MetaDataMap[typ].Attr, nil when typ is not (yet) there; VisitPacket reports the
         nil and records the entry all the same *)
      let a := match find_meta (s_metas s) (p_text (rm_typ d)) with Some m => vm_attr m | None => VANil end in
      let s1 := match a with
                | VANil => add_diag s (mkDiag (start_line (rm_span d)) DK_UnknownMeta
                                         ("Unknown metadata type " ++ p_text (rm_typ d) ++ " for " ++ p_text (rm_name d)))
                | _ => s
                end in
      add_meta s1 (mkVMeta (p_text (rm_name d)) a (opt_text (rm_doc d)) (start_line (rm_span d)))
  | MIDecl d =>
      let '(a, st) := meta_decl_attr d (s_store s) in
      add_meta (set_store s st) (mkVMeta (p_text (md_name d)) a (opt_text (md_doc d)) (start_line (md_span d)))
  end.

Definition visit_meta_def (s : vst) (d : meta_def) : vst := fold_left visit_meta_item (me_items d) s.

(* ------------------------------------------------------------------ options *)

Definition nul_pad_char : string := String "'" (String (ascii_of_nat 0) "'").

(* var options (model.go) in sorted key order *)
Definition option_table : list (string * list string) :=
  [ ("ArrayPrefixLenType", ["u8"; "u16"; "u32"; "u64"]);
    ("FixedStringPadChar", ["'0'"; "' '"; nul_pad_char]);
    ("FixedStringPadFromLeft", ["true"; "false"]);
    ("GoModule", []);
    ("GoPackage", []);
    ("JavaPackage", []);
    ("LittleEndian", ["true"; "false"]);
    ("StringPrefixLenType", ["u8"; "u16"; "u32"; "u64"]) ].

Fixpoint join (sep : string) (l : list string) : string :=
  match l with
  | [] => ""
  | [x] => x
  | x :: r => x ++ sep ++ join sep r
  end.

Definition set_options (s : vst) (o : list (string * string)) : vst :=
  mkSt (s_store s) (s_metas s) o (s_packets s) (s_root s) (s_diags s).

(* BinaryModel.AddOption *)
Definition add_option (s : vst) (name value : string) (line : nat) : vst :=
  match alookup option_table name with
  | None =>
      add_diag s (mkDiag line DK_OptUnknown
        ("Option " ++ name ++ " is not allowed in this context, Expected one of:" ++ join "," (map fst option_table)))
  | Some values =>
      let s1 := match values with
                | [] => s
                | _ => if mem value values then s
                       else add_diag s (mkDiag line DK_OptValue
                              ("Option " ++ name ++ " is not allowed to be " ++ value ++ ", Expected one of:" ++ join "," values))
                end in
      match alookup (s_options s1) name with
      | Some _ => add_diag s1 (mkDiag line DK_OptDup ("Option " ++ name ++ " is already defined"))
      | None => set_options s1 (snoc (s_options s1) (name, value))
      end
  end.

(* the value VisitPacket hands to AddOption: a STRING loses its quotes, a basic type its long spelling, and the
   six characters quote-backslash-x-0-0-quote become quote-NUL-quote *)
Definition option_value (v : value) : string :=
  let t := value_text v in
  let t := match v with VString _ _ => trim_quotes t | _ => t end in
  let t := match v with VType _ (TyBasic _ _) => BModel.get_basic_type t | _ => t end in
  if String.eqb t "'\x00'" then nul_pad_char else t.

Definition visit_option_decl (s : vst) (d : option_decl) : vst :=
  add_option s (p_text (od_name d)) (option_value (od_value d)) (start_line (od_span d)).

Definition visit_option_def (s : vst) (d : option_def) : vst := fold_left visit_option_decl (op_decls d) s.

(* ------------------------------------------------------------------ fields *)

(* The field-level functions read MetaDataMap, read and write the store, and may call
   AddSyntaxError: they return the store and the list of the diagnostics they add. *)

(* VisitMatchPair *)
Definition key_items (l : key_list) : list ptok := li_first l :: map snd (li_rest l).
Definition visit_match_pair (p : match_pair) : list vpair :=
  let val := p_text (mp_ident p) in
  match PT.mp_key p with
  | MKDigits t | MKString t => [mkVPair (p_text t) val (start_line (mp_span p))]
  | MKList l =>
      let mk (k : ptok) := mkVPair (p_text k) val (p_line k) in
      app (map mk (filter (fun k => Nat.eqb (p_type k) T_DIGITS) (key_items l)))
          (map mk (filter (fun k => Nat.eqb (p_type k) T_STRING) (key_items l)))
  end.

(* the duplicate check of VisitMatchFieldDeclaration; pairs_map: the keys seen so far *)
Fixpoint match_dup_loop (pairs : list vpair) (pairs_map : list string) : list diag :=
  match pairs with
  | [] => []
  | p :: r =>
      if mem (vp_key p) pairs_map
      then mkDiag (vp_line p) DK_DupMatchKey ("Duplicate match key: " ++ vp_key p) :: match_dup_loop r pairs_map
      else match_dup_loop r (vp_key p :: pairs_map)
  end.

(* VisitMatchFieldDeclaration: Line (and Doc) are not set *)
Definition visit_match_field (d : match_field_decl) : vfield * list diag :=
  let pairs := flat_map visit_match_pair (mf_pairs d) in
  (mkVField (p_text (mf_name d)) (VAMatch (FRNew (p_text (mf_key d))) pairs) VLNone false "" 0%N 0,
   match_dup_loop pairs []).

(* the type of a length / checksum field declaration: the written one; without a written type, the type of the
   MetaData entry of the field's NAME when that entry has an attribute, else the name *)
Definition decl_type (metas : list vmeta) (ty : option type_) (name : string) : string :=
  match ty with
  | Some t => type_text t
  | None =>
      match find_meta metas name with
      | Some m =>
          (* MetaDataMap[name].Attr.GetType() *)
          match vm_attr m with
          | VABasic t => BModel.get_basic_type t
          | VAFixed _ | VADyn => "string"
          | _ => name    (* nil: not consulted (MetaData attributes are basic, fixed, dynamic or nil) *)
          end
      | None => name
      end
  end.

Definition visit_length_field (metas : list vmeta) (d : length_field_decl) : vfield :=
  let name := p_text (lf_name d) in
  mkVField name (VALen (FRNew (p_text (lo_from (lf_length_of d)))) (decl_type metas (lf_type d) name)) VLNone false
           (opt_text (lf_doc d)) 0%N (start_line (lf_span d)).

Definition visit_checksum_field (metas : list vmeta) (d : checksum_field_decl) : vfield :=
  let name := p_text (ck_name d) in
  mkVField name (VACheck (p_text (cf_from (ck_calculated_from d))) (decl_type metas (ck_type d) name)) VLNone false
           (opt_text (ck_doc d)) 0%N (start_line (ck_span d)).

(* metaDataDeclarationToField *)
Definition meta_decl_field (d : meta_decl) (rep : bool) (store : list fcell) : vfield * list fcell :=
  let '(a, st) := meta_decl_attr d store in
  let doc := match md_doc d with Some t => strip_ends (p_text t) | None => "" end in
  (mkVField (p_text (md_name d)) a VLNone rep doc 0%N (start_line (md_span d)), st).

(* VisitInerObjectField, after the sub-fields are visited: a match field selects on a field of the same object
   (fls: the sub-fields with the lines of their definitions; names: the names of all of them) *)
Fixpoint inline_key_diags (fls : list (vfield * nat)) (names : list string) : list diag :=
  match fls with
  | [] => []
  | (f, line) :: r =>
      match vf_attr f with
      | VAMatch key _ =>
          match fref_name key with
          | Some k =>
              if mem k names then inline_key_diags r names
              else mkDiag line DK_UnknownMatchKey ("Unknown match key field " ++ k ++ " for field " ++ vf_name f)
                   :: inline_key_diags r names
          | None => inline_key_diags r names
          end
      | _ => inline_key_diags r names
      end
  end.

(* names[k] of VisitInerObjectField: the LAST sub-field of that name *)
Fixpoint last_index (subs : list vfield) (k : string) (i : nat) (acc : option nat) : option nat :=
  match subs with
  | [] => acc
  | f :: r => last_index r k (S i) (if String.eqb k (vf_name f) then Some i else acc)
  end.

(* a match field of an inline object is linked to its key field when there is one *)
Definition link_key (subs : list vfield) (f : vfield) : vfield :=
  match vf_attr f with
  | VAMatch key pairs =>
      match fref_name key with
      | Some k => match last_index subs k 0 None with
                  | Some j => set_attr f (VAMatch (FRIdx j k) pairs)
                  | None => f
                  end
      | None => f
      end
  | _ => f
  end.

Definition dup_field_diag (line : nat) (fname pname : string) : diag :=
  mkDiag line DK_DupField ("Duplicate field definition for " ++ fname ++ " in packet " ++ pname).

(* VisitFieldDefinition (with VisitInerObjectField) *)
Fixpoint visit_field_def (metas : list vmeta) (f : field_def) (store : list fcell) {struct f}
  : res (vfield * list fcell * list diag) :=
  match f with
  | ObjectField sp rep ft fn _ _ =>
      let typ := p_text ft in
      let name := match fn with Some t => p_text t | None => typ end in
      let a := match find_meta metas typ with
               | Some m => vm_attr m              (* the SAME attribute object as the MetaData entry *)
               | None => VAObj false typ None None
               end in
      ROk (mkVField name a VLNone (is_some rep) "" 0%N (start_line sp), store, [])
  | InerObjectField sp rep decl _ =>
      match decl with
      | InerObjectDecl _ nm _ fields _ =>
          let name := p_text nm in
          (* the first loop: visit, report a repeated name, record the name *)
          match (fix go (l : list field_def) (store : list fcell) (names : list string) {struct l}
                   : res (list vfield * list fcell * list diag) :=
                   match l with
                   | [] => ROk ([], store, [])
                   | x :: r =>
                       match visit_field_def metas x store with
                       | RPanic e => RPanic e
                       | ROk (v, st1, ds1) =>
                           let dup := if mem (vf_name v) names then [dup_field_diag (start_line (fd_span x)) (vf_name v) name] else [] in
                           match go r st1 (vf_name v :: names) with
                           | RPanic e => RPanic e
                           | ROk (vs, st2, ds2) => ROk (v :: vs, st2, app ds1 (app dup ds2))
                           end
                       end
                   end) fields store [] with
          | RPanic e => RPanic e
          | ROk (subs, st1, ds) =>
              let keys := inline_key_diags (combine subs (map (fun x => start_line (fd_span x)) fields)) (map vf_name subs) in
              let p := mkVPacket name false None (map (link_key subs) subs) [] [] (start_line sp) in
              ROk (mkVField name (VAObj true name (Some name) (Some p)) VLNone (is_some rep) "" 0%N (start_line sp), st1,
                   app ds keys)
          end
      end
  | LengthField _ d => ROk (visit_length_field metas d, store, [])
  | CheckSumField _ d => ROk (visit_checksum_field metas d, store, [])
  | MetaField _ rep d => let '(v, st) := meta_decl_field d (is_some rep) store in ROk (v, st, [])
  | MatchField _ d _ => let '(v, ds) := visit_match_field d in ROk (v, store, ds)
  end.

Definition set_cell_pad (store : list fcell) (c : nat) (p : BModel.padding) : list fcell :=
  match nth_error store c with
  | Some cell => upd_nth c (mkCell (fc_len cell) (Some p)) store
  | None => store
  end.

(* @lengthOf / @calculatedFrom take over the type of the field: refused on a field without attribute and on an
   object field that is not inline *)
Definition is_plain_object (a : vattr) : bool :=
  match a with VANil | VAObj false _ _ _ => true | _ => false end.

Definition attr_on_object_diag (line : nat) (attr_name fname : string) : diag :=
  mkDiag line DK_AttrOnObject ("Attribute " ++ attr_name ++ " is not allowed on object field " ++ fname).

(* one iteration of the attribute loop of VisitFieldDefinitionWithAttribute; line: first line of the declaration *)
Definition apply_attr (line : nat) (a : field_attribute) (f : vfield) (store : list fcell)
  : res (vfield * list fcell * list diag) :=
  match a with
  | FACalculatedFrom _ c =>
      if is_plain_object (vf_attr f) then ROk (f, store, [attr_on_object_diag line "@calculatedFrom" (vf_name f)])
      else match field_get_type (vf_attr f) with
           | None => RPanic site_gettype
           | Some t => ROk (set_attr f (VACheck (p_text (cf_from c)) t), store, [])
           end
  | FALengthOf _ l =>
      if is_plain_object (vf_attr f) then ROk (f, store, [attr_on_object_diag line "@lengthOf" (vf_name f)])
      else match field_get_type (vf_attr f) with
           | None => RPanic site_gettype
           | Some t => ROk (set_attr f (VALen (FRNew (p_text (lo_from l))) t), store, [])
           end
  | FAPadding _ p =>
      let pc := match pa_padding p with Some t => p_text t | None => "' '" end in
      let pc := if String.eqb pc "'\x00'" then nul_pad_char else pc in
      match vf_attr f with
      | VAFixed c =>
          (* writes the Padding member of the (possibly shared) object *)
          ROk (f, set_cell_pad store c (BModel.mkPad pc (containsb "left" (p_text (pa_attr p)))), [])
      | _ =>
          ROk (f, store, [mkDiag line DK_PadNotFixed
                            ("Padding attribute can only be declared on a fixed string field: " ++ vf_name f)])
      end
  | FATag _ t => ROk (set_tag f (atoi (p_text (ta_digits t))), store, [])
  end.

Fixpoint apply_attrs (line : nat) (l : list field_attribute) (f : vfield) (store : list fcell)
  : res (vfield * list fcell * list diag) :=
  match l with
  | [] => ROk (f, store, [])
  | a :: r =>
      match apply_attr line a f store with
      | RPanic e => RPanic e
      | ROk (f1, st1, ds1) =>
          match apply_attrs line r f1 st1 with
          | RPanic e => RPanic e
          | ROk (f2, st2, ds2) => ROk (f2, st2, app ds1 ds2)
          end
      end
  end.

(* VisitFieldDefinitionWithAttribute *)
Definition visit_field_with_attr (metas : list vmeta) (fw : field_with_attr) (store : list fcell)
  : res (vfield * list fcell * list diag) :=
  match visit_field_def metas (fw_def fw) store with
  | RPanic e => RPanic e
  | ROk (f, st1, ds) =>
      match apply_attrs (start_line (fw_span fw)) (fw_attrs fw) f st1 with
      | RPanic e => RPanic e
      | ROk (f1, st2, ds2) => ROk (f1, st2, app ds ds2)
      end
  end.

(* ------------------------------------------------------------------ packets *)

(* the locals of VisitPacketDefinition, the store and the diagnostics added so far;
   pa_lines: declared[f] of the Go code, the first line of the declaration of each kept field *)
Record pacc := mkPacc {
  pa_fields : list vfield;
  pa_lines : list nat;
  pa_fmap : list (string * nat);
  pa_lenf : option nat;
  pa_mfs : list (string * list vpair);
  pa_store : list fcell;
  pa_diags : list diag
}.

Definition is_len_attr (a : vattr) : bool := match a with VALen _ _ => true | _ => false end.

(* the body of the first loop, after the field has been visited (store, ds: what the visit left) *)
Definition loop1_add (pname : string) (is_root : bool) (line : nat) (f : vfield) (acc : pacc) (store : list fcell) (ds : list diag) : pacc :=
  let diags := app (pa_diags acc) ds in
  let keep (lenf : option nat) :=
    let i := length (pa_fields acc) in
    let dup := match alookup (pa_fmap acc) (vf_name f) with
               | Some _ => [dup_field_diag line (vf_name f) pname]
               | None => []
               end in
    let mfs := match vf_attr f with
               | VAMatch key pairs =>
                   match fref_name key with
                   | Some k => aset (pa_mfs acc) k pairs
                   | None => pa_mfs acc
                   end
               | _ => pa_mfs acc
               end in
    mkPacc (snoc (pa_fields acc) f) (snoc (pa_lines acc) line) (aset (pa_fmap acc) (vf_name f) i) lenf mfs store (app diags dup) in
  if is_len_attr (vf_attr f) then
    if negb is_root then
      mkPacc (pa_fields acc) (pa_lines acc) (pa_fmap acc) (pa_lenf acc) (pa_mfs acc) store
             (snoc diags (mkDiag line DK_LenNotRoot "LengthOfField can only be declared in the root packet"))
    else match pa_lenf acc with
         | Some _ =>
             mkPacc (pa_fields acc) (pa_lines acc) (pa_fmap acc) (pa_lenf acc) (pa_mfs acc) store
                    (snoc diags (mkDiag line DK_LenDup "Duplicate LengthOfField declaration"))
         | None => keep (Some (length (pa_fields acc)))
         end
  else keep (pa_lenf acc).

Fixpoint loop1 (metas : list vmeta) (pname : string) (is_root : bool) (l : list field_with_attr) (acc : pacc) : res pacc :=
  match l with
  | [] => ROk acc
  | fw :: r =>
      match visit_field_with_attr metas fw (pa_store acc) with
      | RPanic e => RPanic e
      | ROk (f, st, ds) => loop1 metas pname is_root r (loop1_add pname is_root (start_line (fw_span fw)) f acc st ds)
      end
  end.

(* the first half of an iteration of the second loop (the LenAttr assignments):
   if lengthField != nil && f.Name == [TragetField of lengthField.Attr asserted to be a LengthFieldAttribute].Name *)
Definition step_la (lenf : option nat) (i : nat) (fields : list vfield) (f : vfield) : res (list vfield) :=
  match lenf with
  | None => ROk fields
  | Some li =>
      match nth_error fields li with
      | None => ROk fields
      | Some lf =>
          match vf_attr lf with
          | VALen tgt lenty =>
              match fref_name tgt with
              | None => RPanic site_packetdef               (* nil TragetField *)
              | Some tn =>
                  if String.eqb (vf_name f) tn then
                    let fields1 := upd_nth li (set_la lf (VLLenOf (vf_name lf))) fields in
                    match nth_error fields1 i with
                    | Some f1 => ROk (upd_nth i (set_la f1 (VLLen (Some tn) lenty)) fields1)
                    | None => ROk fields1
                    end
                  else ROk fields
              end
          | _ => RPanic site_packetdef                      (* failed type assertion *)
          end
      end
  end.

(* the switch on the attribute of the field at hand: its new attribute and the diagnostics; line: declared[f] *)
Definition step_attr (pmap : list string) (fmap : list (string * nat)) (line : nat) (fname : string) (a : vattr)
  : res (vattr * list diag) :=
  match a with
  | VAObj false pn _ inlp => ROk (VAObj false pn (if mem pn pmap then Some pn else None) inlp, [])
  | VALen tgt lenty =>
      match fref_name tgt with
      | None => RPanic site_packetdef
      | Some tn =>
          (* an undeclared target is reported and the placeholder object stays *)
          let '(tgt', ds) := match alookup fmap tn with
                             | Some j => (FRIdx j tn, [])
                             | None => (tgt, [mkDiag line DK_UnknownLenTarget
                                                ("Unknown length target " ++ tn ++ " for field " ++ fname)])
                             end in
          match field_get_type a with
          | None => RPanic site_gettype
          | Some t => ROk (VALen tgt' t, ds)
          end
      end
  | VAMatch key pairs =>
      match fref_name key with
      | None => RPanic site_packetdef
      | Some kn =>
          match alookup fmap kn with
          | Some j => ROk (VAMatch (FRIdx j kn) pairs, [])
          | None => ROk (a, [mkDiag line DK_UnknownMatchKey ("Unknown match key field " ++ kn ++ " for field " ++ fname)])
          end
      end
  | _ => ROk (a, [])
  end.

(* one iteration of the second loop, on the i-th field *)
Definition loop2_step (pmap : list string) (fmap : list (string * nat)) (lenf : option nat) (lines : list nat)
           (i : nat) (fields : list vfield) : res (list vfield * list diag) :=
  match nth_error fields i with
  | None => ROk (fields, [])
  | Some f =>
      match step_la lenf i fields f with
      | RPanic e => RPanic e
      | ROk fields1 =>
          match nth_error fields1 i with
          | None => ROk (fields1, [])
          | Some f1 =>
              match step_attr pmap fmap (nth i lines 0) (vf_name f1) (vf_attr f1) with
              | RPanic e => RPanic e
              | ROk (a, ds) => ROk (upd_nth i (set_attr f1 a) fields1, ds)
              end
          end
      end
  end.

Fixpoint loop2 (pmap : list string) (fmap : list (string * nat)) (lenf : option nat) (lines : list nat)
         (idx : list nat) (fields : list vfield) : res (list vfield * list diag) :=
  match idx with
  | [] => ROk (fields, [])
  | i :: r =>
      match loop2_step pmap fmap lenf lines i fields with
      | RPanic e => RPanic e
      | ROk (fields1, ds1) =>
          match loop2 pmap fmap lenf lines r fields1 with
          | RPanic e => RPanic e
          | ROk (fields2, ds2) => ROk (fields2, app ds1 ds2)
          end
      end
  end.

(* VisitPacketDefinition; pmap: the keys of PacketsMap at this moment.
   Returns the packet, the store and the diagnostics it added. *)
Definition visit_packet_def (metas : list vmeta) (pmap : list string) (d : packet_def) (store : list fcell)
  : res (vpacket * list fcell * list diag) :=
  let is_root := is_some (pd_root d) in
  match loop1 metas (p_text (pd_name d)) is_root (pd_fields d) (mkPacc [] [] [] None [] store []) with
  | RPanic e => RPanic e
  | ROk acc =>
      match loop2 pmap (pa_fmap acc) (pa_lenf acc) (pa_lines acc) (seq 0 (length (pa_fields acc))) (pa_fields acc) with
      | RPanic e => RPanic e
      | ROk (fields, ds2) =>
          ROk (mkVPacket (p_text (pd_name d)) is_root (pa_lenf acc) fields (pa_fmap acc) (pa_mfs acc)
                         (start_line (pd_span d)), pa_store acc, app (pa_diags acc) ds2)
      end
  end.

Definition packet_names (ps : list vpacket) : list string := map vk_name ps.

(* BinaryModel.AddPacket *)
Definition add_packet (s : vst) (p : vpacket) : vst :=
  if mem (vk_name p) (packet_names (s_packets s)) then
    add_diag s (mkDiag (vk_line p) DK_DupPacket ("Duplicate packet definition for " ++ vk_name p))
  else
    let s1 := mkSt (s_store s) (s_metas s) (s_options s) (snoc (s_packets s) p) (s_root s) (s_diags s) in
    if vk_root p then
      match s_root s1 with
      | Some _ => add_diag s1 (mkDiag (vk_line p) DK_MultiRoot "Multiple root packets are not allowed")
      | None => mkSt (s_store s1) (s_metas s1) (s_options s1) (s_packets s1) (Some (vk_name p)) (s_diags s1)
      end
    else s1.

Fixpoint visit_packets (l : list packet_def) (s : vst) : res vst :=
  match l with
  | [] => ROk s
  | d :: r =>
      match visit_packet_def (s_metas s) (packet_names (s_packets s)) d (s_store s) with
      | RPanic e => RPanic e
      | ROk (p, st, ds) =>
          visit_packets r (add_packet (mkSt st (s_metas s) (s_options s) (s_packets s) (s_root s) (app (s_diags s) ds)) p)
      end
  end.

(* ------------------------------------------------------------------ ResolveDependencies *)

(* the packets the pairs of a match field select *)
Definition pair_diags (pmap : list string) (fname : string) (pairs : list vpair) : list diag :=
  flat_map (fun p => if mem (vp_value p) pmap then []
                     else [mkDiag (vp_line p) DK_UnknownPacket ("Unknown packet type " ++ vp_value p ++ " for field " ++ fname)])
           pairs.

(* resolveFields, one field: the field as it is afterwards and the diagnostics it adds *)
Fixpoint resolve_field (pmap : list string) (f : vfield) {struct f} : vfield * list diag :=
  match f with
  | mkVField n a la rep doc tag ln =>
      match a with
      | VAObj iner pn None inlp =>
          if mem pn pmap then (mkVField n (VAObj iner pn (Some pn) inlp) la rep doc tag ln, [])
          else (f, [mkDiag ln DK_UnknownPacket ("Unknown packet type " ++ pn ++ " for field " ++ n)])
      | VAObj true pn (Some r) (Some (mkVPacket pn2 ro lf fs fm mf pl)) =>
          (* an inline object: its fields are resolved in turn *)
          let '(fs', ds) := (fix go (l : list vfield) : list vfield * list diag :=
                               match l with
                               | [] => ([], [])
                               | x :: rest =>
                                   let '(x', d1) := resolve_field pmap x in
                                   let '(rest', d2) := go rest in
                                   (x' :: rest', app d1 d2)
                               end) fs in
          (mkVField n (VAObj true pn (Some r) (Some (mkVPacket pn2 ro lf fs' fm mf pl))) la rep doc tag ln, ds)
      | VAMatch key pairs => (f, pair_diags pmap n pairs)
      | _ => (f, [])
      end
  end.

Fixpoint resolve_fields (pmap : list string) (fs : list vfield) : list vfield * list diag :=
  match fs with
  | [] => ([], [])
  | f :: r =>
      let '(f1, d1) := resolve_field pmap f in
      let '(r1, d2) := resolve_fields pmap r in
      (f1 :: r1, app d1 d2)
  end.

Fixpoint resolve_packets (pmap : list string) (ps : list vpacket) : list vpacket * list diag :=
  match ps with
  | [] => ([], [])
  | p :: r =>
      let '(fs1, d1) := resolve_fields pmap (vk_fields p) in
      let '(r1, d2) := resolve_packets pmap r in
      (set_fields p fs1 :: r1, app d1 d2)
  end.

(* ------------------------------------------------------------------ NewConfiguration *)

Definition new_configuration (o : list (string * string)) : BModel.config :=
  let get k d := match alookup o k with Some v => v | None => d end in
  let from_left := match alookup o "FixedStringPadFromLeft" with
                   | Some v => String.eqb (BModel.to_lower v) "true" | None => false end in
  let pad_char := get "FixedStringPadChar" " " in
  BModel.mkCfg (get "ArrayPrefixLenType" "u16") (get "StringPrefixLenType" "u16")
               (get "JavaPackage" "") (get "GoPackage" "") (get "GoModule" "")
               (match alookup o "LittleEndian" with Some v => String.eqb (BModel.to_lower v) "true" | None => false end)
               (Some (if from_left || negb (String.eqb pad_char " ")
                      then BModel.mkPad pad_char from_left
                      else BModel.mkPad "' '" false)).

(* ------------------------------------------------------------------ VisitPacket *)

Record result := mkResult {
  r_store : list fcell;
  r_metas : list vmeta;
  r_options : list (string * string);
  r_config : BModel.config;
  r_packets : list vpacket;
  r_root : option string;
  r_diags : list diag
}.

Inductive outcome := VOk (r : result) | VPanic (site : string).

Definition metas_of (t : pt) : list meta_def :=
  flat_map (fun d => match d with DMeta m => [m] | _ => [] end) (pk_defs t).
Definition options_of (t : pt) : list option_def :=
  flat_map (fun d => match d with DOption o => [o] | _ => [] end) (pk_defs t).
Definition packets_of (t : pt) : list packet_def :=
  flat_map (fun d => match d with DPacket p => [p] | _ => [] end) (pk_defs t).

Definition phase_metas (t : pt) (s : vst) : vst := fold_left visit_meta_def (metas_of t) s.
Definition phase_options (t : pt) (s : vst) : vst := fold_left visit_option_def (options_of t) s.

Definition finish (s : vst) : result :=
  let '(ps, ds) := resolve_packets (packet_names (s_packets s)) (s_packets s) in
  mkResult (s_store s) (s_metas s) (s_options s) (new_configuration (s_options s)) ps (s_root s) (app (s_diags s) ds).

Definition visit (t : pt) : outcome :=
  match visit_packets (packets_of t) (phase_options t (phase_metas t st0)) with
  | RPanic e => VPanic e
  | ROk s => VOk (finish s)
  end.

(* ------------------------------------------------------------------ the generators' view *)

Definition cell_attr (store : list fcell) (c : nat) : BModel.attr :=
  match nth_error store c with
  | Some cell => BModel.AFixed (N.to_nat (fc_len cell)) (fc_pad cell)
  | None => BModel.ANil
  end.

Definition b_pairs (l : list vpair) : list BModel.mpair := map (fun p => BModel.mkPair (vp_key p) (vp_value p)) l.

(* an attribute without what hangs below it (core.g_attr_shallow) *)
Definition attr_shallow (store : list fcell) (a : vattr) : BModel.attr :=
  match a with
  | VABasic t => BModel.ABasic t
  | VAFixed c => cell_attr store c
  | VADyn => BModel.ADyn
  | VALen tgt t => BModel.ALen (fref_name tgt) t
  | VACheck alg t => BModel.ACheck alg t
  | VAObj iner pn ref _ => BModel.AObj iner pn ref None
  | VAMatch key pairs => BModel.AMatch (fref_name key) None (b_pairs pairs)
  | VANil => BModel.ANil
  end.

Definition b_len (l : vlen) : BModel.lenattr :=
  match l with VLNone => BModel.LNone | VLLen _ _ => BModel.LTarget | VLLenOf _ => BModel.LLenOf end.

(* sort.Strings order on the keys *)
Fixpoint insert_key {A} (k : string) (v : A) (l : list (string * A)) : list (string * A) :=
  match l with
  | [] => [(k, v)]
  | (k', v') :: r => if String.leb k k' then (k, v) :: l else (k', v') :: insert_key k v r
  end.
Definition sort_keys {A} (l : list (string * A)) : list (string * A) :=
  fold_right (fun kv acc => insert_key (fst kv) (snd kv) acc) [] l.

(* ctx: the (final) fields of the enclosing top-level packet, which FRIdx refers to *)
Fixpoint attr_to_b (store : list fcell) (ctx : list vfield) (a : vattr) {struct a} : BModel.attr :=
  match a with
  | VAObj iner pn ref (Some p) => BModel.AObj iner pn ref (Some (packet_to_b store p))
  | VAMatch key pairs =>
      let ka := match key with
                | FRIdx i _ => match nth_error ctx i with
                               | Some kf => match attr_shallow store (vf_attr kf) with
                                            | BModel.ANil => None
                                            | b => Some b
                                            end
                               | None => None
                               end
                | _ => None
                end in
      BModel.AMatch (fref_name key) ka (b_pairs pairs)
  | _ => attr_shallow store a
  end
with packet_to_b (store : list fcell) (p : vpacket) {struct p} : BModel.packet :=
  match p with
  | mkVPacket name is_root lenf fields _ mfs _ =>
      BModel.mkPacket name is_root
        (match lenf with Some i => option_map vf_name (nth_error fields i) | None => None end)
        ((fix go (l : list vfield) : list BModel.field :=
            match l with
            | [] => []
            | f :: r =>
                (match f with
                 | mkVField n a la rep _ _ _ => BModel.mkField n (attr_to_b store fields a) (b_len la) rep
                 end) :: go r
            end) fields)
        (map (fun kv => (fst kv, b_pairs (snd kv))) (sort_keys mfs))
  end.

Definition to_bmodel_names (names : list (string * (string * string * string))) (r : result) : BModel.bmodel :=
  BModel.mkModel (r_config r) (map (packet_to_b (r_store r)) (r_packets r))
                 (map fst (sort_keys (map (fun p => (vk_name p, tt)) (r_packets r))))
                 (r_root r) names.

Definition to_bmodel (r : result) : BModel.bmodel := to_bmodel_names [] r.
