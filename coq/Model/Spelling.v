(* C08 on the visitor level: the meaning-preserving respellings of the property as FUNCTIONS
   on parse trees, and the executable comparison [same_meaning] of two visitor results up to
   what spelling may change (raw type keywords, lines, docs).  MODEL ONLY: no proofs here.

   The positions (line, column, index) of the tokens of a rewritten tree are stale: a
   rewritten tree stands for the text [render] prints (its token texts separated by blanks);
   the harness gives that text to the real compiler, and checks that the real parser's tree
   of it has the same tokens.

     rw_alias_short      uint16 -> u16 ... , char[] -> string        (every type, option values too)
     rw_alias_long       u16 -> uint16 ... , string -> char[]        (field and MetaData types only)
     rw_alias_long_opts  the same inside option values               (KNOWN to be rejected)
     rw_zchar            zchar[n] f  ->  @rightPad('\x00') char[n] f (top-level fields)
     rw_drop_default_pad @rightPad(' ') char[n] f  ->  char[n] f     (when no padding option is set)
     rw_add_default_pad  char[n] f  ->  @rightPad(' ') char[n] f     (when no padding option is set)
     rw_prefix_attr      T f @lengthOf(x)  ->  @lengthOf(x) T f      (also @calculatedFrom; typed declarations)
     rw_default_options  + options { <every documented option that is not set> = <its default> }
     rw_expand_keys      [k1, k2] : V  ->  k1 : V, k2 : V
     rw_inline_meta      a field whose type is a MetaData entry  ->  the entry's type written out
     rw_seps_all / rw_seps_none   optional ';' after options and ',' after match pairs
     rw_drop_docs        no doc strings
   (whitespace and comments do not reach the tree: the harness re-lays the text out) *)
From Coq Require Import String Ascii NArith Bool Arith List.
From FP Require BModel.
From FP Require Import PT Flatten Visitor VisitorShow.
Import ListNotations.
Open Scope string_scope.

Definition retok (t : ptok) (ty : nat) (txt : string) : ptok := mkPtok ty txt (p_line t) (p_col t) (p_idx t).

(* ------------------------------------------------------------------ traversals *)

Fixpoint map_fd (g : field_def -> field_def) (f : field_def) {struct f} : field_def :=
  match f with
  | InerObjectField sp rep (InerObjectDecl sp2 n o fields c) comma =>
      g (InerObjectField sp rep (InerObjectDecl sp2 n o (map (map_fd g) fields) c) comma)
  | _ => g f
  end.

Definition map_packet_fws (h : field_with_attr -> field_with_attr) (p : packet_def) : packet_def :=
  mkPacketDef (pd_span p) (pd_root p) (pd_packet p) (pd_name p) (pd_open p) (map h (pd_fields p)) (pd_close p).

Definition map_defs (g : definition -> definition) (t : pt) : pt :=
  PT.mkPacket (pk_start t) (pk_stop t) (map g (pk_defs t)).

(* every top-level field *)
Definition on_fws (h : field_with_attr -> field_with_attr) (t : pt) : pt :=
  map_defs (fun d => match d with DPacket p => DPacket (map_packet_fws h p) | _ => d end) t.

(* every field definition, at any depth (children first) *)
Definition on_fields (g : field_def -> field_def) (t : pt) : pt :=
  on_fws (fun fw => mkFieldWithAttr (fw_span fw) (fw_attrs fw) (map_fd g (fw_def fw))) t.

Definition map_meta_items (g : meta_item -> meta_item) (t : pt) : pt :=
  map_defs (fun d => match d with
                     | DMeta m => DMeta (mkMetaDef (me_span m) (me_kw m) (me_name m) (me_open m) (map g (me_items m)) (me_close m))
                     | _ => d
                     end) t.

Definition map_option_decls (g : option_decl -> option_decl) (t : pt) : pt :=
  map_defs (fun d => match d with
                     | DOption o => DOption (mkOptionDef (op_span o) (op_kw o) (op_open o) (map g (op_decls o)) (op_close o))
                     | _ => d
                     end) t.

Definition md_with_type (d : meta_decl) (ty : type_) : meta_decl :=
  mkMetaDecl (md_span d) ty (md_name d) (md_doc d) (md_comma d).

(* the types of fields and MetaData entries *)
Definition on_decl_types (g : type_ -> type_) (t : pt) : pt :=
  let fd f :=
    match f with
    | MetaField sp rep d => MetaField sp rep (md_with_type d (g (md_type d)))
    | LengthField sp d =>
        LengthField sp (mkLengthFieldDecl (lf_span d) (option_map g (lf_type d)) (lf_name d) (lf_length_of d) (lf_doc d) (lf_comma d))
    | CheckSumField sp d =>
        CheckSumField sp (mkChecksumFieldDecl (ck_span d) (option_map g (ck_type d)) (ck_name d) (ck_calculated_from d) (ck_doc d) (ck_comma d))
    | _ => f
    end in
  map_meta_items (fun i => match i with MIDecl d => MIDecl (md_with_type d (g (md_type d))) | _ => i end) (on_fields fd t).

Definition on_option_types (g : type_ -> type_) (t : pt) : pt :=
  map_option_decls (fun d => match od_value d with
                             | VType sp ty => mkOptionDecl (od_span d) (od_name d) (od_eq d) (VType sp (g ty)) (od_semi d)
                             | _ => d
                             end) t.

(* ------------------------------------------------------------------ type aliases *)

Definition short_of (s : string) : string :=
  if String.eqb s "uint8" then "u8" else if String.eqb s "uint16" then "u16" else if String.eqb s "uint32" then "u32"
  else if String.eqb s "uint64" then "u64" else if String.eqb s "int8" then "i8" else if String.eqb s "int16" then "i16"
  else if String.eqb s "int32" then "i32" else if String.eqb s "int64" then "i64" else if String.eqb s "float32" then "f32"
  else if String.eqb s "float64" then "f64" else s.

Definition long_of (s : string) : string :=
  if String.eqb s "u8" then "uint8" else if String.eqb s "u16" then "uint16" else if String.eqb s "u32" then "uint32"
  else if String.eqb s "u64" then "uint64" else if String.eqb s "i8" then "int8" else if String.eqb s "i16" then "int16"
  else if String.eqb s "i32" then "int32" else if String.eqb s "i64" then "int64" else if String.eqb s "f32" then "float32"
  else if String.eqb s "f64" then "float64" else s.

Definition respell_type (basic : string -> string) (dyn_string : bool) (ty : type_) : type_ :=
  match ty with
  | TyBasic sp b => TyBasic sp (mkBasicType (bt_span b) (retok (bt_tok b) (p_type (bt_tok b)) (basic (p_text (bt_tok b)))))
  | TyDynamic sp d =>
      TyDynamic sp (mkDynamicString (ds_span d)
        (if dyn_string then retok (ds_tok d) T_STRINGKW "string" else retok (ds_tok d) T_CHARARR "char[]"))
  | TyFixed _ _ => ty
  end.

Definition rw_alias_short (t : pt) : pt :=
  on_option_types (respell_type short_of true) (on_decl_types (respell_type short_of true) t).
Definition rw_alias_long (t : pt) : pt := on_decl_types (respell_type long_of false) t.
Definition rw_alias_long_opts (t : pt) : pt := on_option_types (respell_type long_of false) t.

(* ------------------------------------------------------------------ padding *)

Definition mk_pad_attr (at_ : ptok) (attr : string) (ch : option string) : field_attribute :=
  let a := retok at_ T_PADDING_ATTR attr in
  let pa := mkPaddingAttr (mkSpan a a) a (retok at_ T_LPAREN "(")
              (option_map (fun c => retok at_ T_PADDING_CHAR c) ch) (retok at_ T_RPAREN ")") in
  FAPadding (mkSpan a a) pa.

Definition first_tok_fd (f : field_def) : ptok := sp_start (fd_span f).

(* zchar[n] f  ->  @rightPad('\x00') char[n] f ; the new attribute comes first: zchar sets its
   padding when the field is created, before any written attribute is applied *)
Definition rw_zchar (t : pt) : pt :=
  on_fws (fun fw =>
    match fw_def fw with
    | MetaField sp rep d =>
        match md_type d with
        | TyFixed tsp f =>
            if Nat.eqb (p_type (fs_open f)) T_ZCHARLB then
              let f' := mkFixedString (fs_span f) (retok (fs_open f) T_CHARLB "char[") (fs_digits f) (fs_close f) in
              mkFieldWithAttr (fw_span fw)
                (mk_pad_attr (fs_open f) "@rightPad" (Some "'\x00'") :: fw_attrs fw)
                (MetaField sp rep (md_with_type d (TyFixed tsp f')))
            else fw
        | _ => fw
        end
    | _ => fw
    end) t.

Definition padding_option_set (t : pt) : bool :=
  existsb (fun d => match d with
                    | DOption o => existsb (fun x => String.eqb (p_text (od_name x)) "FixedStringPadChar" ||
                                                     String.eqb (p_text (od_name x)) "FixedStringPadFromLeft") (op_decls o)
                    | _ => false
                    end) (pk_defs t).

Definition is_pad (a : field_attribute) : bool := match a with FAPadding _ _ => true | _ => false end.

Definition is_default_pad (a : field_attribute) : bool :=
  match a with
  | FAPadding _ p =>
      String.eqb (p_text (pa_attr p)) "@rightPad" &&
      match pa_padding p with None => true | Some c => String.eqb (p_text c) "' '" end
  | _ => false
  end.

Definition is_char_field (f : field_def) : bool :=
  match f with
  | MetaField _ _ d => match md_type d with TyFixed _ fx => Nat.eqb (p_type (fs_open fx)) T_CHARLB | _ => false end
  | _ => false
  end.

Definition last_pad (l : list field_attribute) : option field_attribute := last (map Some (filter is_pad l)) None.

(* the padding attributes of a char[n] field go when the one that takes effect is the default *)
Definition rw_drop_default_pad (t : pt) : pt :=
  if padding_option_set t then t else
  on_fws (fun fw =>
    if is_char_field (fw_def fw) then
      match last_pad (fw_attrs fw) with
      | Some a => if is_default_pad a
                  then mkFieldWithAttr (fw_span fw) (filter (fun x => negb (is_pad x)) (fw_attrs fw)) (fw_def fw)
                  else fw
      | None => fw
      end
    else fw) t.

Definition rw_add_default_pad (t : pt) : pt :=
  if padding_option_set t then t else
  on_fws (fun fw =>
    if is_char_field (fw_def fw) && negb (existsb is_pad (fw_attrs fw))
    then mkFieldWithAttr (fw_span fw) (mk_pad_attr (first_tok_fd (fw_def fw)) "@rightPad" (Some "' '") :: fw_attrs fw) (fw_def fw)
    else fw) t.

(* ------------------------------------------------------------------ attribute placement *)

(* the inline attribute is applied when the field is created, i.e. before the written ones:
   it becomes the FIRST prefixed attribute *)
Definition rw_prefix_attr (t : pt) : pt :=
  on_fws (fun fw =>
    match fw_def fw with
    | LengthField sp d =>
        match lf_type d with
        | Some ty =>
            mkFieldWithAttr (fw_span fw)
              (FALengthOf (lo_span (lf_length_of d)) (lf_length_of d) :: fw_attrs fw)
              (MetaField sp None (mkMetaDecl (lf_span d) ty (lf_name d) (lf_doc d) (lf_comma d)))
        | None => fw
        end
    | CheckSumField sp d =>
        match ck_type d with
        | Some ty =>
            mkFieldWithAttr (fw_span fw)
              (FACalculatedFrom (cf_span (ck_calculated_from d)) (ck_calculated_from d) :: fw_attrs fw)
              (MetaField sp None (mkMetaDecl (ck_span d) ty (ck_name d) (ck_doc d) (ck_comma d)))
        | None => fw
        end
    | _ => fw
    end) t.

(* ------------------------------------------------------------------ default options *)

Inductive defval := DVType (short : string) (ty : nat) | DVFalse | DVString | DVPad.

Definition option_defaults : list (string * defval) :=
  [ ("StringPrefixLenType", DVType "u16" T_UINT16); ("ArrayPrefixLenType", DVType "u16" T_UINT16);
    ("LittleEndian", DVFalse); ("JavaPackage", DVString); ("GoPackage", DVString); ("GoModule", DVString);
    ("FixedStringPadFromLeft", DVFalse); ("FixedStringPadChar", DVPad) ].

Definition declared_options (t : pt) : list string :=
  flat_map (fun d => match d with DOption o => map (fun x => p_text (od_name x)) (op_decls o) | _ => [] end) (pk_defs t).

Definition mk_default_decl (at_ : ptok) (nv : string * defval) : option_decl :=
  let n := retok at_ T_IDENTIFIER (fst nv) in
  let v := match snd nv with
           | DVType s ty =>
               let k := retok at_ ty s in
               VType (mkSpan k k) (TyBasic (mkSpan k k) (mkBasicType (mkSpan k k) k))
           | DVFalse => let k := retok at_ T_FALSE "false" in VFalse (mkSpan k k) k
           | DVString => let k := retok at_ T_STRING (String dquote (String dquote EmptyString)) in VString (mkSpan k k) k
           | DVPad => let k := retok at_ T_PADDING_CHAR "' '" in VPaddingChar (mkSpan k k) k
           end in
  mkOptionDecl (mkSpan n n) n (retok at_ T_EQ "=") v (Some (retok at_ T_SEMICOLON ";")).

Definition rw_default_options (t : pt) : pt :=
  let have := declared_options t in
  let missing := filter (fun nv => negb (mem (fst nv) have)) option_defaults in
  match missing with
  | [] => t
  | _ =>
      let at_ := pk_start t in
      let kw := retok at_ T_OPTIONS "options" in
      let cl := retok at_ T_RBRACE "}" in
      let o := mkOptionDef (mkSpan kw cl) kw (retok at_ T_LBRACE "{") (map (mk_default_decl at_) missing) cl in
      PT.mkPacket (pk_start t) (Some cl) (app (pk_defs t) [DOption o])
  end.

(* ------------------------------------------------------------------ key lists *)

Definition expand_pair (p : match_pair) : list match_pair :=
  match PT.mp_key p with
  | MKList l =>
      map (fun k => mkMatchPair (mkSpan k (mp_ident p))
                      (if Nat.eqb (p_type k) T_DIGITS then MKDigits k else MKString k)
                      (mp_colon p) (mp_ident p) (Some (retok (mp_colon p) T_COMMA ",")))
          (li_first l :: map snd (li_rest l))
  | _ => [p]
  end.

Definition on_match_decls (g : match_field_decl -> match_field_decl) (t : pt) : pt :=
  on_fields (fun f => match f with MatchField sp d c => MatchField sp (g d) c | _ => f end) t.

Definition mf_with_pairs (d : match_field_decl) (ps : list match_pair) : match_field_decl :=
  mkMatchFieldDecl (mf_span d) (mf_match d) (mf_key d) (mf_as d) (mf_name d) (mf_open d) ps (mf_close d).

Definition rw_expand_keys (t : pt) : pt :=
  on_match_decls (fun d => mf_with_pairs d (flat_map expand_pair (mf_pairs d))) t.

(* ------------------------------------------------------------------ MetaData-typed fields *)

(* name |-> the type the entry stands for; None: an entry without type (ref to nothing) *)
Fixpoint meta_table (items : list meta_item) (acc : list (string * option type_)) : list (string * option type_) :=
  match items with
  | [] => acc
  | MIDecl d :: r =>
      let n := p_text (md_name d) in
      meta_table r (match alookup acc n with Some _ => acc | None => app acc [(n, Some (md_type d))] end)
  | MIRef d :: r =>
      let n := p_text (rm_name d) in
      meta_table r (match alookup acc n with
                    | Some _ => acc
                    | None => app acc [(n, match alookup acc (p_text (rm_typ d)) with Some ty => ty | None => None end)]
                    end)
  end.

Definition all_meta_items (t : pt) : list meta_item :=
  flat_map (fun d => match d with DMeta m => me_items m | _ => [] end) (pk_defs t).

Definition rw_inline_meta (t : pt) : pt :=
  let tab := meta_table (all_meta_items t) [] in
  on_fields (fun f =>
    match f with
    | ObjectField sp rep ft fn doc comma =>
        match alookup tab (p_text ft) with
        | Some (Some ty) =>
            MetaField sp rep (mkMetaDecl (mkSpan ft comma) ty (match fn with Some n => n | None => ft end) doc comma)
        | _ => f
        end
    | _ => f
    end) t.

(* ------------------------------------------------------------------ optional separators, docs *)

Definition set_seps (on : bool) (t : pt) : pt :=
  let t1 := map_option_decls (fun d => mkOptionDecl (od_span d) (od_name d) (od_eq d) (od_value d)
                                         (if on then Some (retok (od_eq d) T_SEMICOLON ";") else None)) t in
  on_match_decls (fun d => mf_with_pairs d
     (map (fun p => mkMatchPair (mp_span p) (PT.mp_key p) (mp_colon p) (mp_ident p)
                      (if on then Some (retok (mp_colon p) T_COMMA ",") else None)) (mf_pairs d))) t1.

Definition rw_seps_all : pt -> pt := set_seps true.
Definition rw_seps_none : pt -> pt := set_seps false.

Definition rw_drop_docs (t : pt) : pt :=
  let fd f :=
    match f with
    | MetaField sp rep d => MetaField sp rep (mkMetaDecl (md_span d) (md_type d) (md_name d) None (md_comma d))
    | ObjectField sp rep ft fn _ comma => ObjectField sp rep ft fn None comma
    | LengthField sp d =>
        LengthField sp (mkLengthFieldDecl (lf_span d) (lf_type d) (lf_name d) (lf_length_of d) None (lf_comma d))
    | CheckSumField sp d =>
        CheckSumField sp (mkChecksumFieldDecl (ck_span d) (ck_type d) (ck_name d) (ck_calculated_from d) None (ck_comma d))
    | _ => f
    end in
  map_meta_items (fun i => match i with
                           | MIDecl d => MIDecl (mkMetaDecl (md_span d) (md_type d) (md_name d) None (md_comma d))
                           | MIRef d => MIRef (mkRefMetaDecl (rm_span d) (rm_typ d) (rm_name d) None (rm_comma d))
                           end) (on_fields fd t).

(* ------------------------------------------------------------------ the rewrites by name *)

Definition rewrites : list (string * (pt -> pt)) :=
  [ ("alias_short", rw_alias_short); ("alias_long", rw_alias_long); ("alias_long_opts", rw_alias_long_opts);
    ("zchar", rw_zchar); ("drop_default_pad", rw_drop_default_pad); ("add_default_pad", rw_add_default_pad);
    ("prefix_attr", rw_prefix_attr); ("default_options", rw_default_options); ("expand_keys", rw_expand_keys);
    ("inline_meta", rw_inline_meta); ("seps_all", rw_seps_all); ("seps_none", rw_seps_none); ("drop_docs", rw_drop_docs) ].

(* the text a tree stands for: its token texts separated by blanks *)
Definition render (t : pt) : string := join " " (flatten t).

Definition same_tokens (a b : pt) : bool := list_eqb String.eqb (flatten a) (flatten b).

(* ------------------------------------------------------------------ same meaning *)

Definition norm_ty (t : string) : string := field_type_norm (BModel.get_basic_type t).

(* the view of the generators, without the spelling: normalised type names, and the padding
   that takes effect (the configured one where the field has none) *)
Fixpoint norm_attr (cfg_pad : option BModel.padding) (a : BModel.attr) {struct a} : BModel.attr :=
  match a with
  | BModel.ABasic t => BModel.ABasic (norm_ty t)
  | BModel.AFixed n p => BModel.AFixed n (match p with Some _ => p | None => cfg_pad end)
  | BModel.ALen tg t => BModel.ALen tg (norm_ty t)
  | BModel.ACheck alg t => BModel.ACheck alg (norm_ty t)
  | BModel.AObj i pn r (Some p) => BModel.AObj i pn r (Some (norm_packet cfg_pad p))
  | BModel.AMatch k (Some ka) ps => BModel.AMatch k (Some (norm_attr cfg_pad ka)) ps
  | _ => a
  end
with norm_packet (cfg_pad : option BModel.padding) (p : BModel.packet) {struct p} : BModel.packet :=
  match p with
  | BModel.mkPacket n r l fs ms =>
      BModel.mkPacket n r l
        ((fix go (x : list BModel.field) : list BModel.field :=
            match x with
            | [] => []
            | BModel.mkField fn fa fl fr :: x' => BModel.mkField fn (norm_attr cfg_pad fa) fl fr :: go x'
            end) fs) ms
  end.

Definition norm_bmodel (m : BModel.bmodel) : BModel.bmodel :=
  BModel.mkModel (BModel.m_cfg m) (map (norm_packet (BModel.c_pad (BModel.m_cfg m))) (BModel.m_packets m))
                 (BModel.m_map_keys m) (BModel.m_root m) (BModel.m_names m).

Definition same_meaning (a b : result) : bool :=
  match r_diags a, r_diags b with
  | [], [] => bmodel_eqb (norm_bmodel (to_bmodel a)) (norm_bmodel (to_bmodel b))
  | _, _ => false
  end.

Definition same_meaning_o (a b : outcome) : bool :=
  match a, b with
  | VOk x, VOk y => same_meaning x y
  | _, _ => false
  end.
