(* The BinaryModel as the generators see it (internal/model/model.go), as a pure tree.
   Pointer sharing between Padding / FixedStringFieldAttribute cells is *not* represented
   here: since the "fix:" commit that makes every GetPadding work on a copy, no generator
   writes through a model pointer (the check re-establishes that on every run, both
   statically - mutation-site table - and dynamically - model dump before/after each
   generator), so generators are functions of this tree.  The visitor model
   (Model/Visitor.v) has its own store for the sharing it creates.                      *)
From Coq Require Export String Ascii NArith Bool Arith List.
Export ListNotations.
Open Scope string_scope.

Record padding := mkPad { pad_char : string; pad_left : bool }.

Record mpair := mkPair { mp_key : string; mp_value : string }.

(* Field.LenAttr *)
Inductive lenattr := LNone | LTarget (* this field is the length-of target *) | LLenOf (* this is the length field *).

Inductive attr :=
| ABasic (ty : string)                                  (* raw spelling, e.g. "uint16" *)
| AFixed (len : nat) (pad : option padding)
| ADyn
| ALen (target : option string) (lenty : string)        (* LengthFieldAttribute *)
| ACheck (alg : string) (ty : string)                   (* CheckSumFieldAttribute; alg keeps its quotes *)
| AObj (iner : bool) (pname : string) (ref : option string) (inl : option packet)
| AMatch (key : option string) (key_attr : option attr) (pairs : list mpair)
| ANil
with field :=
| mkField (name : string) (a : attr) (la : lenattr) (rep : bool)
with packet :=
| mkPacket (name : string) (is_root : bool) (len_field : option string)
           (fields : list field) (match_fields : list (string * list mpair)).

Definition f_name (f : field) := let 'mkField n _ _ _ := f in n.
Definition f_attr (f : field) := let 'mkField _ a _ _ := f in a.
Definition f_len (f : field) := let 'mkField _ _ l _ := f in l.
Definition f_rep (f : field) := let 'mkField _ _ _ r := f in r.
Definition p_name (p : packet) := let 'mkPacket n _ _ _ _ := p in n.
Definition p_root (p : packet) := let 'mkPacket _ r _ _ _ := p in r.
Definition p_lenf (p : packet) := let 'mkPacket _ _ l _ _ := p in l.
Definition p_fields (p : packet) := let 'mkPacket _ _ _ f _ := p in f.
Definition p_mfs (p : packet) := let 'mkPacket _ _ _ _ m := p in m.

Record config := mkCfg {
  c_list : string;            (* ListLenPrefixLenType *)
  c_str : string;             (* StringLenPrefixLenType *)
  c_java_package : string;
  c_go_package : string;
  c_go_module : string;
  c_le : bool;
  c_pad : option padding      (* Configuration.Padding (never nil after NewConfiguration) *)
}.

Record bmodel := mkModel {
  m_cfg : config;
  m_packets : list packet;          (* Packets, declaration order *)
  m_map_keys : list string;         (* sorted keys of PacketsMap *)
  m_root : option string;
  (* iancoleman/strcase applied to every identifier of the model, computed by the real library
     on every run (T1 table): identifier |-> (ToCamel, ToLowerCamel, ToSnake) *)
  m_names : list (string * (string * string * string))
}.

Fixpoint assoc {A} (l : list (string * A)) (k : string) : option A :=
  match l with
  | [] => None
  | (k', v) :: r => if String.eqb k k' then Some v else assoc r k
  end.

Definition camel (M : bmodel) (s : string) : string :=
  match assoc (m_names M) s with Some (c, _, _) => c | None => s end.
Definition lcamel (M : bmodel) (s : string) : string :=
  match assoc (m_names M) s with Some (_, l, _) => l | None => s end.
Definition snake (M : bmodel) (s : string) : string :=
  match assoc (m_names M) s with Some (_, _, k) => k | None => s end.

(* PacketsMap lookup: AddPacket keeps the first packet of a name, and Packets holds exactly
   the packets of the map, so lookup by name in declaration order is the map. *)
Fixpoint find_packet (ps : list packet) (n : string) : option packet :=
  match ps with
  | [] => None
  | p :: r => if String.eqb (p_name p) n then Some p else find_packet r n
  end.

Definition lookup_packet (M : bmodel) (n : string) : option packet := find_packet (m_packets M) n.

Fixpoint find_field (fs : list field) (n : string) : option field :=
  match fs with
  | [] => None
  | f :: r => if String.eqb (f_name f) n then Some f else find_field r n
  end.

(* FieldMap[n]: the map keeps the LAST field of a name *)
Definition field_map (p : packet) (n : string) : option field := find_field (rev (p_fields p)) n.

(* ---- strings.ToLower on ASCII ---- *)
Definition lower_ascii (c : ascii) : ascii :=
  let n := nat_of_ascii c in
  if andb (Nat.leb 65 n) (Nat.leb n 90) then ascii_of_nat (n + 32) else c.
Fixpoint to_lower (s : string) : string :=
  match s with EmptyString => EmptyString | String c r => String (lower_ascii c) (to_lower r) end.

(* model.getBasicType *)
Definition get_basic_type (t : string) : string :=
  let l := to_lower t in
  if orb (String.eqb l "i8") (String.eqb l "int8") then "i8"
  else if orb (String.eqb l "i16") (String.eqb l "int16") then "i16"
  else if orb (String.eqb l "i32") (String.eqb l "int32") then "i32"
  else if orb (String.eqb l "i64") (String.eqb l "int64") then "i64"
  else if orb (String.eqb l "u8") (String.eqb l "uint8") then "u8"
  else if orb (String.eqb l "u16") (String.eqb l "uint16") then "u16"
  else if orb (String.eqb l "u32") (String.eqb l "uint32") then "u32"
  else if orb (String.eqb l "u64") (String.eqb l "uint64") then "u64"
  else if orb (String.eqb l "f32") (String.eqb l "float32") then "f32"
  else if orb (String.eqb l "f64") (String.eqb l "float64") then "f64"
  else t.

(* FieldAttribute.GetType() *)
Definition attr_get_type (a : attr) : option string :=
  match a with
  | ABasic t => Some (get_basic_type t)
  | AFixed _ _ => Some "string"
  | ADyn => Some "string"
  | ALen _ t => Some (get_basic_type t)
  | ACheck _ t => Some (get_basic_type t)
  | AObj _ _ _ _ => Some "object"
  | AMatch _ _ _ => Some "match"
  | ANil => None                              (* nil interface: method call panics *)
  end.

(* Field.GetType(): None = the Go code panics (nil RefPacket / nil Attr) *)
Definition field_get_type (f : field) : option string :=
  match f_attr f with
  | AFixed _ _ | ADyn => Some "string"
  | AObj _ _ (Some r) _ => Some r
  | AObj _ _ None _ => None
  | AMatch _ _ _ => Some "match"
  | a => match attr_get_type a with
         | None => None
         | Some t =>
           let t' := get_basic_type t in     (* the second switch of Field.GetType *)
           let l := to_lower t in
           if orb (String.eqb l "string") (String.eqb l "char[]") then Some "string" else Some t'
         end
  end.

(* width in bytes of a normalised scalar type name *)
Definition ty_width (t : string) : option nat :=
  if orb (String.eqb t "u8") (String.eqb t "i8") then Some 1%nat
  else if orb (String.eqb t "u16") (String.eqb t "i16") then Some 2%nat
  else if orb (orb (String.eqb t "u32") (String.eqb t "i32")) (String.eqb t "f32") then Some 4%nat
  else if orb (orb (String.eqb t "u64") (String.eqb t "i64")) (String.eqb t "f64") then Some 8%nat
  else None.

Definition path_join (a b : string) : string := a ++ "/" ++ b.

(* every packet of a model with its path: top-level packets by name, inline packets under
   <parent path>/<field name>, inline ones first (the order generators emit them in) *)
Fixpoint packets_under (path : string) (p : packet) {struct p} : list (string * packet) :=
  match p with
  | mkPacket _ _ _ fs _ =>
      ((fix inl (fs : list field) : list (string * packet) :=
         match fs with
         | [] => []
         | mkField fname (AObj true _ _ (Some q)) _ _ :: r =>
             (packets_under (path_join path fname) q ++ inl r)%list
         | _ :: r => inl r
         end) fs ++ [(path, p)])%list
  end.

Definition all_packets (M : bmodel) : list (string * packet) :=
  flat_map (fun p => packets_under (p_name p) p) (m_packets M).

Definition packet_at (M : bmodel) (path : string) : option packet := assoc (all_packets M) path.

