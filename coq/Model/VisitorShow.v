(* Canonical text of a visitor outcome; harness/visitor.py prints the same text from the
   hook's model dump (op "visit") and the two are compared as strings.  Harness support
   and decidable equality on the generators' view; MODEL ONLY: no proofs here.

   outcome   PANIC <site>   |   OK (metas [M..]) (options [("k" "v")..]) CONFIG (packets [P..]) (pmk ["name"..]) (root R) (diags [D..])
   M         (m "name" ATTR "desc" line)                       sorted by name
   ATTR      (basic "ty") | (fixed #c len PAD) | dyn | (len T "lenty") | (check "alg" "ty")
             | (obj B "pname" R INLINE) | (match K KATTR B [PAIR..]) | nil
   KATTR     - | the key field's attribute without what hangs below: (obj B "pname" R), (match K)
   PAD       - | (pad %c "char" B)          %c: identity of the Padding object
   PAIR      ("key" "value" line)
   F         (f "name" ATTR LA B "doc" tag line)       LA  - | (len T "lenty") | (lenof "field")
   P         (p "name" B LENF line [F..] [("key" [PAIR..])..] ["fieldmapkey"..])
   CONFIG    (config "list" "str" "java" "go" "gomod" B (pad %cfg "char" B))
   D         (line KIND "msg")
   B         T | F          T, R, K, LENF, INLINE:  - for nil, else the name / the packet
   #c / %c are store addresses; the harness renumbers them (and the ids of the real dump)
   by first occurrence, so only the identity classes are compared.                          *)
From Coq Require Import String Ascii NArith Bool Arith List.
From FP Require BModel.
From FP Require Import PT ShowPT Visitor.
Import ListNotations.
Open Scope string_scope.

Fixpoint sh_N_aux (fuel : nat) (n : N) (acc : string) : string :=
  let d := String (ascii_of_N (48 + N.modulo n 10)) acc in
  match fuel with
  | O => d
  | S f => if N.eqb (N.div n 10) 0 then d else sh_N_aux f (N.div n 10) d
  end.
Definition sh_N (n : N) (acc : string) : string := sh_N_aux 40 n acc.

Definition sh_bool (b : bool) (acc : string) : string := (if b then "T" else "F") ++ acc.
Definition sh_name (o : option string) (acc : string) : string := sh_opt sh_text o acc.

Definition sh_pad (tag : string) (p : BModel.padding) (acc : string) : string :=
  "(pad %" ++ tag ++ " " ++ sh_text (BModel.pad_char p) (" " ++ sh_bool (BModel.pad_left p) (")" ++ acc)).

Definition sh_cell (store : list fcell) (c : nat) (acc : string) : string :=
  match nth_error store c with
  | Some cell =>
      "(fixed #" ++ sh_nat c (" " ++ sh_N (fc_len cell) (" " ++
         match fc_pad cell with
         | None => "-" ++ ")" ++ acc
         | Some p => sh_pad (sh_nat c "") p (")" ++ acc)
         end))
  | None => "(fixed #" ++ sh_nat c (" dangling)" ++ acc)
  end.

Definition sh_pair (p : vpair) (acc : string) : string :=
  "(" ++ sh_text (vp_key p) (" " ++ sh_text (vp_value p) (" " ++ sh_nat (vp_line p) (")" ++ acc))).

Definition sh_attr_shallow (store : list fcell) (a : vattr) (acc : string) : string :=
  match a with
  | VABasic t => "(basic " ++ sh_text t (")" ++ acc)
  | VAFixed c => sh_cell store c acc
  | VADyn => "dyn" ++ acc
  | VALen tgt t => "(len " ++ sh_name (fref_name tgt) (" " ++ sh_text t (")" ++ acc))
  | VACheck alg t => "(check " ++ sh_text alg (" " ++ sh_text t (")" ++ acc))
  | VAObj iner pn ref _ => "(obj " ++ sh_bool iner (" " ++ sh_text pn (" " ++ sh_name ref (")" ++ acc)))
  | VAMatch key _ => "(match " ++ sh_name (fref_name key) (")" ++ acc)
  | VANil => "nil" ++ acc
  end.

Definition sh_la (l : vlen) (acc : string) : string :=
  match l with
  | VLNone => "-" ++ acc
  | VLLen t ty => "(len " ++ sh_name t (" " ++ sh_text ty (")" ++ acc))
  | VLLenOf f => "(lenof " ++ sh_text f (")" ++ acc)
  end.

Definition sh_strings (l : list string) (acc : string) : string := sh_brack sh_text l acc.

Definition sh_mf (kv : string * list vpair) (acc : string) : string :=
  "(" ++ sh_text (fst kv) (" " ++ sh_brack sh_pair (snd kv) (")" ++ acc)).

Fixpoint sh_attr (store : list fcell) (ctx : list vfield) (a : vattr) (acc : string) {struct a} : string :=
  match a with
  | VAObj iner pn ref inlp =>
      "(obj " ++ sh_bool iner (" " ++ sh_text pn (" " ++ sh_name ref (" " ++
        match inlp with
        | None => "-" ++ ")" ++ acc
        | Some p => sh_packet store p (")" ++ acc)
        end)))
  | VAMatch key pairs =>
      "(match " ++ sh_name (fref_name key) (" " ++
        match key with
        | FRIdx i _ =>
            match nth_error ctx i with
            | Some kf =>
                (match vf_attr kf with VANil => "-" | ka => sh_attr_shallow store ka "" end)
                  ++ " " ++ sh_bool (vf_rep kf) (" " ++ sh_brack sh_pair pairs (")" ++ acc))
            | None => "? F " ++ sh_brack sh_pair pairs (")" ++ acc)
            end
        | _ => "- F " ++ sh_brack sh_pair pairs (")" ++ acc)
        end)
  | _ => sh_attr_shallow store a acc
  end
with sh_packet (store : list fcell) (p : vpacket) (acc : string) {struct p} : string :=
  match p with
  | mkVPacket name is_root lenf fields fmap mfs line =>
      "(p " ++ sh_text name (" " ++ sh_bool is_root (" " ++
        sh_name (match lenf with Some i => option_map vf_name (nth_error fields i) | None => None end) (" " ++
        sh_nat line (" [" ++
        (fix go (l : list vfield) (acc : string) : string :=
           match l with
           | [] => acc
           | f :: r =>
               (match f with
                | mkVField n a la rep doc tag ln =>
                    "(f " ++ sh_text n (" " ++ sh_attr store fields a (" " ++ sh_la la (" " ++ sh_bool rep (" " ++
                       sh_text doc (" " ++ sh_N tag (" " ++ sh_nat ln (")" ++
                       match r with [] => go r acc | _ => " " ++ go r acc end)))))))
                end)
           end) fields
        ("] " ++ sh_brack sh_mf (sort_keys mfs) (" " ++ sh_strings (map fst (sort_keys fmap)) (")" ++ acc)))))))
  end.

Definition sh_meta (store : list fcell) (m : vmeta) (acc : string) : string :=
  "(m " ++ sh_text (vm_name m) (" " ++ sh_attr_shallow store (vm_attr m) (" " ++ sh_text (vm_desc m) (" " ++
     sh_nat (vm_line m) (")" ++ acc)))).

Definition sh_option (kv : string * string) (acc : string) : string :=
  "(" ++ sh_text (fst kv) (" " ++ sh_text (snd kv) (")" ++ acc)).

Definition sh_config (c : BModel.config) (acc : string) : string :=
  "(config " ++ sh_text (BModel.c_list c) (" " ++ sh_text (BModel.c_str c) (" " ++ sh_text (BModel.c_java_package c) (" " ++
     sh_text (BModel.c_go_package c) (" " ++ sh_text (BModel.c_go_module c) (" " ++ sh_bool (BModel.c_le c) (" " ++
     match BModel.c_pad c with
     | Some p => sh_pad "cfg" p (")" ++ acc)
     | None => "-)" ++ acc
     end)))))).

Definition sh_dkind (k : dkind) : string :=
  match k with
  | DK_DupMeta => "DupMeta" | DK_OptValue => "OptValue" | DK_OptUnknown => "OptUnknown" | DK_OptDup => "OptDup"
  | DK_DupPacket => "DupPacket" | DK_MultiRoot => "MultiRoot" | DK_UnknownPacket => "UnknownPacket"
  | DK_LenNotRoot => "LenNotRoot" | DK_LenDup => "LenDup" | DK_DupMatchKey => "DupMatchKey"
  | DK_UnexpectedField => "UnexpectedField"
  | DK_UnknownMeta => "UnknownMeta" | DK_PadNotFixed => "PadNotFixed" | DK_AttrOnObject => "AttrOnObject"
  | DK_UnknownLenTarget => "UnknownLenTarget" | DK_UnknownMatchKey => "UnknownMatchKey" | DK_DupField => "DupField"
  end.

Definition sh_diag (d : diag) (acc : string) : string :=
  "(" ++ sh_nat (d_line d) (" " ++ sh_dkind (d_kind d) ++ " " ++ sh_text (d_msg d) (")" ++ acc)).

Definition vmeta_key (m : vmeta) : string * vmeta := (vm_name m, m).

Definition show_result (r : result) : string :=
  "OK (metas " ++ sh_brack (sh_meta (r_store r)) (map snd (sort_keys (map vmeta_key (r_metas r)))) (") (options " ++
    sh_brack sh_option (sort_keys (r_options r)) (") " ++ sh_config (r_config r) (" (packets " ++
    sh_brack (sh_packet (r_store r)) (r_packets r) (") (pmk " ++
    sh_strings (map fst (sort_keys (map (fun p => (vk_name p, tt)) (r_packets r)))) (") (root " ++
    sh_name (r_root r) (") (diags " ++ sh_brack sh_diag (r_diags r) ")")))))).

Definition show_outcome (o : outcome) : string :=
  match o with
  | VPanic site => "PANIC " ++ site
  | VOk r => show_result r
  end.

(* ------------------------------------------------------------------ equality on the generators' view *)

Definition opt_eqb {A} (e : A -> A -> bool) (a b : option A) : bool :=
  match a, b with
  | None, None => true
  | Some x, Some y => e x y
  | _, _ => false
  end.

Fixpoint list_eqb {A} (e : A -> A -> bool) (a b : list A) : bool :=
  match a, b with
  | [], [] => true
  | x :: r, y :: s => e x y && list_eqb e r s
  | _, _ => false
  end.

Definition pad_eqb (a b : BModel.padding) : bool :=
  String.eqb (BModel.pad_char a) (BModel.pad_char b) && Bool.eqb (BModel.pad_left a) (BModel.pad_left b).
Definition mpair_eqb (a b : BModel.mpair) : bool :=
  String.eqb (BModel.mp_key a) (BModel.mp_key b) && String.eqb (BModel.mp_value a) (BModel.mp_value b).
Definition lenattr_eqb (a b : BModel.lenattr) : bool :=
  match a, b with
  | BModel.LNone, BModel.LNone | BModel.LTarget, BModel.LTarget | BModel.LLenOf, BModel.LLenOf => true
  | _, _ => false
  end.

Fixpoint battr_eqb (a b : BModel.attr) {struct a} : bool :=
  match a, b with
  | BModel.ABasic x, BModel.ABasic y => String.eqb x y
  | BModel.AFixed n p, BModel.AFixed m q => Nat.eqb n m && opt_eqb pad_eqb p q
  | BModel.ADyn, BModel.ADyn => true
  | BModel.ALen t x, BModel.ALen u y => opt_eqb String.eqb t u && String.eqb x y
  | BModel.ACheck g x, BModel.ACheck h y => String.eqb g h && String.eqb x y
  | BModel.AObj i pn r p, BModel.AObj j qn s q =>
      Bool.eqb i j && String.eqb pn qn && opt_eqb String.eqb r s &&
      match p, q with
      | None, None => true
      | Some x, Some y => bpacket_eqb x y
      | _, _ => false
      end
  | BModel.AMatch k ka ps, BModel.AMatch l la qs =>
      opt_eqb String.eqb k l &&
      match ka, la with
      | None, None => true
      | Some x, Some y => battr_eqb x y
      | _, _ => false
      end && list_eqb mpair_eqb ps qs
  | BModel.ANil, BModel.ANil => true
  | _, _ => false
  end
with bpacket_eqb (a b : BModel.packet) {struct a} : bool :=
  match a, b with
  | BModel.mkPacket n r l fs ms, BModel.mkPacket m s k gs ns =>
      String.eqb n m && Bool.eqb r s && opt_eqb String.eqb l k &&
      (fix go (x y : list BModel.field) : bool :=
         match x, y with
         | [], [] => true
         | BModel.mkField fn fa fl fr :: x', BModel.mkField gn ga gl gr :: y' =>
             String.eqb fn gn && battr_eqb fa ga && lenattr_eqb fl gl && Bool.eqb fr gr && go x' y'
         | _, _ => false
         end) fs gs &&
      list_eqb (fun u v => String.eqb (fst u) (fst v) && list_eqb mpair_eqb (snd u) (snd v)) ms ns
  end.

Definition config_eqb (a b : BModel.config) : bool :=
  String.eqb (BModel.c_list a) (BModel.c_list b) && String.eqb (BModel.c_str a) (BModel.c_str b) &&
  String.eqb (BModel.c_java_package a) (BModel.c_java_package b) && String.eqb (BModel.c_go_package a) (BModel.c_go_package b) &&
  String.eqb (BModel.c_go_module a) (BModel.c_go_module b) && Bool.eqb (BModel.c_le a) (BModel.c_le b) &&
  opt_eqb pad_eqb (BModel.c_pad a) (BModel.c_pad b).

(* m_names (the strcase table) is an input of both sides and not compared *)
Definition bmodel_eqb (a b : BModel.bmodel) : bool :=
  config_eqb (BModel.m_cfg a) (BModel.m_cfg b) && list_eqb bpacket_eqb (BModel.m_packets a) (BModel.m_packets b) &&
  list_eqb String.eqb (BModel.m_map_keys a) (BModel.m_map_keys b) && opt_eqb String.eqb (BModel.m_root a) (BModel.m_root b).
