"""Visitor checks (properties C12, C11-compile, C08): the Coq model of the visitor
(coq/Model/Visitor.v) against the real visitor of /repo, through the verifhook ops "visit"
and "gen".

  python3 harness/visitor.py --seed S --n N

1. CORRESPONDENCE.  For every text (harness/texts.py programs and fault injections, the
   well-formed programs of harness/vprogs.py and one semantic fault per C12 class at every
   site of them, C08 rewrites of well-formed programs) that the real lexer and parser accept:
   the real parse tree (hook op "parse", translated by harness/tree.py) is given to the
   model's `visit`; compared are
     - the outcome kind: ok / panic and the panicking function (frames[0] of the hook),
     - the whole model dump in the canonical text of coq/Model/VisitorShow.v (pointer identity
       classes of FixedStringFieldAttribute and Padding objects renumbered by first occurrence),
     - the diagnostics: line, call site (derived from the message on the real side), message;
       the column is not compared (it is the lexer's end-of-input column),
     - `to_bmodel` against core.g_model's view of the dump (Coq-side equality), when the text
       has no oversized fixed-string length.
2. C12: `faults` (coq/Model/Faults.v, the specification) is evaluated on every tree and compared
   with the real diagnostics: every (class, line) must be diagnosed by a message of that class
   at that line; well-formed programs must be accepted without diagnostics.  Every deviation
   is classified; the classes must be in KNOWN.
3. C11: every text (also the ones with syntax errors) must end in a result or a diagnostic;
   panics are classified by site; `nopanic_frag` (coq/Proofs/VisitorProofs.v proves it
   sufficient) is evaluated on every tree: no text inside the fragment may panic.
4. C08: for well-formed programs and each spelling rewrite (a FUNCTION on pt in
   coq/Model/Spelling.v, mirrored on the Python tree to obtain the text): the rewritten text
   must be the model's rewritten tree (token texts), `same_meaning` is evaluated by the model
   and the six generators' outputs of the REAL compiler for both texts must be byte-identical.
   Attribute locality: removing one attribute from a well-formed program may change only the
   field it was written on (real dumps compared field by field).

Exit code 0 iff there is no mismatch between model and real code AND every observed deviation
from a property is in KNOWN; unknown ones are printed as lines starting with NEW-DEVIATION.
The same information is written to .build/visitor_report.json.
"""
import argparse
import fnmatch
import collections
import concurrent.futures
import json
import os
import re
import resource
import subprocess
import sys

sys.path.insert(0, os.path.dirname(os.path.abspath(__file__)))
import core
import texts
import tree

sys.setrecursionlimit(100000)   # tree.py and first()/last() recurse over the parse tree (deeply nested inline objects)

LANGS = ["lua", "rust", "go", "java", "python", "cpp"]

PRELUDE = """From FP Require Import PT Flatten ShowPT Visitor VisitorShow Faults Spelling NoPanic.
From FP Require BModel.
From Coq Require Import String List NArith.
Import ListNotations.
Open Scope string_scope.
Set Printing Width 100000000.
Set Printing Depth 100000000.
Fixpoint bs (l : list nat) : string := match l with [] => EmptyString | n :: r => String (Ascii.ascii_of_nat n) (bs r) end.
Definition T_ (b : bool) : string := if b then "T" else "F".
"""

# ------------------------------------------------------------------ canonical text of a real dump

def B(b):
    return "T" if b else "F"


def esc(s):
    return tree.esc(s)


def nm(x):
    return "-" if x is None else esc(x)


KIND_RES = [
    ("DupMeta", re.compile(r"^Duplicate metadata definition for ")),
    ("OptValue", re.compile(r"^Option [A-Za-z_0-9]+ is not allowed to be ")),
    ("OptUnknown", re.compile(r"^Option [A-Za-z_0-9]+ is not allowed in this context, Expected one of:")),
    ("OptDup", re.compile(r"^Option [A-Za-z_0-9]+ is already defined$")),
    ("DupPacket", re.compile(r"^Duplicate packet definition for ")),
    ("MultiRoot", re.compile(r"^Multiple root packets are not allowed$")),
    ("UnknownPacket", re.compile(r"^Unknown packet type ")),
    ("LenNotRoot", re.compile(r"^LengthOfField can only be declared in the root packet$")),
    ("LenDup", re.compile(r"^Duplicate LengthOfField declaration$")),
    ("DupMatchKey", re.compile(r"^Duplicate match key: ")),
    ("UnexpectedField", re.compile(r"^Unexpected field definition type$")),
    ("UnknownMeta", re.compile(r"^Unknown metadata type [A-Za-z_0-9]+ for ")),
    ("PadNotFixed", re.compile(r"^Padding attribute can only be declared on a fixed string field: ")),
    ("AttrOnObject", re.compile(r"^Attribute @(lengthOf|calculatedFrom) is not allowed on object field ")),
    ("UnknownLenTarget", re.compile(r"^Unknown length target [A-Za-z_0-9]+ for field ")),
    ("UnknownMatchKey", re.compile(r"^Unknown match key field [A-Za-z_0-9]+ for field ")),
    ("DupField", re.compile(r"^Duplicate field definition for [A-Za-z_0-9]+ in packet ")),
]


def msg_kind(msg):
    for k, r in KIND_RES:
        if r.search(msg):
            return k
    return "?"


def c_pad(p, ident=None):
    if p is None:
        return "-"
    return "(pad %%%s %s %s)" % (p["id"] if ident is None else ident, esc(core.b64bytes(p["char"]).encode("latin-1")), B(p["left"]))


def c_pair(p):
    return "(%s %s %d)" % (esc(p["key"]), esc(p["value"]), p["line"])


def c_attr_shallow(a):
    if a is None:
        return "nil"
    k = a["kind"]
    if k == "basic":
        return "(basic %s)" % esc(a["type"])
    if k == "fixed":
        return "(fixed #%d %d %s)" % (a["id"], a["length"], c_pad(a["padding"]))
    if k == "dyn":
        return "dyn"
    if k == "len":
        return "(len %s %s)" % (nm(a["target"]), esc(a["lentype"]))
    if k == "checksum":
        return "(check %s %s)" % (esc(a["alg"]), esc(a["type"]))
    if k == "object":
        return "(obj %s %s %s)" % (B(a["iner"]), esc(a["pname"]), nm(a["ref"]))
    if k == "match":
        return "(match %s)" % nm(a["key"])
    return "(?%s)" % k


def c_attr(a):
    if a is None:
        return "nil"
    k = a["kind"]
    if k == "object":
        return "(obj %s %s %s %s)" % (B(a["iner"]), esc(a["pname"]), nm(a["ref"]),
                                      "-" if a.get("inline") is None else c_packet(a["inline"]))
    if k == "match":
        ka = a.get("key_attr")
        return "(match %s %s %s [%s])" % (nm(a["key"]), "-" if ka is None else c_attr_shallow(ka), B(a.get("key_repeat", False)),
                                         " ".join(c_pair(p) for p in a["pairs"]))
    return c_attr_shallow(a)


def c_la(la):
    if la is None:
        return "-"
    if la["kind"] == "len":
        return "(len %s %s)" % (nm(la["target"]), esc(la["lentype"]))
    if la["kind"] == "lenof":
        return "(lenof %s)" % esc(la["length_field"])
    return "(?%s)" % la["kind"]


def c_field(f):
    return "(f %s %s %s %s %s %d %d)" % (esc(f["name"]), c_attr(f["attr"]), c_la(f["len_attr"]), B(f["repeat"]), esc(f["doc"]),
                                        f["tag"], f["line"])


def bsorted(keys):
    return sorted(keys, key=lambda k: k.encode("utf-8"))


def c_packet(p):
    if p.get("too_deep"):
        return "(too-deep)"
    mfs = p["match_fields"]
    return "(p %s %s %s %d [%s] [%s] [%s])" % (
        esc(p["name"]), B(p["is_root"]), nm(p["length_field"]), p["line"], " ".join(c_field(f) for f in p["fields"]),
        " ".join("(%s [%s])" % (esc(k), " ".join(c_pair(x) for x in (mfs[k] or []))) for k in bsorted(mfs)),
        " ".join(esc(k) for k in (p["field_map_keys"] or [])))


def c_model(m):
    c = m["config"]
    cfg = "(config %s %s %s %s %s %s %s)" % (esc(c["list"]), esc(c["str"]), esc(c["java_package"]), esc(c["go_package"]),
                                            esc(c["go_module"]), B(c["le"]), c_pad(c["padding"]))
    return "OK (metas [%s]) (options [%s]) %s (packets [%s]) (pmk [%s]) (root %s) (diags [%s])" % (
        " ".join("(m %s %s %s %d)" % (esc(x["name"]), c_attr_shallow(x["attr"]), esc(x["desc"]), x["line"]) for x in m["metas"]),
        " ".join("(%s %s)" % (esc(k), esc(m["options"][k])) for k in bsorted(m["options"])),
        cfg, " ".join(c_packet(p) for p in m["packets"]), " ".join(esc(k) for k in (m["packets_map_keys"] or [])),
        nm(m["root"]), " ".join("(%d %s %s)" % (e["line"], msg_kind(e["msg"]), esc(e["msg"])) for e in m["errors"]))


def c_outcome(resp):
    if "panic" in resp:
        fr = resp.get("frames") or ["?"]
        return "PANIC " + fr[0]
    if resp.get("fatal"):
        return "FATAL"
    if resp.get("syntax_error"):
        return "SYNTAX"
    return c_model(resp["model"])


ID_RE = re.compile(r"([#%])([A-Za-z0-9]+)")


def renumber(s):
    """Renumber #id and %id tokens outside quoted strings by first occurrence."""
    parts = s.split('"')
    maps = {"#": {}, "%": {}}

    def sub(m):
        d = maps[m.group(1)]
        return m.group(1) + str(d.setdefault(m.group(2), len(d)))

    for i in range(0, len(parts), 2):
        parts[i] = ID_RE.sub(sub, parts[i])
    return '"'.join(parts)


# ------------------------------------------------------------------ coqc

def coq_args():
    args = []
    for line in open(os.path.join(core.COQ, "_CoqProject")):
        line = line.strip()
        if line.startswith("-Q"):
            _, dd, ns = line.split()
            args += ["-Q", os.path.join(core.COQ, dd), ns]
    return args


def coq_eval(name, body, timeout=1500):
    d = os.path.join(core.COQ, "Run")
    os.makedirs(d, exist_ok=True)
    path = os.path.join(d, name + ".v")
    with open(path, "w", encoding="latin-1") as fh:
        fh.write(PRELUDE + body)

    def pre():
        soft, hard = resource.getrlimit(resource.RLIMIT_STACK)
        want = 4 << 30
        if hard != resource.RLIM_INFINITY:
            want = min(want, hard)
        resource.setrlimit(resource.RLIMIT_STACK, (want, hard))

    for attempt in range(3):
        r = subprocess.run(["timeout", str(timeout), "coqc"] + coq_args() + [path], stdout=subprocess.PIPE, stderr=subprocess.PIPE,
                           cwd=d, preexec_fn=pre)
        if r.returncode >= 0 and r.returncode != 124:
            break
    return r.returncode, r.stdout.decode("latin-1"), r.stderr.decode("latin-1")


def run_shard(args):
    name, body = args
    rc, out, err = coq_eval(name, body)
    return name, rc, core.parse_results(out), err


# ------------------------------------------------------------------ KNOWN deviations of the real visitor from C12 / C11 / C08

SITE_SHORT = {
    "parser.(*PacketDslVisitorImpl).VisitFieldDefinitionWithAttribute": "VisitFieldDefinitionWithAttribute",
    "model.Field.GetType": "Field.GetType",
    "parser.(*PacketDslVisitorImpl).VisitLengthFieldDeclaration": "VisitLengthFieldDeclaration",
    "parser.(*PacketDslVisitorImpl).VisitCheckSumFieldDeclaration": "VisitCheckSumFieldDeclaration",
    "parser.(*PacketDslVisitorImpl).VisitPacketDefinition": "VisitPacketDefinition",
}

KNOWN = {
    # ---- C12: classes diagnosed only in some positions
    "C12:DupField:missed-rejected": "a field that repeats the name of a length-of field which was itself refused (outside the root packet, or a "
                                    "second one) is not reported: the refused field never enters the field map (packet_dsl_parser.go, first loop of "
                                    "VisitPacketDefinition)",
    "C12:UndeclaredLenTarget:missed*": "the target of a length-of field is only looked up for THE length field of a root packet: not for a length-of "
                                       "field that is refused (outside the root, second one, @lengthOf refused before an object field) and not inside "
                                       "inline objects (VisitInerObjectField checks nothing about length-of fields)",
    "C12:UndeclaredMatchKey:missed*": "@lengthOf / @calculatedFrom written before a match field replace its match attribute (Field.GetType answers "
                                      "\"match\"): the field is no match field any more when the key is looked up",
    "C12:LenOutsideRoot:missed*": "length-of fields inside inline objects are not checked (VisitInerObjectField); at top level a later "
                                  "@calculatedFrom replaces the length attribute before the check, and @lengthOf before an object field is refused as "
                                  "an attribute only (packet_dsl_parser.go, VisitPacketDefinition / VisitFieldDefinitionWithAttribute)",
    "C12:SecondLen:missed*": "a later @calculatedFrom on the same field replaces the length attribute before the check; @lengthOf before an object "
                             "field is refused as an attribute only",
    "C12:UndeclaredPacket:missed*": "the fields of a packet that is rejected as a duplicate are not resolved (ResolveDependencies walks m.Packets only); the pairs of a "
                                    "match field whose attribute was replaced by @lengthOf / @calculatedFrom are gone",
    "C12:UndeclaredPacket:wrong-line": "the diagnostic carries the line of the fieldDefinition, not of the first prefixed attribute (model.go, "
                                       "resolveFields: field.Line); for a key list that starts on a later line than its bracket, the lines of the keys",
    "C12:DupOption:missed-rejected": "AddOption returns after 'not allowed in this context' (model.go AddOption): a repeated unknown option is only "
                                     "reported as unknown",
    "C12:SecondRoot:missed-rejected": "AddPacket returns after 'Duplicate packet definition' (model.go AddPacket): a second root that is also a "
                                      "duplicate is only reported as duplicate",
    "C12:IllegalOptionValue:missed*": "a quoted value is stripped of its quotes before the check (packet_dsl_parser.go VisitPacket): \"u16\", \"true\" pass",
    # ---- C08
    "C08:default_options:outputs-differ:*": "FixedStringPadFromLeft = true without FixedStringPadChar: NewConfiguration takes the pad character from the Go "
                             "literal \" \" (the bare blank, model.go NewConfiguration) where the option value and the built-in default are the token text "
                             "quote-blank-quote: 'explicit default options versus none' changes Config.Padding.PadChar; Rust/Go/Java emit "
                             "'..., 4,  , true)' (no character literal at all) without the explicit option",
    "C08:default_options:model-differs-outputs-same": "as C08:default_options:outputs-differ (the models differ, the six outputs happen to coincide for this program)",
    "C08:expand_keys:outputs-differ:*": "VisitMatchPair collects the DIGITS keys of a list before its STRING keys (packet_dsl_parser.go VisitMatchPair): a list that "
                         "mixes both kinds is not its pairs in source order (the registration order in the generated factories changes)",
    "C08:expand_keys:model-differs-outputs-same": "as C08:expand_keys:outputs-differ (the models differ, the six outputs happen to coincide for this program)",
    "C08:attr-leak:shared-metadata-fixed": "a padding attribute on a MetaData-typed fixed string writes the FixedStringFieldAttribute shared by "
                                           "the MetaData entry, its aliases and every field of that type (packet_dsl_parser.go, padding attribute / ObjectField)",
    "C08:inline_meta:outputs-differ:*": "a MetaData-typed fixed string shares its attribute object, so a padding attribute on one field pads all of them; "
                         "the inlined spelling pads only the field it is written on",
    "C08:inline_meta:model-differs-outputs-same": "as C08:inline_meta:outputs-differ (the models differ, the six outputs happen to coincide for this program)",
}


def is_known(dev):
    import fnmatch
    if dev.endswith(":model-disagrees"):
        return False
    return any(dev == k or fnmatch.fnmatchcase(dev, k) for k in KNOWN)


FAULT_TO_DIAG = {"DupPacket": "DupPacket", "DupMeta": "DupMeta", "DupOption": "OptDup", "DupField": "DupField", "DupMatchKey": "DupMatchKey",
                 "SecondRoot": "MultiRoot", "UnknownOption": "OptUnknown", "IllegalOptionValue": "OptValue", "LenOutsideRoot": "LenNotRoot",
                 "SecondLen": "LenDup", "UndeclaredPacket": "UnknownPacket", "UndeclaredMatchKey": "UnknownMatchKey",
                 "UndeclaredLenTarget": "UnknownLenTarget"}

# diagnostics of misuse that the 13 fault classes do not cover (a padding attribute on a field that is no fixed string,
# @lengthOf/@calculatedFrom before an object field, a ref-declaration of an undeclared MetaData type): a program that
# draws one of them does not use "only documented constructs", so the diagnostic is not a false positive
MISUSE_KINDS = {"PadNotFixed", "AttrOnObject", "UnknownMeta"}
WRONG_LINE_KINDS = {"UndeclaredPacket"}

ALIAS_VALUES = {"uint8", "uint16", "uint32", "uint64"}


DIAG_RE = re.compile(r'\((\d+) (\S+) "((?:[^"\\]|\\.)*)"\)')


def resp_of_canon(text):
    """The canonical outcome text of the MODEL, as far as classify_c12 needs it."""
    if text.startswith("PANIC "):
        return {"panic": "model", "frames": [text[6:].strip()]}
    m = re.search(r"\(diags \[(.*)\]\)\s*$", text, re.S)
    errs = []
    if m:
        for d in DIAG_RE.finditer(m.group(1)):
            msg = re.sub(r"\\x([0-9a-f]{2})", lambda x: chr(int(x.group(1), 16)), d.group(3))
            errs.append({"line": int(d.group(1)), "msg": msg, "kind": d.group(2)})
    return {"model": {"errors": errs}}


def classify_c12(spec, resp):
    """spec: [(fault kind, line)] from the model; resp: the hook's answer. Returns (deviation ids, ok flag)."""
    devs = []
    if "panic" in resp:
        site = SITE_SHORT.get((resp.get("frames") or ["?"])[0], (resp.get("frames") or ["?"])[0])
        if not spec:
            devs.append("C12:no-fault-class:panic:" + site)
        for k, _ in spec:
            devs.append("C12:%s:panic:%s" % (k, site))
        return devs
    real = [(e.get("kind") or msg_kind(e["msg"]), e["line"], e["msg"]) for e in resp["model"]["errors"]]
    rejected = bool(real)
    # a fault is answered when SOME diagnostic of its class sits on its line (several faults on one line, or one
    # diagnostic per key of a key list, change nothing)
    answered = set((k, l) for k, l, _ in real)
    used = set()
    unmatched = []
    for k, l in spec:
        want = FAULT_TO_DIAG[k]
        if (want, l) in answered:
            used.add((want, l))
        else:
            unmatched.append((k, l))
    spare = [x for x in real if (x[0], x[1]) not in used]
    for k, l in unmatched:
        want = FAULT_TO_DIAG[k]
        # a displaced diagnostic: only where the code takes the line from another token than the specification does
        # (resolveFields: field.Line / pair.Line); elsewhere an unanswered fault is a missed one, whatever else is reported
        hit = next((x for x in spare if x[0] == want), None) if k in WRONG_LINE_KINDS else None
        if hit is not None:
            spare = [x for x in spare if (x[0], x[1]) != (hit[0], hit[1])]
            devs.append("C12:%s:wrong-line" % k)
        else:
            devs.append("C12:%s:%s" % (k, "missed-rejected" if rejected else "missed-accepted"))
    if not spec:
        # the converse: a well-formed program that uses only documented constructs draws no diagnostic
        for kind, line, msg in real:
            if kind in MISUSE_KINDS:
                continue
            sub = ""
            if kind == "OptValue":
                m = re.match(r"^Option (\w+) is not allowed to be (.*), Expected one of:", msg, re.S)
                val = m.group(2) if m else ""
                sub = ":" + ("padchar-nul" if val in ("'\\x00'", "'\x00'") else "alias" if val in ALIAS_VALUES else "other")
            devs.append("C12:false-positive:%s%s" % (kind, sub))
    return devs


# ------------------------------------------------------------------ texts

WITNESSES = [
    # the witnesses of coq/Proofs/VisitorProofs.v and other hand-made corner cases
    "packet A { u8 x, u16 x, }",
    "packet B { } packet A { match k as n { 1 : B, 1 : B } , }",
    "packet A { G { u16 l @lengthOf(x), u8 x, }, }",
    "packet A { match k as n { 1 : Nowhere }, u8 k, }",
    "packet A { G { Nowhere f, }, }",
    "packet B { } packet A { match nokey as n { 1 : B }, }",
    "root packet A { u16 l @lengthOf(nowhere), }",
    "root packet A { u16 l @lengthOf(nowhere), u8 x, }",
    "options { Foo = 1; Foo = 2; }",
    "root packet A { } packet B { } root packet B { }",
    "packet A { @tag(1)\n Nowhere f, }",
    "options { FixedStringPadChar = '\\x00'; }",
    "options { StringPrefixLenType = uint16; }",
    "options { StringPrefixLenType = \"u16\"; LittleEndian = \"true\"; }",
    "packet A { @leftPad('0') u8 x, }",
    "packet A { @lengthOf(x) B b, u8 x, }",
    "MetaData M { Nowhere y, } packet A { y @lengthOf(x), }",
    "MetaData M { Nowhere y, } packet A { u8 y @calculatedFrom(\"c\"), }",
    "MetaData M { char[4] S, } packet A { @leftPad('0') S a, S b, }",
    "MetaData M { char[4] S, S T, } packet A { S a, @leftPad('0') T b, char[4] c, }",
    "root packet A { u16 l @lengthOf(l), }",
    "root packet A { u8 x, uint16 l @lengthOf(x), u8 x, }",
    "root packet A { uint16 l @lengthOf(x), u8 x, }",
    "root packet A { u8 x, x @lengthOf(x), }",
    "packet A { match k as k { 1 : A }, }",
    "packet A { u8 k, match k as m { 1 : A }, match k as m2 { 2 : A }, match m as m3 { 3 : A }, }",
    "root packet A { @lengthOf(x) @calculatedFrom(\"c\") u16 l, u8 x, }",
    "root packet A { @calculatedFrom(\"c\") u16 l @lengthOf(x), u8 x, }",
    "packet A { @calculatedFrom(\"c\") @leftPad() char[3] f, }",
    "packet A { @leftPad() @calculatedFrom(\"c\") char[3] f, }",
    "packet A { @tag(99999999999999999999) zchar[99999999999999999999] f, char[007] g, }",
    "packet A { STRING x @lengthOf(y), CHAR z @calculatedFrom(\"q\"), }",
    "root packet A { String len @lengthOf(y), u8 y, }",
    "MetaData M { u32 len, u8 crc, } root packet A { u16 len @lengthOf(x), u8 x, u32 crc @calculatedFrom(\"CRC32\"), }",
    "MetaData M { u32 len, u8 crc, } root packet A { len @lengthOf(x), u8 x, crc @calculatedFrom(\"CRC32\"), }",
    "MetaData M { u8 y, Nowhere y, y z, z y, }",
    "MetaData M { Nowhere a, a b, } packet P { a, b, }",
    "MetaData M { zchar[3] Z, } packet P { Z, @rightPad(' ') Z y, }",
    "options { LittleEndian = TRUE; }",
    "options { LittleEndian = true LittleEndian = false; GoPackage = 1; GoPackage = \"\\\"q\\\"\" }",
    "options { FixedStringPadFromLeft = true; } options { FixedStringPadChar = '0' }",
    "packet A { repeat G { repeat H { u8 x, }, }, match g as G { [1, \"a\", 2, \"b\"] : A }, }",
    "packet A { Inner { match k as m { 1 : A }, u8 k, }, }",
    "options { FixedStringPadFromLeft = true; } packet A { char[4] x, }",
    "options { FixedStringPadFromLeft = true; } root packet A { char[4] x, }",
    "packet A { " + "G { " * 150 + "u8 x, " + "}, " * 150 + "}",
    "packet A { " + "G { " * 60 + "u8 x, G { char[2] y, }, " + "}, " * 60 + "}",
    "packet A { " + "".join("u8 f%d, " % i for i in range(400)) + "}",
    "packet B { } packet A { u8 k, match k as m { " + "".join("%d : B, " % i for i in range(300)) + "}, }",
    "packet A { u16 x @lengthOf(y), u8 x, u8 y, }",
    "packet B { } packet A { @calculatedFrom(\"c\") match nokey as m { 1 : B, 2 : Nowhere }, }",
    "packet A { u16 l @lengthOf(nowhere), }",
    "packet B { } packet A { @lengthOf(x) B b, u8 x, }",
    "packet A { u8 k, match k as n { [\n1, 2] : Nowhere }, }",
    "options { FixedStringPadChar = '\\x00'; } root packet A { char[4] x, }",
    "options { StringPrefixLenType = uint8; ArrayPrefixLenType = uint64; } root packet A { string s, repeat u8 xs, }",
    "options { StringPrefixLenType = int16; LittleEndian = u8; JavaPackage = uint32; }",
    "packet A { G { u8 x, u16 x, match nokey as m { 1 : A, 1 : Nowhere }, H { Nowhere2 q, A a, }, }, }",
    "MetaData M { Nowhere y, u8 y, } packet A { y, @leftPad() y z, @lengthOf(q) y w, }",
    "root packet A { @tag(1)\n@lengthOf(nowhere)\n u16 l, @tag(2)\n match nokey as m { 1 : A }, }",
    "",
    "// nothing",
]


# hand-made well-formed programs that also go through the C08 rewrites (when the real compiler accepts them and all six
# generators produce output)
C08_EXTRA = [
    # MetaData entries of every fixed-string flavour used as field types, no attribute on the fields (so that
    # 'MetaData-typed field versus the inlined type' is exercised where the model says the meaning is the same)
    "MetaData M { zchar[8] Account, u16 MsgType, char[4] S, Account Alias, string N, } root packet Order { MsgType, Account, repeat Account Others, S s1, "
    "repeat S ss, Alias al, N, repeat N ns, G { Account, S, }, }",
    "options { FixedStringPadFromLeft = true; } packet B { char[4] x, } root packet A { u8 k, match k as m { 1 : B }, }",
    "packet B { u8 x, } root packet A { u8 k, match k as m { [1, \"a\", 2] : B }, }",
    "MetaData M { char[4] S, zchar[6] Z, S T, } packet B { @leftPad('0') S a, S b, T c, Z d, @rightPad(' ') Z e, } "
    "root packet A { u16 len @lengthOf(body), u8 k, match k as body { 1 : B }, u32 crc @calculatedFrom(\"CRC32\"), }",
    "options { StringPrefixLenType = u8; ArrayPrefixLenType = u32; LittleEndian = true; } MetaData M { string Name, uint16 Id, } "
    "packet B { Name, repeat Id ids, G { char[] s, float64 f, }, } root packet A { uint32 len @lengthOf(b), B b, }",
]


def collect(seed, n):
    """[(kind, bytes, extra)] : the texts of one run."""
    import random
    import vprogs
    rng = random.Random(seed * 7919 + 13)
    out = []
    if os.environ.get("VERIF_REPLAY_DSL"):
        # ./check <ID> --replay <file>: the replay's text only (with the hand-made witnesses, which are cheap)
        return [("replay", os.environ["VERIF_REPLAY_DSL"].encode("utf-8"), None)] + [("witness", w.encode("utf-8"), None) for w in WITNESSES], [], rng
    n_texts = n // 4
    items, _ = texts.generate(seed, n_texts)
    out.extend((k, d, None) for k, d in items)
    out.extend(("witness", w.encode("utf-8"), None) for w in WITNESSES)
    g = vprogs.Gen(rng)
    n_prog = max(20, n // 10)
    bases = []
    for i in range(n_prog):
        pr = g.program(risky=(i % 2 == 1))
        out.append(("prog:risky" if i % 2 == 1 else "prog", vprogs.render(pr, rng).encode("utf-8"), {"prog": pr}))
        if i % 2 == 0:
            bases.append(pr)
    room = n - len(out)
    while room > 0:
        pr = g.program(risky=rng.random() < 0.3)
        if len(vprogs.render(pr)) > 1500:
            continue
        fl = vprogs.faults(pr, rng)
        out.append(("prog:fault-base", vprogs.render(pr, rng).encode("utf-8"), {"prog": pr}))
        if len(fl) > room:
            rng.shuffle(fl)
            fl = fl[:room]
        for cls, site, p in fl:
            out.append(("sem:" + cls, vprogs.render(p, rng).encode("utf-8"), {"site": site}))
        room -= len(fl) + 1
    return out, bases, rng


def unescape(s):
    return re.sub(r"\\x([0-9a-f]{2})", lambda m: chr(int(m.group(1), 16)), s).encode("latin-1")


def relayout(toks, rng):
    """The same tokens with other whitespace and comments."""
    out = []
    for t in toks:
        out.append(t)
        out.append(rng.choice([" ", "  ", "\n", "\t", " // c\n", "\r\n", "\n\n    ", " //\n"]))
    return "".join(out).encode("utf-8")


class Case:
    def __init__(self, cid, kind, data, extra=None):
        self.id, self.kind, self.data, self.extra = cid, kind, data, extra
        self.group = cid


def real_side(hook, c):
    cls, runes, lx, ps = texts.classify(hook, c.data)
    c.cls = cls
    c.text = tree.runes_text(runes)
    c.visit = hook.ask({"op": "visit", "text": c.text})
    c.pt = None
    if cls == "valid":
        toks = tree.lex_tokens(lx, runes)
        c.pt = tree.translate(ps, toks)
        c.tokens = [t[1] for t in toks if not t[4] and t[0] != tree.T_EOF]
    c.real = renumber(c_outcome(c.visit))


def big_length(m):
    """A fixed-string length that cannot be written as a nat literal."""
    found = []

    def at(a):
        if a and a.get("kind") == "fixed" and a["length"] > 100000:
            found.append(1)
        if a and a.get("kind") == "object" and a.get("inline"):
            pk(a["inline"])
        if a and a.get("kind") == "match" and a.get("key_attr"):
            at(a["key_attr"])

    def pk(p):
        if p.get("too_deep"):
            found.append(1)      # the hook's dump stops at depth 64: no g_model term
            return
        for f in p["fields"]:
            at(f["attr"])

    for p in m["packets"]:
        pk(p)
    return bool(found)


def for_g_model(x):
    """core.g_model takes strings as byte strings (latin-1) and packets_map_keys as a list."""
    if isinstance(x, dict):
        d = {k: for_g_model(v) for k, v in x.items()}
        if "packets_map_keys" in d and d["packets_map_keys"] is None:
            d["packets_map_keys"] = []
        return d
    if isinstance(x, list):
        return [for_g_model(v) for v in x]
    if isinstance(x, str):
        return x.encode("utf-8").decode("latin-1")
    return x


def shard_body(cases, pairs):
    defs, evals, bevals = [], [], []
    for c in cases:
        defs.append("Definition t%d : pt := %s.\n" % (c.id, c.pt.gallina()))
        evals.append('Eval vm_compute in ("<<<V%d>>>" ++ show_outcome (visit t%d)).\n' % (c.id, c.id))
        evals.append('Eval vm_compute in ("<<<F%d>>>" ++ show_faults (faults t%d)).\n' % (c.id, c.id))
        evals.append('Eval vm_compute in ("<<<N%d>>>" ++ T_ (nopanic_frag t%d)).\n' % (c.id, c.id))
        m = c.visit.get("model")
        if m is not None and not big_length(m):
            bevals.append('Eval vm_compute in ("<<<B%d>>>" ++ T_ (match visit t%d with VOk r => bmodel_eqb (to_bmodel r) %s | VPanic _ => false end)).\n'
                          % (c.id, c.id, core.g_model(for_g_model(m), {})))
    for a, b, name in pairs:
        evals.append('Eval vm_compute in ("<<<S%d_%d>>>" ++ T_ (same_meaning_o (visit t%d) (visit t%d))).\n' % (a.id, b.id, a.id, b.id))
        if name in REWRITES:
            evals.append('Eval vm_compute in ("<<<K%d_%d>>>" ++ T_ (same_tokens (rw_%s t%d) t%d)).\n' % (a.id, b.id, name, a.id, b.id))
        else:
            evals.append('Eval vm_compute in ("<<<K%d_%d>>>" ++ T_ (same_tokens t%d t%d)).\n' % (a.id, b.id, a.id, b.id))
    return SHOW_FAULTS + "".join(defs) + "".join(evals) + "Import FP.BModel.\n" + "".join(bevals)


SHOW_FAULTS = """Definition sh_fault (f : fault) (acc : string) : string := fault_kind_name (fst f) ++ "@" ++ sh_nat (snd f) acc.
Definition show_faults (l : list fault) : string := sh_brack sh_fault l "".
"""

REWRITES = ["alias_short", "alias_long", "alias_long_opts", "zchar", "drop_default_pad", "add_default_pad", "prefix_attr",
            "default_options", "expand_keys", "inline_meta", "seps_all", "seps_none", "drop_docs"]


def parse_faults(s):
    s = s.strip()[1:-1].strip()
    if not s:
        return []
    out = []
    for x in s.split(" "):
        k, l = x.split("@")
        out.append((k, int(l)))
    return out


def run_coq(name, bodies, jobs):
    got, errs = {}, []
    with concurrent.futures.ThreadPoolExecutor(max_workers=jobs) as ex:
        for nm, rc, res, err in ex.map(run_shard, [("%s_%d" % (name, k), b) for k, b in enumerate(bodies)]):
            if rc != 0:
                errs.append("%s: coqc failed (rc %s): %s" % (nm, rc, err[-1500:]))
            got.update(res)
    return got, errs


def gen_outputs(hook, text):
    r = hook.ask({"op": "gen", "text": text, "langs": LANGS})
    if r.get("fatal") or r.get("syntax_error") or r.get("rejected") or r.get("cyclic") or "panic" in r:
        return None, r
    if "model" in r and core.name_collision(hook, r["model"]):
        return None, r
    files = {}
    for st in r.get("steps") or []:
        if "files" not in st:
            return None, r
        files[st["lang"]] = st["files"]
    return files, r


def cli_compile(c, workdir):
    """Run the real CLI (cmd/compile.go) on the text: (exit code, stdout bytes, stderr bytes, number of files written)."""
    import shutil
    d = os.path.join(workdir, "c%d" % c.id)
    shutil.rmtree(d, ignore_errors=True)
    os.makedirs(d)
    src = os.path.join(d, "in.dsl")
    with open(src, "wb") as fh:
        fh.write(c.text.encode("utf-8"))
    cmd = [os.path.join(core.BUILD, "fin-protoc"), "compile", "-f", src]
    for flag, sub in (("-l", "lua"), ("-r", "rust"), ("-g", "go"), ("-j", "java"), ("-p", "py"), ("-c", "cpp")):
        cmd += [flag, os.path.join(d, "out_" + sub)]
    try:
        r = subprocess.run(["timeout", "60"] + cmd, stdout=subprocess.PIPE, stderr=subprocess.PIPE, cwd=d)
        rc, out, err = r.returncode, r.stdout, r.stderr
    except Exception as e:  # pragma: no cover
        rc, out, err = -1, b"", str(e).encode()
    nfiles = 0
    for root, dirs, files in os.walk(d):
        nfiles += len([f for f in files if os.path.join(root, f) != src])
    shutil.rmtree(d, ignore_errors=True)
    return rc, out, err, nfiles


def cli_check(cases, rng, limit, mismatches, counters):
    """The compile entry point of the CLI against the hook's view, on a sample of the texts: a rejected text exits non-zero,
    prints exactly the hook's diagnostics (line, column, message) and writes no file; a text on which the visitor panics dies
    with a Go panic and writes no file; a text with syntax errors exits non-zero without files."""
    workdir = os.path.join(core.BUILD, "vis_cli")
    by = {"rejected": [], "panic": [], "syntax": [], "accepted": []}
    for c in cases:
        v = c.visit
        if "panic" in v:
            by["panic"].append(c)
        elif v.get("syntax_error"):
            by["syntax"].append(c)
        elif "model" in v:
            by["rejected" if v["model"]["errors"] else "accepted"].append(c)
    for kind, cs in by.items():
        rng.shuffle(cs)
        for c in cs[:limit]:
            if len(c.data) > 20000:
                continue
            rc, out, err, nfiles = cli_compile(c, workdir)
            counters["cli " + kind] += 1
            if kind == "rejected":
                want = [("Syntax error at line %d, column %d: %s" % (e["line"], e["col"], e["msg"])).encode("utf-8") for e in c.visit["model"]["errors"]]
                got = [l for l in out.split(b"\n") if l.startswith(b"Syntax error at line ")]
                if rc == 0 or nfiles or got != want:
                    mismatches.append((c.id, "cli", "rejected text: exit %s, %d files, diagnostics %r, the hook has %r" % (rc, nfiles, got[:3], want[:3])))
            elif kind == "panic":
                if rc == 0 or nfiles or b"panic:" not in err:
                    mismatches.append((c.id, "cli", "the hook's visitor panics; CLI: exit %s, %d files, stderr %r" % (rc, nfiles, err[:200])))
            elif kind == "syntax":
                if rc == 0 or nfiles:
                    mismatches.append((c.id, "cli", "syntax errors; CLI: exit %s, %d files" % (rc, nfiles)))
            else:
                if b"Syntax error at line " in out:
                    mismatches.append((c.id, "cli", "accepted by the hook, the CLI prints diagnostics: %r" % out[:200]))
                if rc == 0:
                    counters["cli accepted and generated"] += 1


def strip_lines(x):
    """A dump without line/column numbers and identity numbers (for the locality check)."""
    if isinstance(x, dict):
        return {k: strip_lines(v) for k, v in x.items() if k not in ("line", "col", "id")}
    if isinstance(x, list):
        return [strip_lines(v) for v in x]
    return x


def field_table(m):
    """path -> dump of the field (without lines), for every field of every packet, inline ones included; and the MetaData entries."""
    out = {}

    def pk(p, path):
        for i, f in enumerate(p["fields"]):
            a = f["attr"]
            inl = a.get("inline") if a and a.get("kind") == "object" else None
            g = dict(f)
            if inl is not None:
                g["attr"] = dict(a, inline=None)
                pk(inl, path + (f["name"], i))
            out[path + (f["name"], i)] = strip_lines(g)

    for p in m["packets"]:
        pk(p, (p["name"],))
    for x in m["metas"]:
        out[("MetaData", x["name"])] = strip_lines(x)
    return out


def first_diff(a, b):
    i = 0
    while i < min(len(a), len(b)) and a[i] == b[i]:
        i += 1
    return "at %d: model ...%s   real ...%s" % (i, a[max(0, i - 60):i + 100], b[max(0, i - 60):i + 100])


def excerpt(data, limit=400):
    s = repr(data)
    return s if len(s) <= limit else s[:limit] + "...(%d bytes)" % len(data)


def main():
    ap = argparse.ArgumentParser()
    ap.add_argument("--seed", type=int, default=1)
    ap.add_argument("--n", type=int, default=2600)
    ap.add_argument("--bases", type=int, default=40, help="well-formed programs taken through the C08 rewrites")
    ap.add_argument("--jobs", type=int, default=16)
    ap.add_argument("--cli", type=int, default=12, help="texts per outcome class that are also run through the real CLI")
    ap.add_argument("--max-report", type=int, default=20)
    ap.add_argument("--no-make", action="store_true")
    a = ap.parse_args()
    import random
    import vprogs
    tm = core.Timer()
    core.build_binaries()
    if not a.no_make:
        ok, out = core.coq_make()
        if not ok:
            print(out[-3000:])
            print("FAIL: the Coq development does not build")
            return 2
    mismatches = []          # (case id / name, what, message)
    deviations = collections.Counter()
    examples = {}
    full_text = {}

    devlist = []             # (class, case, disagree: None = decide from the mismatches of the case)

    def dev(d, c, disagree=None):
        devlist.append((d, c, disagree))

    def settle_deviations():
        """A recorded finding is behaviour the faithful model REPRODUCES: a deviation on a text on which
        the real code disagrees with the model (in the respect that matters for the class) is tagged
        ':model-disagrees' and can never match a recorded class."""
        bad = set(m[0] for m in mismatches if m[1] in ("visit", "model", "to_bmodel", "nopanic_frag"))
        for d, c, disagree in devlist:
            if disagree is None:
                disagree = isinstance(c, Case) and c.id in bad
            if disagree:
                d += ":model-disagrees"
            deviations[d] += 1
            examples.setdefault(d, excerpt(c.data if isinstance(c, Case) else c, 300))
            data = c.data if isinstance(c, Case) else c
            if isinstance(data, bytes):
                data = data.decode("utf-8", "replace")
            if isinstance(data, str) and (d not in full_text or len(data) < len(full_text[d])):
                full_text[d] = data

    raw, bases, rng = collect(a.seed, a.n)
    cases = [Case(i, k, d, e) for i, (k, d, e) in enumerate(raw)]
    hook = core.Hook()
    for c in cases:
        real_side(hook, c)

    # ---------------------------------------------------------------- C08, stage 1: the rewritten texts from the model
    c08_bases = []
    for c in cases:
        if c.kind == "prog" and c.cls == "valid" and "model" in c.visit and not c.visit["model"]["errors"]:
            files, r = gen_outputs(hook, c.text)
            if files is None:
                continue
            c.files = files
            c08_bases.append(c)
        if len(c08_bases) >= a.bases:
            break
    for s in [("prog:extra", x.encode("utf-8")) for x in C08_EXTRA] + texts.samples(core.REPO)[::3]:
        c = Case(len(cases), s[0], s[1])
        real_side(hook, c)
        cases.append(c)
        if c.cls == "valid" and "model" in c.visit and not c.visit["model"]["errors"]:
            files, r = gen_outputs(hook, c.text)
            if files is not None:
                c.files = files
                c08_bases.append(c)
    bodies = []
    for k in range(a.jobs):
        b = []
        for c in c08_bases[k::a.jobs]:
            b.append("Definition t%d : pt := %s.\n" % (c.id, c.pt.gallina()))
            for name in REWRITES:
                b.append('Eval vm_compute in ("<<<W%d_%s>>>" ++ sh_escaped (render (rw_%s t%d)) "").\n' % (c.id, name, name, c.id))
        bodies.append("".join(b))
    got1, errs = run_coq("vis_s%d_rw" % a.seed, bodies, a.jobs)
    for e in errs:
        mismatches.append(("stage1", "coqc", e))
    pairs = []               # (base case, variant case, rewrite name)
    c08_noop = collections.Counter()
    for c in c08_bases:
        base_text = " ".join(c.tokens)
        variants = [("layout", relayout(c.tokens, rng))]
        for name in REWRITES:
            w = got1.get("W%d_%s" % (c.id, name))
            if w is None:
                mismatches.append((c.id, "stage1", "no rewritten text for %s" % name))
                continue
            data = unescape(w)
            if data.decode("utf-8") == base_text:
                c08_noop[name] += 1
                continue
            variants.append((name, data))
        for name, data in variants:
            v = Case(len(cases), "c08:" + name, data)
            v.group = c.id
            real_side(hook, v)
            cases.append(v)
            pairs.append((c, v, name))

    # ---------------------------------------------------------------- attribute locality (real dumps)
    locality = {"checked": 0, "leaks": 0}
    for c in c08_bases:
        pr = (c.extra or {}).get("prog")
        if pr is None:
            continue
        base_tab = field_table(c.visit["model"])
        for pi, pk in enumerate(vprogs.packets_of(pr)):
            for fi, f in enumerate(pk["fields"]):
                for ai, at in enumerate(f.get("attrs", [])):
                    if at[0] == "@lengthOf(":
                        continue
                    p2 = vprogs.clone(pr)
                    del vprogs.packets_of(p2)[pi]["fields"][fi]["attrs"][ai]
                    v = Case(len(cases), "c08:drop-attr", vprogs.render(p2).encode("utf-8"))
                    real_side(hook, v)
                    cases.append(v)
                    if "model" not in v.visit:
                        dev("C08:attr-removal:not-ok", v)
                        continue
                    locality["checked"] += 1
                    tab = field_table(v.visit["model"])
                    site = (pk["name"], vprogs.field_name(f), fi)
                    changed = [k for k in base_tab if tab.get(k) != base_tab[k]] + [k for k in tab if k not in base_tab]
                    others = [k for k in changed if k != site]
                    if others:
                        locality["leaks"] += 1
                        site_attr = (base_tab.get(site) or {}).get("attr") or {}
                        shared = site_attr.get("kind") == "fixed" and f["k"] == "obj" and at[0].endswith("Pad") and all(
                            ((base_tab.get(k) or {}).get("attr") or {}).get("kind") == "fixed" for k in others)
                        dev("C08:attr-leak:shared-metadata-fixed" if shared else "C08:attr-leak:other", v)

    # ---------------------------------------------------------------- stage 2: the model on every parsed text
    valid = [c for c in cases if c.pt is not None]
    groups = collections.OrderedDict()
    for c in valid:
        groups.setdefault(c.group, []).append(c)
    nsh = max(a.jobs, min(64, len(valid) // 40 + 1))
    shard_cases = [[] for _ in range(nsh)]
    shard_pairs = [[] for _ in range(nsh)]
    where = {}
    order = sorted(groups.values(), key=lambda g: -sum(len(x.data) for x in g))
    load = [0] * nsh
    for g in order:
        k = load.index(min(load))
        for c in g:
            shard_cases[k].append(c)
            where[c.id] = k
        load[k] += sum(len(x.data) for x in g) + 200 * len(g)
    for p in pairs:
        if p[0].pt is not None and p[1].pt is not None:
            shard_pairs[where[p[0].id]].append(p)
    t_real = tm.s()
    got, errs = run_coq("vis_s%d" % a.seed, [shard_body(sc, sp) for sc, sp in zip(shard_cases, shard_pairs)], a.jobs)
    for e in errs:
        mismatches.append(("stage2", "coqc", e))
    hook_crashes = hook.crashes

    # ---------------------------------------------------------------- correspondence
    n_cmp = 0
    model_text = {}
    outcome_count = collections.Counter()
    for c in valid:
        m = got.get("V%d" % c.id)
        if m is None:
            mismatches.append((c.id, "model", "no result from coqc  %s" % excerpt(c.data)))
            continue
        n_cmp += 1
        m = renumber(m)
        model_text[c.id] = m
        outcome_count[c.real.split(" ")[0] + (" " + SITE_SHORT.get(c.real[6:], c.real[6:]) if c.real.startswith("PANIC") else "")] += 1
        if "(too-deep)" in c.real:
            # the hook's dump is cut at nesting depth 64: only the outcome kind can be compared
            if m.split(" ")[0] != c.real.split(" ")[0]:
                mismatches.append((c.id, "visit", "%s: model %s, real %s" % (excerpt(c.data), m[:40], c.real[:40])))
        elif m != c.real:
            mismatches.append((c.id, "visit", "%s (%s)\n    %s" % (excerpt(c.data), c.kind, first_diff(m, c.real))))
        b = got.get("B%d" % c.id)
        if b is not None and b != "T":
            mismatches.append((c.id, "to_bmodel", "to_bmodel differs from core.g_model's view  %s" % excerpt(c.data)))
        if b is None and "model" in c.visit and not big_length(c.visit["model"]):
            mismatches.append((c.id, "to_bmodel", "no result from coqc  %s" % excerpt(c.data)))

    # ---------------------------------------------------------------- C12
    c12 = collections.Counter()
    for c in valid:
        f = got.get("F%d" % c.id)
        if f is None:
            continue
        spec = parse_faults(f)
        c12["texts"] += 1
        c12["faults"] += len(spec)
        devs = classify_c12(spec, c.visit)
        mtxt = model_text.get(c.id)
        devs_model = classify_c12(spec, resp_of_canon(mtxt)) if mtxt is not None else []
        if not spec:
            c12["well-formed"] += 1
            if not devs:
                c12["well-formed accepted"] += 1
        if c.kind.startswith("prog") and c.kind != "prog:risky" and spec:
            mismatches.append((c.id, "generator", "the well-formed generator produced a program with faults %s  %s" % (spec, excerpt(c.data))))
        if c.kind.startswith("sem:") and "(valid" not in c.kind and not spec and c.kind[4:] in (
                "dup-packet", "dup-meta", "dup-option", "dup-field", "dup-match-key", "second-root", "unknown-option",
                "length-outside-root", "second-length", "undeclared-packet", "undeclared-match-key", "undeclared-length-target"):
            mismatches.append((c.id, "spec", "fault injection %s (%s) is not seen by `faults`  %s" % (c.kind, (c.extra or {}).get("site"), excerpt(c.data))))
        left_m = list(devs_model)
        for d in devs:
            if d in left_m:
                left_m.remove(d)
                dev(d, c, False)
            else:
                dev(d, c, True)          # the model does not show this deviation on this text
        if not devs:
            c12["conforming"] += 1

    # ---------------------------------------------------------------- C11
    c11 = collections.Counter()
    for c in cases:
        c11["texts"] += 1
        v = c.visit
        if v.get("fatal"):
            dev("C11:fatal", c)
        elif "panic" in v:
            c11["panics"] += 1
            dev("C11:panic:" + SITE_SHORT.get((v.get("frames") or ["?"])[0], (v.get("frames") or ["?"])[0]), c)
        elif v.get("syntax_error"):
            c11["syntax diagnostics"] += 1
        else:
            c11["visited"] += 1
        if c.pt is not None:
            nf = got.get("N%d" % c.id)
            if nf == "T":
                c11["in nopanic_frag"] += 1
                if "panic" in v or v.get("fatal"):
                    mismatches.append((c.id, "nopanic_frag", "a text inside the fragment panics  %s" % excerpt(c.data)))
            elif nf == "F":
                c11["outside nopanic_frag"] += 1
                if "panic" not in v:
                    c11["outside the fragment, no panic"] += 1

    # ---------------------------------------------------------------- C08
    c08 = collections.Counter()
    for base, v, name in pairs:
        c08["pairs"] += 1
        c08["pairs:" + name] += 1
        if v.pt is None:
            mismatches.append((v.id, "c08", "the rewritten text (%s) does not parse: %s" % (name, excerpt(v.data))))
            continue
        if v.tokens != v.data.decode("utf-8").split() and name != "layout":
            pass
        k = got.get("K%d_%d" % (base.id, v.id))
        s = got.get("S%d_%d" % (base.id, v.id))
        if k != "T":
            mismatches.append((v.id, "c08", "rewrite %s: the tree of the rewritten text is not the model's rewritten tree (%s)  %s" % (name, k, excerpt(v.data))))
        if "model" not in v.visit or v.visit["model"]["errors"]:
            dev("C08:%s:rejected" % name, v, s != "F")
            if s != "F":
                mismatches.append((v.id, "c08", "rewrite %s: real visitor rejects, same_meaning = %s" % (name, s)))
            continue
        files, r = gen_outputs(hook, v.text)
        if files is None:
            dev("C08:%s:generator-failure" % name, v)
            continue
        diff = [l for l in LANGS if files.get(l) != base.files.get(l)]
        if diff and s == "T":
            dev("C08:%s:outputs-differ-model-same:%s" % (name, "+".join(diff)), v)
        elif diff:
            dev("C08:%s:outputs-differ:%s" % (name, "+".join(diff)), v)
        elif s != "T":
            dev("C08:%s:model-differs-outputs-same" % name, v)
        else:
            c08["same"] += 1
    hook.close()
    cli = collections.Counter()
    cli_check(cases, rng, a.cli, mismatches, cli)

    # ---------------------------------------------------------------- report
    settle_deviations()
    kinds = collections.Counter(c.kind.split(":")[0] + (":" + c.kind.split(":")[1] if c.kind.startswith(("sem:", "c08:")) else "") for c in cases)
    new = sorted(d for d in deviations if not is_known(d))
    print("seed %d  texts %d  parsed and given to the model %d  compared %d  (real side %.1fs, total %.1fs)" % (
        a.seed, len(cases), len(valid), n_cmp, t_real, tm.s()))
    print("kinds: " + ", ".join("%s %d" % kv for kv in sorted(kinds.items())))
    print("outcomes (real): " + ", ".join("%s %d" % kv for kv in sorted(outcome_count.items())))
    print("C12: " + ", ".join("%s %d" % kv for kv in sorted(c12.items())))
    print("C11: " + ", ".join("%s %d" % kv for kv in sorted(c11.items())) + ", hook crashes %d" % hook_crashes)
    print("C08: " + ", ".join("%s %d" % kv for kv in sorted(c08.items())) + "; rewrites without effect: " +
          ", ".join("%s %d" % kv for kv in sorted(c08_noop.items())) + "; locality: %d attribute removals, %d with a leak" % (
              locality["checked"], locality["leaks"]))
    print("CLI (cmd/compile.go) against the hook: " + ", ".join("%s %d" % kv for kv in sorted(cli.items())))
    print("observed deviations from the properties (class: count):")
    for d in sorted(deviations):
        print("  %s %-60s %5d   e.g. %s" % ("known" if is_known(d) else "NEW  ", d, deviations[d], examples[d][:160]))
    print("finding classes observed in this run:")
    for k in KNOWN:
        n_k = sum(v for d, v in deviations.items() if d == k or fnmatch.fnmatchcase(d, k))
        if n_k:
            print("  [%s] x%d: %s" % (k, n_k, KNOWN[k]))
    for d in new:
        print("NEW-DEVIATION %s (%d)  e.g. %s" % (d, deviations[d], examples[d]))
    for cid, what, msg in mismatches[:a.max_report]:
        print("MISMATCH [%s] text %s: %s" % (what, cid, msg))
    print("mismatches: %d   new deviations: %d" % (len(mismatches), len(new)))
    report = {"seed": a.seed, "texts": len(cases), "compared": n_cmp, "kinds": kinds, "outcomes": outcome_count, "C12": c12, "C11": c11,
              "C08": c08, "c08_noop": c08_noop, "locality": locality, "cli": cli,
              "deviations": {d: {"count": deviations[d], "known": is_known(d), "example": examples[d], "text": full_text.get(d),
                                 "description": next((KNOWN[k] for k in KNOWN if d == k or __import__("fnmatch").fnmatchcase(d, k)), None)}
                             for d in sorted(deviations)},
              "mismatches": [{"text": cid, "what": what, "msg": msg} for cid, what, msg in mismatches[:200]],
              "n_mismatches": len(mismatches), "new_deviations": new, "known": KNOWN}
    os.makedirs(core.BUILD, exist_ok=True)
    with open(os.path.join(core.BUILD, "visitor_report.json"), "w") as fh:
        json.dump(report, fh, indent=1, sort_keys=True)
    return 0 if not mismatches and not new else 1


if __name__ == "__main__":
    sys.exit(main())
