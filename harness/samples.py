"""Boundary messages for a packet of a model dump (Python side), printed as Gallina `value`s."""
import random
from core import b64bytes

W = {"u8": 1, "i8": 1, "u16": 2, "i16": 2, "u32": 4, "i32": 4, "f32": 4, "u64": 8, "i64": 8, "f64": 8, "char": 1,
     "uint8": 1, "int8": 1, "uint16": 2, "int16": 2, "uint32": 4, "int32": 4, "float32": 4, "uint64": 8, "int64": 8,
     "float64": 8}
MODES = ["min", "mid", "max", "long"]


def width(t):
    return W.get(t.lower(), None)


def g_value(v):
    k = v[0]
    if k == "I":
        return "(VInt %d)" % v[1]
    if k == "S":
        return "(VStr [%s])" % ";".join(str(b) for b in v[1])
    if k == "L":
        return "(VList [%s])" % "; ".join(g_value(x) for x in v[1])
    if k == "O":
        return "(VObj [%s])" % "; ".join(g_value(x) for x in v[1])
    if k == "D":
        return '(VDyn "%s" %s)' % (v[1], g_value(v[2]))
    raise ValueError(k)


def j_value(v):
    k = v[0]
    if k == "I":
        return v[1]
    if k == "S":
        return {"bytes": bytes(v[1]).hex()}
    if k == "L":
        return [j_value(x) for x in v[1]]
    if k == "O":
        return {"fields": [j_value(x) for x in v[1]]}
    if k == "D":
        return {"packet": v[1], "payload": j_value(v[2])}


class Sampler:
    def __init__(self, model, seed=0):
        self.m = model
        self.rng = random.Random(seed)
        self.top = {p["name"]: p for p in model["packets"]}
        c = model["config"]
        self.cfg_pad = None
        if c["padding"] is not None:
            ch = b64bytes(c["padding"]["char"])
            self.cfg_pad = (ch, c["padding"]["left"])
        self.sw = width(c["str"]) or 2
        self.lw = width(c["list"]) or 2

    def pad_byte(self, a):
        p = a.get("padding")
        ch = None
        if p is not None:
            ch = b64bytes(p["char"])
        elif self.cfg_pad is not None:
            ch = self.cfg_pad[0]
        if ch is None:
            return 32
        if len(ch) == 3:
            return ord(ch[1])
        return 32

    def scalar(self, w, mode):
        if mode == "min":
            return 0
        if mode == "max":
            return 256 ** w - 1
        if mode == "mid":
            return 256 ** w // 2
        return self.rng.randrange(256 ** w)

    def fixed(self, a, mode):
        n = a["length"]
        pb = self.pad_byte(a)
        fill = 81 if pb != 81 else 82           # 'Q' / 'R'
        if mode == "min" or n == 0:
            return []
        if mode == "max":
            return [fill] * n
        if mode == "mid":
            return [65 if pb != 65 else 66]
        s = list("é".encode("utf-8")) if n >= 2 else [fill]
        return s

    def dyn(self, mode):
        cap = 256 ** self.sw - 1
        if mode == "min":
            return []
        if mode == "mid":
            return list(b"hello")[:cap]
        if mode == "max":
            return [120] * min(130, cap)
        return list("héllo wörld €".encode("utf-8"))[:cap]

    def elem(self, a, mode, depth):
        k = a["kind"]
        if k == "basic":
            w = width(a["type"])
            return ("I", self.scalar(w or 1, mode))
        if k == "fixed":
            return ("S", self.fixed(a, mode))
        if k == "dyn":
            return ("S", self.dyn(mode))
        if k == "object":
            q = a.get("inline") if a["iner"] else self.top.get(a["ref"])
            if q is None or depth > 6:
                return ("O", [])
            return self.packet(q, mode, depth + 1, 0)
        return ("I", 0)

    def packet(self, p, mode, depth=0, alt=0):
        vals = []
        overrides = {}
        for f in p["fields"]:
            a = f["attr"]
            if a is None:
                vals.append(("I", 0))
                continue
            k = a["kind"]
            if f["repeat"]:
                cap = 256 ** self.lw - 1
                if mode == "min":
                    l = []
                elif mode == "mid":
                    l = [self.elem(a, "mid", depth)]
                elif mode == "max":
                    l = [self.elem(a, "min", depth) for _ in range(min(130, cap))]
                else:
                    l = [self.elem(a, m, depth) for m in ("mid", "max", "min")][:cap]
                vals.append(("L", l))
            elif k in ("len", "checksum"):
                t = a["lentype"] if k == "len" else a["type"]
                w = width(t) or 1
                vals.append(("I", self.scalar(w, mode) % (256 ** w)))
            elif k == "match":
                pairs = a["pairs"]
                if not pairs:
                    vals.append(("I", 0))
                    continue
                pr = pairs[alt % len(pairs)]
                q = self.top.get(pr["value"])
                pv = self.packet(q, mode, depth + 1, 0) if q is not None and depth <= 6 else ("O", [])
                vals.append(("D", pr["value"], pv))
                if a["key"] is not None:
                    overrides[a["key"]] = pr["key"]
            else:
                vals.append(self.elem(a, mode, depth))
        for i, f in enumerate(p["fields"]):
            if f["name"] in overrides:
                lit = overrides[f["name"]]
                if lit.startswith('"'):
                    vals[i] = ("S", list(lit[1:-1].encode("utf-8")))
                else:
                    vals[i] = ("I", int(lit))
        return ("O", vals)

    def messages(self, p):
        """[(label, value)]: every mode; every alternative of each match field in 'mid' mode."""
        out = []
        for mode in MODES:
            out.append((mode, self.packet(p, mode)))
        nalt = 0
        for f in p["fields"]:
            a = f["attr"]
            if a and a["kind"] == "match":
                nalt = max(nalt, len(a["pairs"]))
        for alt in range(1, nalt):
            out.append(("alt%d" % alt, self.packet(p, "mid", 0, alt)))
        return out
