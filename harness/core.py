"""Shared harness plumbing: paths, hook build/run, Coq build/run, Gallina printers."""
import hashlib
import json
import os
import re
import subprocess
import sys
import time

VERIF = os.path.dirname(os.path.dirname(os.path.abspath(__file__)))
REPO = os.environ.get("VERIF_REPO", "/repo")
BUILD = os.path.join(VERIF, ".build")
COQ = os.path.join(VERIF, "coq")
GOENV = dict(os.environ, GOFLAGS="-mod=mod", GOPROXY="off", GOCACHE=os.path.join(BUILD, "gocache"))
for k in ("GOSUMDB", "GOTOOLCHAIN"):
    GOENV.pop(k, None)


def log(*a):
    print(*a, file=sys.stderr, flush=True)


def name_collision(hook, model):
    """True when two packets of the model get one output file name (strcase.ToSnake collides, e.g.
    FooBar / foo_bar): the recorded C13 finding 'file-name-collision' makes the Go, Rust and Java
    output of such a program depend on map iteration order, so it cannot be compared with anything."""
    try:
        pk = [p["name"] for p in (model.get("packets") or [])]
        if len(pk) < 2:
            return False
        nm = hook.ask({"op": "names", "idents": pk})["names"]
        return len(set(nm[x][2] for x in pk)) != len(pk)
    except Exception:
        return False


def repo_fingerprint():
    """SHA-256 over every Go, module and grammar file of the working tree."""
    h = hashlib.sha256()
    for root, dirs, files in os.walk(REPO):
        dirs[:] = sorted(d for d in dirs if d not in (".git", "chat"))
        for f in sorted(files):
            if f.endswith((".go", ".mod", ".sum", ".g4", ".tokens", ".interp", ".h", ".c")):
                p = os.path.join(root, f)
                h.update(p.encode())
                with open(p, "rb") as fh:
                    h.update(fh.read())
    return h.hexdigest()


def run(cmd, **kw):
    kw.setdefault("stdout", subprocess.PIPE)
    kw.setdefault("stderr", subprocess.STDOUT)
    kw.setdefault("text", True)
    return subprocess.run(cmd, **kw)


def build_binaries(want_cli=True, want_lib=False):
    """Build the hook (tag verif) and the plain CLI from /repo's working tree. Cached by fingerprint."""
    os.makedirs(BUILD, exist_ok=True)
    fp = repo_fingerprint()
    out = {"fingerprint": fp}
    stamp = os.path.join(BUILD, "built.json")
    old = {}
    if os.path.exists(stamp):
        try:
            old = json.load(open(stamp))
        except Exception:
            old = {}
    targets = [("hook", ["go", "build", "-tags", "verif", "-o", os.path.join(BUILD, "verifhook"), "./internal/verifhook"])]
    if want_cli:
        targets.append(("cli", ["go", "build", "-o", os.path.join(BUILD, "fin-protoc"), "./cmd"]))
    if want_lib:
        targets.append(("lib", ["go", "build", "-buildmode=c-shared", "-o", os.path.join(BUILD, "libpacketdsl.so"), "./cmd"]))
    built = old.get("built", {}) if old.get("fingerprint") == fp else {}
    for name, cmd in targets:
        if built.get(name) and os.path.exists(cmd[cmd.index("-o") + 1]):
            continue
        r = run(cmd, cwd=REPO, env=GOENV)
        if r.returncode != 0:
            raise BuildError(name, r.stdout)
        built[name] = True
    json.dump({"fingerprint": fp, "built": built}, open(stamp, "w"))
    return out


class BuildError(Exception):
    def __init__(self, what, output):
        super().__init__("build of %s failed:\n%s" % (what, output))
        self.what = what
        self.output = output


class Hook:
    """One verifhook process; requests are answered in order on fd 3."""

    def __init__(self):
        self.proc = None
        self.crashes = 0

    def start(self):
        r, w = os.pipe()
        tmp = os.path.join(BUILD, "hooktmp")
        os.makedirs(tmp, exist_ok=True)
        env = dict(os.environ, VERIFHOOK_TMP=tmp)

        def pre():
            os.dup2(w, 3)
            # a hostile input (char[4294967296]) makes the generators build multi-gigabyte strings:
            # bound the address space so that the process dies instead of the machine
            import resource
            lim = int(os.environ.get("VERIF_HOOK_MEM", str(6 << 30)))
            resource.setrlimit(resource.RLIMIT_AS, (lim, lim))

        self.proc = subprocess.Popen([os.path.join(BUILD, "verifhook")], stdin=subprocess.PIPE, stdout=subprocess.DEVNULL,
                                     stderr=subprocess.DEVNULL, preexec_fn=pre, close_fds=False, env=env)
        os.close(w)
        self.resp = os.fdopen(r, "r", encoding="utf-8", errors="surrogateescape")

    def ask(self, req):
        if self.proc is None or self.proc.poll() is not None:
            self.start()
        try:
            self.proc.stdin.write((json.dumps(req) + "\n").encode())
            self.proc.stdin.flush()
            import select
            r, _, _ = select.select([self.resp], [], [], float(os.environ.get("VERIF_HOOK_TIMEOUT", "60")))
            if not r:
                line = ""
                self.timeouts = getattr(self, "timeouts", 0) + 1
            else:
                line = self.resp.readline(1 << 28)
                if len(line) >= (1 << 28) - 1 and not line.endswith("\n"):
                    line = ""              # an absurdly large answer: treat as a crash of the request
        except (BrokenPipeError, OSError, MemoryError):
            line = ""
        if not line:
            # the process died (fatal error such as a stack overflow cannot be recovered)
            self.crashes += 1
            try:
                self.proc.kill()
            except Exception:
                pass
            self.proc = None
            return {"fatal": True}
        return json.loads(line)

    def close(self):
        if self.proc is not None:
            try:
                self.proc.stdin.close()
                self.proc.wait(timeout=5)
            except Exception:
                self.proc.kill()
            self.proc = None


# ------------------------------------------------------------------ Gallina printers

def g_str(s):
    """A Coq string term for an arbitrary byte/char string."""
    if isinstance(s, bytes):
        s = s.decode("latin-1")
    if all(32 <= ord(c) < 127 and c != '"' for c in s):
        return '"%s"' % s
    return "(bs [%s])" % ";".join(str(ord(c)) for c in s)


def g_bool(b):
    return "true" if b else "false"


def g_opt(x, f=lambda v: v):
    return "None" if x is None else "(Some %s)" % f(x)


def g_list(xs, f=lambda v: v):
    return "[" + "; ".join(f(x) for x in xs) + "]"


def g_nat(n):
    return "%d%%nat" % n


def b64bytes(x):
    import base64
    return base64.b64decode(x).decode("latin-1")


def g_padding(p):
    return "(mkPad %s %s)" % (g_str(b64bytes(p["char"])), g_bool(p["left"]))


def g_pairs(pairs):
    return g_list(pairs, lambda p: "(mkPair %s %s)" % (g_str(p["key"]), g_str(p["value"])))


def g_attr(a):
    if a is None:
        return "ANil"
    k = a["kind"]
    if k == "basic":
        return "(ABasic %s)" % g_str(a["type"])
    if k == "fixed":
        return "(AFixed %s %s)" % (g_nat(a["length"]), g_opt(a["padding"], g_padding))
    if k == "dyn":
        return "ADyn"
    if k == "len":
        return "(ALen %s %s)" % (g_opt(a["target"], g_str), g_str(a["lentype"]))
    if k == "checksum":
        return "(ACheck %s %s)" % (g_str(a["alg"]), g_str(a["type"]))
    if k == "object":
        return "(AObj %s %s %s %s)" % (g_bool(a["iner"]), g_str(a["pname"]), g_opt(a["ref"], g_str), g_opt(a["inline"], g_packet))
    if k == "match":
        return "(AMatch %s %s %s)" % (g_opt(a["key"], g_str), g_opt(a.get("key_attr"), g_attr_shallow), g_pairs(a["pairs"]))
    raise ValueError("attr kind " + k)


def g_attr_shallow(a):
    # key_attr of a match: its own nested key_attr (a match keyed by a match) is not followed
    if a is not None and a.get("kind") == "match":
        a = dict(a, key_attr=None)
    if a is not None and a.get("kind") == "object":
        a = dict(a, inline=None)
    return g_attr(a)


def g_field(f):
    la = f["len_attr"]
    lk = "LNone" if la is None else ("LTarget" if la["kind"] == "len" else "LLenOf")
    return "(mkField %s %s %s %s)" % (g_str(f["name"]), g_attr(f["attr"]), lk, g_bool(f["repeat"]))


def g_packet(p):
    mfs = g_list(sorted(p["match_fields"].items()), lambda kv: "(%s, %s)" % (g_str(kv[0]), g_pairs(kv[1] or [])))
    return "(mkPacket %s %s %s %s %s)" % (g_str(p["name"]), g_bool(p["is_root"]), g_opt(p["length_field"], g_str),
                                          g_list(p["fields"], g_field), mfs)


def g_model(m, names):
    c = m["config"]
    cfg = "(mkCfg %s %s %s %s %s %s %s)" % (g_str(c["list"]), g_str(c["str"]), g_str(c["java_package"]), g_str(c["go_package"]),
                                         g_str(c["go_module"]), g_bool(c["le"]), g_opt(c["padding"], g_padding))
    nm = g_list(sorted(names.items()), lambda kv: "(%s, (%s, %s, %s))" % (g_str(kv[0]), g_str(kv[1][0]), g_str(kv[1][1]), g_str(kv[1][2])))
    return "(mkModel %s %s %s %s %s)" % (cfg, g_list(m["packets"], g_packet), g_list(m["packets_map_keys"], g_str),
                                         g_opt(m["root"], g_str), nm)


def model_identifiers(m):
    """Every identifier whose case conversion a generator may take."""
    out = set()

    def pk(p):
        out.add(p["name"])
        for k in p["match_fields"]:
            out.add(k)
        for f in p["fields"]:
            out.add(f["name"])
            a = f["attr"]
            if a is None:
                continue
            if a["kind"] == "object":
                out.add(a["pname"])
                if a.get("ref"):
                    out.add(a["ref"])
                if a.get("inline"):
                    pk(a["inline"])
            if a["kind"] == "match":
                if a["key"]:
                    out.add(a["key"])
                for pr in a["pairs"]:
                    out.add(pr["value"])
            if a["kind"] == "len" and a["target"]:
                out.add(a["target"])
    for p in m["packets"]:
        pk(p)
    for t in ("i8", "i16", "i32", "i64", "u8", "u16", "u32", "u64", "f32", "f64", "char", "string", "match", "object",
              "byte", "short", "int", "long", "float", "double", "int8", "int16", "int32", "int64", "uint8", "uint16",
              "uint32", "uint64", "float32", "float64"):
        out.add(t)
    return sorted(out)


# ------------------------------------------------------------------ Coq

COQ_PRELUDE = """From FP Require Import Show Oracle Go Py Cpp Rust Java.
From Coq Require Import String List NArith.
Import ListNotations.
Open Scope string_scope.
Set Printing Width 100000000.
Set Printing Depth 100000000.
Fixpoint bs (l : list N) : string := match l with [] => EmptyString | n :: r => String (Ascii.ascii_of_N n) (bs r) end.
"""


def coq_make():
    """(Re)build the Coq development; returns (ok, output)."""
    if not os.path.exists(os.path.join(COQ, "Makefile")):
        r = run(["coq_makefile", "-f", "_CoqProject", "-o", "Makefile"], cwd=COQ)
        if r.returncode != 0:
            return False, r.stdout
    r = run(["timeout", "1500", "make", "-j16"], cwd=COQ)
    return r.returncode == 0, r.stdout


def coq_eval(name, body, prelude=COQ_PRELUDE, timeout=900):
    """Compile coq/Run/<name>.v (prelude + body) and return coqc's stdout."""
    d = os.path.join(COQ, "Run")
    os.makedirs(d, exist_ok=True)
    path = os.path.join(d, name + ".v")
    with open(path, "w", encoding="latin-1") as fh:
        fh.write(prelude + body)
    args = []
    for line in open(os.path.join(COQ, "_CoqProject")):
        line = line.strip()
        if line.startswith("-Q"):
            _, dd, ns = line.split()
            args += ["-Q", os.path.join(COQ, dd), ns]
    def big_stack():
        # vm_compute recurses on the system stack (string appends over whole files): lift the 8 MB default
        import resource
        try:
            resource.setrlimit(resource.RLIMIT_STACK, (resource.RLIM_INFINITY, resource.RLIM_INFINITY))
        except (ValueError, OSError):
            pass
    r = subprocess.run(["timeout", str(timeout), "coqc"] + args + [path], stdout=subprocess.PIPE, stderr=subprocess.PIPE,
                       cwd=d, preexec_fn=big_stack)
    out = r.stdout.decode("latin-1")
    err = r.stderr.decode("latin-1")
    # the compiled evaluation file is of no use (only its printed output is): keep the disk bounded
    for ext in (".vo", ".vok", ".vos", ".glob"):
        try:
            os.remove(os.path.join(d, name + ext))
        except OSError:
            pass
    try:
        os.remove(os.path.join(d, "." + name + ".aux"))
    except OSError:
        pass
    return r.returncode, out, err


RESULT_RE = re.compile(r'= "<<<(.*?)>>>(.*?)"\s*\n\s*: string', re.S)


def parse_results(out):
    """{case id: string} from 'Eval vm_compute in ("<<<id>>>" ++ ...)' outputs."""
    return {m.group(1): m.group(2).replace('""', '"') for m in RESULT_RE.finditer(out)}


class Timer:
    def __init__(self):
        self.t0 = time.time()

    def s(self):
        return round(time.time() - self.t0, 2)
