#!/bin/sh
# usage: all_mutants.sh [pattern]   runs every seeded change against its property's quick check; one line per change
cd /verif
for d in seeded/${1:-*}/; do
  n=$(basename $d); id=${n%%-*}
  out=$(sh harness/try_mutant.sh /verif/$d/patch.diff $id 2>&1)
  if echo "$out" | grep -q "PATCH DOES NOT APPLY"; then echo "$n  NOAPPLY"
  elif echo "$out" | grep -q "^VIOLATION.*no-failing-input-found" && ! echo "$out" | grep "^VIOLATION" | grep -qv "no-failing-input-found"; then echo "$n  caught(nfi)"
  elif echo "$out" | grep -q "^VIOLATION"; then echo "$n  caught(found)"
  else echo "$n  MISSED: $(echo "$out" | tail -1 | cut -c1-100)"; fi
done
