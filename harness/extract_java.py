"""Inverse of the Java generator's templates: emitted .java files -> codec IR.

Strict inside the semantic regions (class member list, encode body, decode body, the
<X>MessageFactory enums): a line no template claims becomes an EJunk/DJunk step and
therefore a mismatch.  Getters/setters, hashCode/equals/toString and the test classes are
not looked at.

Conventions specific to Java (the same as in coq/Gen/Java.v):
  * a step is tagged with the position, in the emitted member list, of the member the emitted
    text names; 999 when no such member is declared.
  * a repeated field names two members (size()/new ArrayList on one, get(i)/add on the
    other).  When the two names do not denote the same declared member the element step is
    ENone/DNone (closest form the IR has).
  * element code that is no element codec (length placeholder, checksum block, length-of
    block, match assignment inside the loop) is ENone/DNone as well.
  * EPatch has no slot for the member the size is stored in ("this.<len> = ..."): when that
    member is not declared the EPatch step is tagged 999 instead of the target's index.
  * widths and byte orders come from the Netty method suffixes in the text (writeShortLE ->
    2, little-endian; writeByte -> 1, big-endian whatever the option says).
"""
import re
from ir import UNDEF

ID = r"[A-Za-z_][A-Za-z_0-9]*"

# suffix of ByteBuf.write<S>/read<S>/set<S> -> (width, little-endian)
NETTY = {"Byte": (1, False), "Short": (2, False), "ShortLE": (2, True), "Int": (4, False), "IntLE": (4, True),
         "Long": (8, False), "LongLE": (8, True), "Float": (4, False), "FloatLE": (4, True),
         "Double": (8, False), "DoubleLE": (8, True)}
PRIM_W = {"byte": 1, "short": 2, "int": 4, "float": 4, "long": 8, "double": 8}
BOX = {"byte": "Byte", "short": "Short", "int": "Integer", "long": "Long", "float": "Float", "double": "Double"}
NOT_CODEC = set(PRIM_W) | set(BOX.values()) | {"String", "BinaryCodec", "unkown type", ""}
ENC_MARKER = "// unknow type"
DEC_MARKER = "//TODO unknow"


def netty(m):
    return NETTY.get(m, (0, False))


# ---------------------------------------------------------------- strcase.ToLowerCamel
def strcase_lower_camel(s):
    """iancoleman/strcase v0.3.0 toCamelInitCase(s, false) on an ASCII identifier (no acronyms configured).
    Only used to know under which name the member list should declare a field
    (GetFieldNameLower = ToLowerCamel(ToCamel(name)); names[] holds ToCamel(name) only)."""
    s = s.strip()
    out = []
    cap_next = False
    prev_cap = False
    for i, ch in enumerate(s):
        o = ord(ch)
        is_cap = 65 <= o <= 90
        is_low = 97 <= o <= 122
        if cap_next:
            if is_low:
                ch = chr(o - 32)
        elif i == 0:
            if is_cap:
                ch = chr(o + 32)
        elif prev_cap and is_cap:
            ch = chr(o + 32)
        prev_cap = is_cap
        if is_cap or is_low:
            out.append(ch)
            cap_next = False
        elif 48 <= o <= 57:
            out.append(ch)
            cap_next = True
        else:
            cap_next = ch in "_ -."
    return "".join(out)


def inline_tree(p, path):
    """[(path, packet dump)] in the generator's emission order: inline packets first."""
    out = []
    for f in p["fields"]:
        a = f["attr"]
        if a and a["kind"] == "object" and a["iner"] and a.get("inline"):
            out += inline_tree(a["inline"], path + "/" + f["name"])
    out.append((path, p))
    return out


# ---------------------------------------------------------------- file structure
class JClass:
    def __init__(self, name, path):
        self.name = name
        self.path = path
        self.members = []        # [(name, type text)] ; (None, line) for a line that is no member declaration
        self.enc = None          # body lines
        self.dec = None
        self.enums = []          # [(enum name, [lines])] in emission order
        self.children = []


def body_lines(lines, marker):
    """strip, drop blank lines and comments (except the generator's marker comment)"""
    out = []
    for l in lines:
        s = l.strip()
        if not s:
            continue
        if s.startswith("//") and s != marker:
            continue
        out.append(s)
    return out


def parse_class(lines, hdr, depth, name, path, registry):
    """lines[hdr] is the class header at indentation 4*depth.  Everything the generator puts inside a
    class is indented deeper than the header (AddIndent4ln), so the class ends at the first later line
    that is exactly the header's indentation followed by '}'."""
    ind = " " * (4 * depth)
    ind1 = ind + "    "
    end = None
    for j in range(hdr + 1, len(lines)):
        if lines[j] == ind + "}":
            end = j
            break
    c = JClass(name, path)
    registry[path] = c
    if end is None:
        c.members.append((None, "<<unterminated class>>"))
        return c
    # member list: from the header to the first blank line
    j = hdr + 1
    while j < end and lines[j].strip():
        m = re.match(r"^%sprivate (.*) (%s);$" % (ind1, ID), lines[j])
        c.members.append((m.group(2), m.group(1)) if m else (None, lines[j].strip()))
        j += 1

    def method(sig):
        for a in range(j, end):
            if lines[a] == ind1 + sig:
                for b in range(a + 1, end):
                    if lines[b] == ind1 + "}":
                        return lines[a + 1:b]
                return ["<<unterminated method>>"]
        return None

    c.enc = method("public void encode(ByteBuf byteBuf) {")
    c.dec = method("public void decode(ByteBuf byteBuf) {")
    a = j
    while a < end:
        m = re.match(r"^%spublic static class (%s) implements BinaryCodec \{$" % (ind1, ID), lines[a])
        if m:
            ch = parse_class(lines[:end], a, depth + 1, m.group(1), path + "/" + m.group(1), registry)
            c.children.append(ch)
        m = re.match(r"^%spublic static enum (%s) \{$" % (ind1, ID), lines[a])
        if m:
            # the enum's own lines are not indented; it ends with getInstance()'s body and two closing braces
            stop = end
            for b in range(a + 1, end):
                if re.match(r"^%spublic static (class|enum) " % ind1, lines[b]):
                    stop = b
                    break
            c.enums.append((m.group(1), body_lines(lines[a:stop], None)))
            a = stop
            continue
        a += 1
    return c


ENUM_TAIL = [
    r"public BinaryCodec create\((?P<t1>[\w.]*) (?P<k1>%s)\) \{" % ID,
    r"Supplier<BinaryCodec> supplier = (?P<m1>%s)Map\.get\((?P<k2>%s)\);" % (ID, ID),
    r"if \(null == supplier\) \{",
    r'throw new IllegalArgumentException\("Unsupported (?P<kn>%s):" \+ (?P<k3>%s)\);' % (ID, ID),
    r"\}",
    r"return supplier\.get\(\);",
    r"\}",
    r"public void register\((?P<t2>[\w.]*) (?P<k4>%s), Supplier<BinaryCodec> supplier\) \{" % ID,
    r"(?P<m2>%s)Map\.put\((?P<k5>%s), supplier\);" % (ID, ID),
    r"\}",
    r"public boolean remove\((?P<t3>[\w.]*) (?P<k6>%s)\) \{" % ID,
    r"return null != (?P<m3>%s)Map\.remove\((?P<k7>%s)\);" % (ID, ID),
    r"\}",
    r"public static (?P<f2>%s) getInstance\(\) \{" % ID,
    r"return INSTANCE;",
    r"\}",
    r"\}",
]


def parse_enum(name, lines):
    """-> (registrations [(key literal, value type name)], unk_err, first_wins, junk lines)"""
    junk = []
    regs = []
    i = 0

    def expect(pat):
        nonlocal i
        if i < len(lines):
            m = re.match("^" + pat + "$", lines[i])
            if m:
                i += 1
                return m
        return None

    if not expect(r"public static enum %s \{" % re.escape(name)) or not expect(r"INSTANCE;"):
        return regs, False, False, lines[i:i + 1] or ["<<enum>>"]
    m = expect(r"private final Map<(?P<t>[\w.]*), Supplier<BinaryCodec>> (?P<m>%s)Map = new HashMap<>\(\);" % ID)
    if not m or not expect(r"static \{"):
        return regs, False, False, lines[i:i + 1] or ["<<enum>>"]
    ktype, mapname = m.group("t"), m.group("m")
    while True:
        r = expect(r"getInstance\(\)\.register\((?P<arg>.*), (?P<v>%s)::new\);" % ID)
        if not r:
            break
        arg = r.group("arg")
        c = re.match(r"^\((byte|short|int|long|float|double)\) (.*)$", arg)
        if c:
            if BOX[c.group(1)] != ktype:
                junk.append(lines[i - 1])
            arg = c.group(2)
        regs.append((arg, r.group("v")))
    if not expect(r"\}"):
        return regs, False, False, junk + (lines[i:i + 1] or ["<<enum>>"])
    g = {}
    for pat in ENUM_TAIL:
        m = expect(pat)
        if not m:
            return regs, False, False, junk + (lines[i:i + 1] or ["<<enum tail>>"])
        g.update(m.groupdict())
    if i != len(lines):
        junk += lines[i:]
    if not (g["t1"] == g["t2"] == g["t3"] == ktype and g["m1"] == g["m2"] == g["m3"] == mapname and g["f2"] == name
            and len({g["k%d" % k] for k in range(1, 8)}) == 1):
        junk.append("inconsistent factory " + name)
    # create() throws for an unknown key; register() is Map.put: the last registration of a key wins
    return regs, True, False, junk


# ---------------------------------------------------------------- template machinery
def seq(pats):
    return [re.compile("^" + p + "$") for p in pats]


def try_match(lines, i, pats):
    if i + len(pats) > len(lines):
        return None
    ms = []
    for k, p in enumerate(pats):
        m = p.match(lines[i + k])
        if not m:
            return None
        ms.append(m)
    return ms


class Ctx:
    def __init__(self, cls, types, lc, tables):
        self.path = cls.path
        self.members = cls.members
        self.types = types                # type name -> [paths], from the emitted class declarations
        self.lc = lc                      # lowerCamel(field name) -> member index (position variables)
        self.tables = tables              # enum name -> (table, unk_err, first_wins)
        self.defined = set()

    def midx(self, name):
        for i, (n, _) in enumerate(self.members):
            if n == name:
                return i
        return None

    def mtype(self, name):
        i = self.midx(name)
        return None if i is None else self.members[i][1]

    def resolve_type(self, t):
        cands = self.types.get(t, [])
        child = [c for c in cands if c == self.path + "/" + t]
        if len(child) == 1:
            return child[0]
        if len(cands) == 1:
            return cands[0]
        return "?" + t


def tag(i):
    return UNDEF if i is None else i


def codec_call(c, m, elem):
    """this.<m>[.get(i)].encode(byteBuf): what the declared type of <m> makes of it"""
    t = c.mtype(m)
    if t is None:
        return ("EObj", "?")
    if elem:
        mm = re.match(r"^List<(.*)>$", t)
        if not mm or mm.group(1) in NOT_CODEC:
            return ("ENone",)
        return ("EObj", c.resolve_type(mm.group(1)))
    if t == "BinaryCodec":
        return ("EDyn",)
    if t in NOT_CODEC or not re.match("^%s$" % ID, t):
        return ("ENone",)
    return ("EObj", c.resolve_type(t))


def acc(elem, g="m"):
    return r"this\.(?P<%s>%s)%s" % (g, ID, r"\.get\(i\)" if elem else "")


def _enc_simple_templates(elem):
    """templates of one field's encode code; each handler returns (member name or None, step) or None (no match)"""
    T = []
    A = acc(elem)

    def h_str(ms, c):
        if ms[0].group("m") != ms[3].group("m"):
            return None
        w0, le0 = netty(ms[1].group("meth"))
        w, le = netty(ms[4].group("meth"))
        if w0 != w:
            return None
        return ms[0].group("m"), ("EStr", w, le, le0)
    T.append((seq([r"if \(StringUtil\.isNullOrEmpty\(%s\)\) \{" % A, r"byteBuf\.write(?P<meth>\w*)\(0\);", r"\} else \{",
                   r"byte\[\] bytes = %s\.getBytes\(StandardCharsets\.UTF_8\);" % A,
                   r"byteBuf\.write(?P<meth>\w*)\(bytes\.length\);", r"byteBuf\.writeBytes\(bytes\);", r"\}"]), h_str))
    T.append((seq([r"writeFixedString\(byteBuf, %s, (?P<n>\d+), (?P<lit>.*), (?P<left>true|false)\);" % A]),
              lambda ms, c: (ms[0].group("m"), ("EFixed", int(ms[0].group("n")), (ms[0].group("lit"), ms[0].group("left") == "true")))))
    T.append((seq([r"writeFixedString\(byteBuf, %s, (?P<n>\d+)\);" % A]),
              lambda ms, c: (ms[0].group("m"), ("EFixed", int(ms[0].group("n")), None))))

    def h_check(ms, c):
        if ms[2].group("m") != ms[4].group("m"):
            return None
        w, le = netty(ms[4].group("meth"))
        if PRIM_W.get(ms[2].group("cast"), 0) != w:
            return None
        if elem:
            return ms[2].group("m"), ("ENone",)
        return ms[2].group("m"), ("ECheck", ms[0].group("alg"), w, le)
    T.append((seq([r"ChecksumService<ByteBuf, Integer> checksumService = ChecksumServiceFactory\.getInstance\(\)\.getChecksumService\((?P<alg>.*)\);",
                   r"if \(checksumService != null\) \{", r"%s = \((?P<cast>\w*)\) checksumService\.calc\(byteBuf\);" % A, r"\}",
                   r"byteBuf\.write(?P<meth>\w*)\(%s\);" % A]), h_check))
    T.append((seq([r"byteBuf\.write(?P<meth>\w*)\(%s\);" % A]),
              lambda ms, c: (ms[0].group("m"), ("EInt",) + netty(ms[0].group("meth")))))
    T.append((seq([r"%s\.encode\(byteBuf\);" % A]),
              lambda ms, c: (ms[0].group("m"), codec_call(c, ms[0].group("m"), elem))))
    T.append((seq([r"if \(null != %s\) \{" % A, r"%s\.encode\(byteBuf\);\}" % A]),
              lambda ms, c: (ms[0].group("m"), codec_call(c, ms[0].group("m"), elem)) if ms[0].group("m") == ms[1].group("m") else None))
    T.append((seq([re.escape(ENC_MARKER)]), lambda ms, c: (None, ("EMarker",))))
    return T


_ENC_T = {}


def enc_simple_templates(elem):
    if elem not in _ENC_T:
        _ENC_T[elem] = _enc_simple_templates(elem)
    return _ENC_T[elem]


TARGET = seq([r"int (?P<v>%s)Start = byteBuf\.writerIndex\(\);if \(this\.(?P<m>%s) != null\) \{" % (ID, ID),
              r"this\.(?P<m>%s)\.encode\(byteBuf\);" % ID, r"\}",
              r"int (?P<v>%s)End = byteBuf\.writerIndex\(\);this\.(?P<l>%s) = \((?P<cast>\w*)\)\((?P<v2>%s)End - (?P<v3>%s)Start\);"
              r"byteBuf\.set(?P<meth>\w*)\((?P<p>%s)Pos, this\.(?P<l2>%s)\);" % (ID, ID, ID, ID, ID, ID)])
MARKZERO = seq([r"int (?P<v>%s)Pos = byteBuf\.writerIndex\(\);" % ID, r"byteBuf\.write(?P<meth>\w*)\(0\);"])
MARKZERO_ELEM = seq([r"int (?P<v>%s)\.get\(i\)Pos = byteBuf\.writerIndex\(\);" % ID, r"byteBuf\.write(?P<meth>\w*)\(0\);"])
ENC_LIST_HEAD = seq([r"if \(null == this\.(?P<a>%s) \|\| this\.(?P<b>%s)\.size\(\) == 0\) \{" % (ID, ID),
                     r"byteBuf\.write(?P<meth>\w*)\(0\);", r"\} else \{",
                     r"byteBuf\.write(?P<meth>\w*)\(\((?P<cast>\w*)\) this\.(?P<a>%s)\.size\(\)\);" % ID,
                     r"for \(int i = 0; i < this\.(?P<a>%s)\.size\(\); i\+\+\) \{" % ID])
CLOSE2 = seq([r"\}", r"\}"])


def target_ok(ms):
    a, d = ms[0], ms[3]
    return (a.group("v") == d.group("v") == d.group("v2") == d.group("v3") and a.group("m") == ms[1].group("m")
            and d.group("l") == d.group("l2"))


def e_target(ms, c):
    d = ms[3]
    m = ms[0].group("m")
    ti = tag(c.midx(m))
    w, le = netty(d.group("meth"))
    p = d.group("p")
    mark = c.lc.get(p, UNDEF) if p in c.defined else UNDEF
    ptag = ti if c.midx(d.group("l")) is not None else UNDEF
    return [(ti, ("ESpan", codec_call(c, m, False), ti)),
            (ptag, ("EPatch", mark, ti, w, le, PRIM_W.get(d.group("cast"), 0), None))]


def parse_enc_list(lines, i, c):
    """the repeat loop; -> (steps, number of lines) or None"""
    hd = try_match(lines, i, ENC_LIST_HEAD)
    if not hd:
        return None
    a = hd[0].group("a")
    if not (a == hd[0].group("b") == hd[3].group("a") == hd[4].group("a")):
        return None
    w0, le0 = netty(hd[1].group("meth"))
    w, le = netty(hd[3].group("meth"))
    if w0 != w or PRIM_W.get(hd[3].group("cast"), 0) != w:
        return None
    j = i + len(ENC_LIST_HEAD)
    lm = c.midx(a)
    el = None
    n = 0
    ms = try_match(lines, j, TARGET)
    if ms and target_ok(ms):
        el, n = ("ENone",), len(TARGET)
    if el is None:
        ms = try_match(lines, j, MARKZERO_ELEM)
        if ms:
            el, n = ("ENone",), len(MARKZERO_ELEM)
    if el is None:
        for pats, fn in enc_simple_templates(True):
            ms = try_match(lines, j, pats)
            if ms:
                r = fn(ms, c)
                if r is None:
                    continue
                em, st = r
                if st[0] in ("ENone", "EMarker"):
                    el = st
                elif em is not None and c.midx(em) is not None and c.midx(em) == lm:
                    el = st
                else:
                    el = ("ENone",)          # the elements are taken from another (or no) member
                n = len(pats)
                break
    if el is None or not try_match(lines, j + n, CLOSE2):
        return None
    return [(tag(lm), ("EList", w, le, le0, el))], len(ENC_LIST_HEAD) + n + 2


def parse_enc(lines, c):
    out = []
    simple = enc_simple_templates(False)
    i = 0
    while i < len(lines):
        r = parse_enc_list(lines, i, c)
        if r:
            out += r[0]
            i += r[1]
            continue
        ms = try_match(lines, i, TARGET)
        if ms and target_ok(ms):
            out += e_target(ms, c)
            i += len(TARGET)
            continue
        ms = try_match(lines, i, MARKZERO)
        if ms:
            v = ms[0].group("v")
            k = c.lc.get(v, UNDEF)
            c.defined.add(v)
            out.append((k, ("EMarkZero", k) + netty(ms[1].group("meth"))))
            i += len(MARKZERO)
            continue
        for pats, fn in simple:
            ms = try_match(lines, i, pats)
            if ms:
                r = fn(ms, c)
                if r is None:
                    continue
                em, st = r
                out.append((tag(c.midx(em)) if em is not None else UNDEF, st))
                i += len(pats)
                break
        else:
            out.append((UNDEF, ("EJunk", lines[i])))
            i += 1
    return out


# ---------------------------------------------------------------- decode
def _dec_simple_templates(elem):
    """each handler returns (member name or None, step) or None"""
    T = []
    if elem:
        S = lambda inner: r"this\.(?P<m>%s)\.add\(%s\);" % (ID, inner)
    else:
        S = lambda inner: r"this\.(?P<m>%s) = %s;" % (ID, inner)

    def h_str(ms, c):
        if not (ms[0].group("v") == ms[1].group("v") == ms[2].group("v")):
            return None
        w, le = netty(ms[0].group("meth"))
        if PRIM_W.get(ms[0].group("ty"), 0) != w:
            return None
        # the prefix is held in a (signed) Java primitive and the read is guarded by "> 0"
        return ms[2].group("m"), ("DStr", w, le, True)
    T.append((seq([r"(?P<ty>\w+) (?P<v>%s)Len = byteBuf\.read(?P<meth>\w*)\(\);" % ID, r"if \((?P<v>%s)Len > 0\) \{" % ID,
                   S(r"byteBuf\.readCharSequence\((?P<v>%s)Len, StandardCharsets\.UTF_8\)\.toString\(\)" % ID), r"\}"]), h_str))
    T.append((seq([S(r"readFixedString\(byteBuf, (?P<n>\d+), (?P<lit>.*), (?P<left>true|false)\)")]),
              lambda ms, c: (ms[0].group("m"), ("DFixed", int(ms[0].group("n")), (ms[0].group("lit"), ms[0].group("left") == "true")))))
    T.append((seq([S(r"readFixedString\(byteBuf, (?P<n>\d+)\)")]),
              lambda ms, c: (ms[0].group("m"), ("DFixed", int(ms[0].group("n")), None))))
    T.append((seq([S(r"byteBuf\.read(?P<meth>\w*)\(\)")]),
              lambda ms, c: (ms[0].group("m"), ("DInt",) + netty(ms[0].group("meth")))))

    def h_dispatch(ms, c):
        m = ms[0].group("m")
        if m != ms[1].group("m"):
            return None
        if elem:
            return m, ("DNone",)             # assigns the member instead of adding an element
        tab = c.tables.get(ms[0].group("f"))
        ki = c.midx(ms[0].group("k"))
        if tab is None or ki is None or c.mtype(m) != "BinaryCodec":
            return m, ("DNone",)
        return m, ("DDispatch", tab[0], tab[2], ki, tab[1])
    T.append((seq([r"this\.(?P<m>%s) = (?P<f>%s)\.getInstance\(\)\.create\(this\.(?P<k>%s)\);" % (ID, ID, ID),
                   r"this\.(?P<m>%s)\.decode\(byteBuf\);" % ID]), h_dispatch))
    if elem:
        def h_objadd(ms, c):
            g = ms[0]
            if not (g.group("t") == g.group("t2") and g.group("x") == g.group("x2") == g.group("x3")):
                return None
            m = g.group("m")
            if c.mtype(m) != "List<%s>" % g.group("t"):
                return m, ("DNone",)
            return m, ("DObj", c.resolve_type(g.group("t")))
        T.append((seq([r"(?P<t>%s) (?P<x>%s)_ = new (?P<t2>%s)\(\);(?P<x2>%s)_\.decode\(byteBuf\);this\.(?P<m>%s)\.add\((?P<x3>%s)_\);"
                       % (ID, ID, ID, ID, ID, ID)]), h_objadd))
    else:
        def h_obj(ms, c):
            m = ms[3].group("m")
            if not (ms[0].group("a") == ms[1].group("b") == m):
                return None
            t = ms[1].group("t")
            if c.mtype(m) != t:
                return m, ("DNone",)         # new <field name>() is not the member's class (or the member does not exist)
            return m, ("DObj", c.resolve_type(t))
        T.append((seq([r"if \(null == this\.(?P<a>%s)\) \{" % ID, r"this\.(?P<b>%s) = new (?P<t>%s)\(\);" % (ID, ID), r"\}",
                       r"this\.(?P<m>%s)\.decode\(byteBuf\);" % ID]), h_obj))
    T.append((seq([re.escape(DEC_MARKER)]), lambda ms, c: (None, ("DMarker",))))
    return T


_DEC_T = {}


def dec_simple_templates(elem):
    if elem not in _DEC_T:
        _DEC_T[elem] = _dec_simple_templates(elem)
    return _DEC_T[elem]


DEC_LIST_HEAD = seq([r"(?P<ty>\w+) (?P<v>%s)Size = byteBuf\.read(?P<meth>\w*)\(\);" % ID, r"if\((?P<v>%s)Size > 0\) \{" % ID,
                     r"this\.(?P<init>%s) = new ArrayList<>\(\);" % ID, r"for\(int i=0;i<(?P<v>%s)Size;i\+\+\) \{" % ID])


def parse_dec_list(lines, i, c):
    hd = try_match(lines, i, DEC_LIST_HEAD)
    if not hd:
        return None
    if not (hd[0].group("v") == hd[1].group("v") == hd[3].group("v")):
        return None
    w, le = netty(hd[0].group("meth"))
    if PRIM_W.get(hd[0].group("ty"), 0) != w:
        return None
    init = c.midx(hd[2].group("init"))
    j = i + len(DEC_LIST_HEAD)
    for pats, fn in dec_simple_templates(True):
        ms = try_match(lines, j, pats)
        if not ms:
            continue
        r = fn(ms, c)
        if r is None:
            continue
        am, st = r
        ai = c.midx(am) if am is not None else init
        if st[0] in ("DNone", "DMarker"):
            el = st
        elif ai is not None and ai == init:
            el = st
        else:
            el = ("DNone",)                  # the list that is created is not the list the elements are added to
        if not try_match(lines, j + len(pats), CLOSE2):
            return None
        # the count is held in a (signed) Java primitive and the loop is guarded by "> 0"
        return [(tag(ai), ("DList", w, le, True, el))], len(DEC_LIST_HEAD) + len(pats) + 2
    return None


def parse_dec(lines, c):
    out = []
    simple = dec_simple_templates(False)
    i = 0
    while i < len(lines):
        r = parse_dec_list(lines, i, c)
        if r:
            out += r[0]
            i += r[1]
            continue
        for pats, fn in simple:
            ms = try_match(lines, i, pats)
            if ms:
                r = fn(ms, c)
                if r is None:
                    continue
                am, st = r
                out.append((tag(c.midx(am)) if am is not None else UNDEF, st))
                i += len(pats)
                break
        else:
            out.append((UNDEF, ("DJunk", lines[i])))
            i += 1
    return out


# ---------------------------------------------------------------- entry point
def extract_java(files, model, names):
    """files: {name: text}; returns [(path, ir)] in the order of Coq's gen_java, plus a list of notes."""
    lcamel = lambda n: names[n][1]
    camel = lambda n: names[n][0]
    pkgpath = model["config"]["java_package"].replace(".", "/")
    notes = []
    classes = {}
    for p in model["packets"]:
        fname = "main/java/%s/%s.java" % (pkgpath, p["name"])
        text = files.get(fname)
        if text is None:
            notes.append("missing file " + fname)
            continue
        lines = text.split("\n")
        for k, l in enumerate(lines):
            if l == "public class %s implements BinaryCodec {" % p["name"]:
                parse_class(lines, k, 0, p["name"], p["name"], classes)
                break
        else:
            notes.append("no class %s in %s" % (p["name"], fname))
    # every emitted class and where it sits
    types = {}
    for path, cl in classes.items():
        types.setdefault(cl.name, []).append(path)
    prog = []
    for p in model["packets"]:
        for path, q in inline_tree(p, p["name"]):
            cl = classes.get(path)
            if cl is None:
                notes.append("no class for " + path)
                prog.append((path, {"members": len(q["fields"]), "enc": [(UNDEF, ("EJunk", "no class"))],
                                    "dec": [(UNDEF, ("DJunk", "no class"))]}))
                continue
            lc = {}
            for i, f in enumerate(q["fields"]):
                lc.setdefault(lcamel(f["name"]), i)
            # factories of this class: everything the enums of one name register, in order
            tables = {}
            junk = []
            rc = Ctx(cl, types, lc, {})
            for ename, elines in cl.enums:
                regs, unk_err, first_wins, jk = parse_enum(ename, elines)
                junk += jk
                old = tables.get(ename, ([], unk_err, first_wins))
                tables[ename] = (old[0] + [(k, rc.resolve_type(v)) for k, v in regs], old[1] and unk_err, old[2] or first_wins)
            ctx = Ctx(cl, types, lc, tables)
            enc = parse_enc(body_lines(cl.enc, ENC_MARKER), ctx) if cl.enc is not None else [(UNDEF, ("EJunk", "no encode"))]
            dec = parse_dec(body_lines(cl.dec, DEC_MARKER), ctx) if cl.dec is not None else [(UNDEF, ("DJunk", "no decode"))]
            dec += [(UNDEF, ("DJunk", l)) for l in junk]
            # the members must be the declared fields, in order, under GetFieldNameLower(f)
            want = [strcase_lower_camel(camel(f["name"])) for f in q["fields"]]
            got = [m[0] for m in cl.members]
            if want != got:
                enc.append((UNDEF, ("EJunk", "class members %s expected %s" % (got, want))))
            prog.append((path, {"members": len(cl.members), "enc": enc, "dec": dec}))
    return prog, notes
