// Package codec is the STAND-IN, used by harness/goexec.py, for the runtime package that the Go
// output of fin-protoc imports (github.com/xinchentechnote/fin-proto-go/codec, go_generator.go:72).
// Unlike the java/ and cpp/ stubs next to it this one IS executed: goexec compiles the emitted Go
// against it and runs the emitted Encode/Decode.  It implements, function by function, the runtime
// contract that coq/IR/Sem.v writes down (the steps of sem_enc / sem_dec that harness/extract_go.py
// maps each call to), and nothing else:
//
//	emitted call (go_generator.go)                    Sem.v step                      contract
//	-----------------------------------------------  ------------------------------  -------------------------------------------
//	WriteBasicType(buf, v) / WriteBasicTypeLE         EInt w le                       buf ++ enc_int w le (bit pattern of v); w = size of v's type
//	ReadBasicType[T](buf) / ReadBasicTypeLE           DInt w le                       dec_int w le; too few bytes: failure
//	WriteFixedString(buf, s, n)                       EFixed n None                   pad_of None = (' ', right): s ++ spaces to n bytes; len s > n: failure
//	WriteFixedStringWithPadding(buf, s, n, c, left)   EFixed n (Some (c, left))       pad_to n c left s; len s > n: failure
//	ReadFixedString(buf, n)                           DFixed n None                   take n, trim_pad ' ' right
//	ReadFixedStringTrimPadding(buf, n, c, left)       DFixed n (Some (c, left))       take n, trim_pad c left (every pad byte on the pad side)
//	WriteString[L](buf, s) / WriteStringLE            EStr pw ple ele (ele = ple)     enc_int pw le (len s)  (low pw bytes, no range check) ++ s
//	ReadString[L](buf) / ReadStringLE                 DStr pw ple false               UNSIGNED prefix n, then take_n n
//	WriteBasicTypeList[L](buf, l) / ...LE             EList pw le le (EInt w le)      count prefix (low pw bytes), then every element
//	ReadBasicTypeList[L,T](buf) / ...LE               DList pw le false (DInt w le)   unsigned count n, then n elements (dec_repeat_n)
//	WriteStringList[L,S] / ReadStringList[L,S] (LE)   EList/DList .. (EStr/DStr sw)   one byte order for count, string prefixes
//	WriteFixedStringList[L](buf, l, n) (LE)           EList .. (EFixed n None)        LE affects the count prefix only
//	WriteFixedStringListWithPadding[L](.., c, left)   EList .. (EFixed n (Some ..))
//	ReadFixedStringList[L](buf, n) (LE)               DList .. (DFixed n None)
//	ReadFixedStringListTrimPadding[L](.., c, left)    DList .. (DFixed n (Some ..))
//	WriteObjectList[L](buf, l) (LE)                   EList .. (EObj ty)              count, then each element's own Encode
//	ReadObjectList[L](buf, factory) (LE)              DList .. (DObj ty)              count, then factory().Decode for each
//	Get(name)                                         cs (unquote alg) in ECheck      registry lookup; (nil, false) = not registered
//	ChecksumService[*bytes.Buffer, R].Calc(buf)       h buf in ECheck                 algorithm applied to the WHOLE buffer so far
//	BinaryCodec                                       EObj / EDyn / DObj / DDispatch  Encode(*bytes.Buffer) error, Decode(*bytes.Buffer) error
//
// Not part of the runtime (emitted inline, so really executed as emitted): position marks (buf.Len()),
// the span difference, the encoding/binary Put<T> back-patch through buf.Bytes()[pos:pos+4]
// (EMarkZero / ESpan / EPatch), the factory maps and their "unknown message type" error (DDispatch).
//
// The registered test algorithm is cs_test of coq/IR/Oracle.v: (7 + sum of the bytes) mod 251.
// A Go registry entry has ONE result type (the emitted code asserts
// codec.ChecksumService[*bytes.Buffer, <member type>]); goexec registers every algorithm name of a
// program with the type of the member that uses it (Register(name, SumService[T]{})).
package codec

import (
	"bytes"
	"fmt"
	"math"
	"unsafe"
)

// BinaryCodec is what every emitted packet type implements.
type BinaryCodec interface {
	Encode(buf *bytes.Buffer) error
	Decode(buf *bytes.Buffer) error
}

type integer interface {
	int8 | int16 | int32 | int64 | uint8 | uint16 | uint32 | uint64
}

type basic interface {
	integer | float32 | float64
}

func width[T basic]() int { var z T; return int(unsafe.Sizeof(z)) }

// the unsigned bit pattern of a scalar (Layout.v: VInt holds the bit pattern)
func bitsOf[T basic](v T) uint64 {
	switch x := any(v).(type) {
	case int8:
		return uint64(uint8(x))
	case int16:
		return uint64(uint16(x))
	case int32:
		return uint64(uint32(x))
	case int64:
		return uint64(x)
	case uint8:
		return uint64(x)
	case uint16:
		return uint64(x)
	case uint32:
		return uint64(x)
	case uint64:
		return x
	case float32:
		return uint64(math.Float32bits(x))
	case float64:
		return math.Float64bits(x)
	}
	panic("codec stand-in: not a basic type")
}

func fromBits[T basic](u uint64) T {
	var z T
	switch any(z).(type) {
	case int8:
		return any(int8(u)).(T)
	case int16:
		return any(int16(u)).(T)
	case int32:
		return any(int32(u)).(T)
	case int64:
		return any(int64(u)).(T)
	case uint8:
		return any(uint8(u)).(T)
	case uint16:
		return any(uint16(u)).(T)
	case uint32:
		return any(uint32(u)).(T)
	case uint64:
		return any(u).(T)
	case float32:
		return any(math.Float32frombits(uint32(u))).(T)
	case float64:
		return any(math.Float64frombits(u)).(T)
	}
	panic("codec stand-in: not a basic type")
}

// enc_int w le n: the w low-order bytes of n
func putInt(buf *bytes.Buffer, w int, le bool, n uint64) {
	b := make([]byte, w)
	for i := 0; i < w; i++ {
		x := byte(n >> (8 * uint(i)))
		if le {
			b[i] = x
		} else {
			b[w-1-i] = x
		}
	}
	buf.Write(b)
}

// dec_int w le
func getInt(buf *bytes.Buffer, w int, le bool) (uint64, error) {
	if buf.Len() < w {
		return 0, fmt.Errorf("short buffer: need %d bytes, have %d", w, buf.Len())
	}
	b := buf.Next(w)
	var n uint64
	for i := 0; i < w; i++ {
		if le {
			n |= uint64(b[i]) << (8 * uint(i))
		} else {
			n = n<<8 | uint64(b[i])
		}
	}
	return n, nil
}

// take_n
func take(buf *bytes.Buffer, n uint64) ([]byte, error) {
	if uint64(buf.Len()) < n {
		return nil, fmt.Errorf("short buffer: need %d bytes, have %d", n, buf.Len())
	}
	return append([]byte{}, buf.Next(int(n))...), nil
}

// ---- scalars: EInt / DInt

func writeBasic[T basic](buf *bytes.Buffer, v T, le bool) error {
	putInt(buf, width[T](), le, bitsOf(v))
	return nil
}

func readBasic[T basic](buf *bytes.Buffer, le bool) (T, error) {
	n, err := getInt(buf, width[T](), le)
	if err != nil {
		var z T
		return z, err
	}
	return fromBits[T](n), nil
}

func WriteBasicType[T basic](buf *bytes.Buffer, v T) error   { return writeBasic(buf, v, false) }
func WriteBasicTypeLE[T basic](buf *bytes.Buffer, v T) error { return writeBasic(buf, v, true) }
func ReadBasicType[T basic](buf *bytes.Buffer) (T, error)    { return readBasic[T](buf, false) }
func ReadBasicTypeLE[T basic](buf *bytes.Buffer) (T, error)  { return readBasic[T](buf, true) }

// ---- fixed strings: EFixed / DFixed

func writeFixed(buf *bytes.Buffer, s string, n int, pad byte, left bool) error {
	if len(s) > n {
		return fmt.Errorf("fixed string of %d bytes does not fit %d", len(s), n)
	}
	fill := bytes.Repeat([]byte{pad}, n-len(s))
	if left {
		buf.Write(fill)
		buf.WriteString(s)
	} else {
		buf.WriteString(s)
		buf.Write(fill)
	}
	return nil
}

func readFixed(buf *bytes.Buffer, n int, pad byte, left bool) (string, error) {
	if n < 0 {
		return "", fmt.Errorf("negative length")
	}
	b, err := take(buf, uint64(n))
	if err != nil {
		return "", err
	}
	if left {
		for len(b) > 0 && b[0] == pad {
			b = b[1:]
		}
	} else {
		for len(b) > 0 && b[len(b)-1] == pad {
			b = b[:len(b)-1]
		}
	}
	return string(b), nil
}

func WriteFixedString(buf *bytes.Buffer, s string, n int) error { return writeFixed(buf, s, n, ' ', false) }
func WriteFixedStringWithPadding(buf *bytes.Buffer, s string, n int, pad byte, left bool) error {
	return writeFixed(buf, s, n, pad, left)
}
func ReadFixedString(buf *bytes.Buffer, n int) (string, error) { return readFixed(buf, n, ' ', false) }
func ReadFixedStringTrimPadding(buf *bytes.Buffer, n int, pad byte, left bool) (string, error) {
	return readFixed(buf, n, pad, left)
}

// ---- length-prefixed strings: EStr / DStr (unsigned prefix, width of L)

func writeStr[L integer](buf *bytes.Buffer, s string, le bool) error {
	putInt(buf, width[L](), le, uint64(len(s)))
	buf.WriteString(s)
	return nil
}

func readStr[L integer](buf *bytes.Buffer, le bool) (string, error) {
	n, err := getInt(buf, width[L](), le)
	if err != nil {
		return "", err
	}
	b, err := take(buf, n)
	if err != nil {
		return "", err
	}
	return string(b), nil
}

func WriteString[L integer](buf *bytes.Buffer, s string) error   { return writeStr[L](buf, s, false) }
func WriteStringLE[L integer](buf *bytes.Buffer, s string) error { return writeStr[L](buf, s, true) }
func ReadString[L integer](buf *bytes.Buffer) (string, error)    { return readStr[L](buf, false) }
func ReadStringLE[L integer](buf *bytes.Buffer) (string, error)  { return readStr[L](buf, true) }

// ---- lists: EList / DList

func writeList[L integer, E any](buf *bytes.Buffer, l []E, le bool, elem func(E) error) error {
	putInt(buf, width[L](), le, uint64(len(l)))
	for _, e := range l {
		if err := elem(e); err != nil {
			return err
		}
	}
	return nil
}

func readList[L integer, E any](buf *bytes.Buffer, le bool, elem func() (E, error)) ([]E, error) {
	n, err := getInt(buf, width[L](), le)
	if err != nil {
		return nil, err
	}
	out := []E{}
	for i := uint64(0); i < n; i++ { // lazily in the count, as dec_repeat_n: a garbage count fails at the end of the buffer
		e, err := elem()
		if err != nil {
			return nil, err
		}
		out = append(out, e)
	}
	return out, nil
}

func WriteBasicTypeList[L integer, T basic](buf *bytes.Buffer, l []T) error {
	return writeList[L](buf, l, false, func(e T) error { return writeBasic(buf, e, false) })
}
func WriteBasicTypeListLE[L integer, T basic](buf *bytes.Buffer, l []T) error {
	return writeList[L](buf, l, true, func(e T) error { return writeBasic(buf, e, true) })
}
func ReadBasicTypeList[L integer, T basic](buf *bytes.Buffer) ([]T, error) {
	return readList[L](buf, false, func() (T, error) { return readBasic[T](buf, false) })
}
func ReadBasicTypeListLE[L integer, T basic](buf *bytes.Buffer) ([]T, error) {
	return readList[L](buf, true, func() (T, error) { return readBasic[T](buf, true) })
}

func WriteStringList[L integer, S integer](buf *bytes.Buffer, l []string) error {
	return writeList[L](buf, l, false, func(e string) error { return writeStr[S](buf, e, false) })
}
func WriteStringListLE[L integer, S integer](buf *bytes.Buffer, l []string) error {
	return writeList[L](buf, l, true, func(e string) error { return writeStr[S](buf, e, true) })
}
func ReadStringList[L integer, S integer](buf *bytes.Buffer) ([]string, error) {
	return readList[L](buf, false, func() (string, error) { return readStr[S](buf, false) })
}
func ReadStringListLE[L integer, S integer](buf *bytes.Buffer) ([]string, error) {
	return readList[L](buf, true, func() (string, error) { return readStr[S](buf, true) })
}

func WriteFixedStringList[L integer](buf *bytes.Buffer, l []string, n int) error {
	return writeList[L](buf, l, false, func(e string) error { return writeFixed(buf, e, n, ' ', false) })
}
func WriteFixedStringListLE[L integer](buf *bytes.Buffer, l []string, n int) error {
	return writeList[L](buf, l, true, func(e string) error { return writeFixed(buf, e, n, ' ', false) })
}
func WriteFixedStringListWithPadding[L integer](buf *bytes.Buffer, l []string, n int, pad byte, left bool) error {
	return writeList[L](buf, l, false, func(e string) error { return writeFixed(buf, e, n, pad, left) })
}
func WriteFixedStringListWithPaddingLE[L integer](buf *bytes.Buffer, l []string, n int, pad byte, left bool) error {
	return writeList[L](buf, l, true, func(e string) error { return writeFixed(buf, e, n, pad, left) })
}
func ReadFixedStringList[L integer](buf *bytes.Buffer, n int) ([]string, error) {
	return readList[L](buf, false, func() (string, error) { return readFixed(buf, n, ' ', false) })
}
func ReadFixedStringListLE[L integer](buf *bytes.Buffer, n int) ([]string, error) {
	return readList[L](buf, true, func() (string, error) { return readFixed(buf, n, ' ', false) })
}
func ReadFixedStringListTrimPadding[L integer](buf *bytes.Buffer, n int, pad byte, left bool) ([]string, error) {
	return readList[L](buf, false, func() (string, error) { return readFixed(buf, n, pad, left) })
}
func ReadFixedStringListTrimPaddingLE[L integer](buf *bytes.Buffer, n int, pad byte, left bool) ([]string, error) {
	return readList[L](buf, true, func() (string, error) { return readFixed(buf, n, pad, left) })
}

func WriteObjectList[L integer, T BinaryCodec](buf *bytes.Buffer, l []T) error {
	return writeList[L](buf, l, false, func(e T) error { return e.Encode(buf) })
}
func WriteObjectListLE[L integer, T BinaryCodec](buf *bytes.Buffer, l []T) error {
	return writeList[L](buf, l, true, func(e T) error { return e.Encode(buf) })
}
func readObjects[L integer, T BinaryCodec](buf *bytes.Buffer, le bool, factory func() T) ([]T, error) {
	return readList[L](buf, le, func() (T, error) {
		o := factory()
		return o, o.Decode(buf)
	})
}
func ReadObjectList[L integer, T BinaryCodec](buf *bytes.Buffer, factory func() T) ([]T, error) {
	return readObjects[L](buf, false, factory)
}
func ReadObjectListLE[L integer, T BinaryCodec](buf *bytes.Buffer, factory func() T) ([]T, error) {
	return readObjects[L](buf, true, factory)
}

// ---- checksum registry: cs in Sem.v / Layout.v

// ChecksumService is asserted by the emitted code as ChecksumService[*bytes.Buffer, <member type>].
type ChecksumService[B any, R any] interface {
	Calc(b B) R
}

var registry = map[string]any{}

// Get looks an algorithm up by its (unquoted) name; ok = false: not registered.
func Get(name string) (any, bool) {
	s, ok := registry[name]
	return s, ok
}

func Register(name string, svc any) { registry[name] = svc }
func ResetRegistry()                { registry = map[string]any{} }

// TestSum is cs_test true of coq/IR/Oracle.v: fold_left N.add b 7 mod 251.
func TestSum(b []byte) uint64 {
	s := uint64(7)
	for _, x := range b {
		s += uint64(x)
	}
	return s % 251
}

// SumService is TestSum with the result type of the member it is registered for.
type SumService[R basic] struct{}

func (SumService[R]) Calc(buf *bytes.Buffer) R { return fromBits[R](TestSum(buf.Bytes())) }
