package com.finproto.codec;

import io.netty.buffer.ByteBuf;

public interface BinaryCodec {
    void encode(ByteBuf byteBuf);
    void decode(ByteBuf byteBuf);
    default void writeFixedString(ByteBuf byteBuf, String s, int n) { }
    default void writeFixedString(ByteBuf byteBuf, String s, int n, char pad, boolean left) { }
    default String readFixedString(ByteBuf byteBuf, int n) { return null; }
    default String readFixedString(ByteBuf byteBuf, int n, char pad, boolean left) { return null; }
}
