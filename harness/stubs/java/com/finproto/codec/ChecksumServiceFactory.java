package com.finproto.codec;

public final class ChecksumServiceFactory {
    public static ChecksumServiceFactory getInstance() { return null; }
    public <T, R> ChecksumService<T, R> getChecksumService(String name) { return null; }
}
