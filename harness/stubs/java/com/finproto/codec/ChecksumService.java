package com.finproto.codec;

public interface ChecksumService<T, R> {
    R calc(T data);
}
