package io.netty.util.internal;

public final class StringUtil {
    public static boolean isNullOrEmpty(String s) { return s == null || s.isEmpty(); }
}
