package io.netty.buffer;

public final class Unpooled {
    public static ByteBuf buffer() { return null; }
    public static ByteBuf buffer(int n) { return null; }
}
