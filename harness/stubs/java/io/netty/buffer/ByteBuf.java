package io.netty.buffer;

import java.nio.charset.Charset;

public abstract class ByteBuf {
    public abstract int writerIndex();
    public abstract int readerIndex();
    public abstract ByteBuf writeByte(int v);
    public abstract ByteBuf writeShort(int v);
    public abstract ByteBuf writeShortLE(int v);
    public abstract ByteBuf writeInt(int v);
    public abstract ByteBuf writeIntLE(int v);
    public abstract ByteBuf writeLong(long v);
    public abstract ByteBuf writeLongLE(long v);
    public abstract ByteBuf writeFloat(float v);
    public ByteBuf writeFloatLE(float v) { return this; }
    public abstract ByteBuf writeDouble(double v);
    public ByteBuf writeDoubleLE(double v) { return this; }
    public abstract ByteBuf writeBytes(byte[] b);
    public abstract ByteBuf writeBytes(ByteBuf b);
    public abstract byte readByte();
    public abstract short readShort();
    public abstract short readShortLE();
    public abstract int readInt();
    public abstract int readIntLE();
    public abstract long readLong();
    public abstract long readLongLE();
    public abstract float readFloat();
    public float readFloatLE() { return 0; }
    public abstract double readDouble();
    public double readDoubleLE() { return 0; }
    public abstract ByteBuf readBytes(byte[] b);
    public abstract CharSequence readCharSequence(int length, Charset charset);
    public abstract ByteBuf setByte(int index, int v);
    public abstract ByteBuf setShort(int index, int v);
    public abstract ByteBuf setShortLE(int index, int v);
    public abstract ByteBuf setInt(int index, int v);
    public abstract ByteBuf setIntLE(int index, int v);
    public abstract ByteBuf setLong(int index, long v);
    public abstract ByteBuf setLongLE(int index, long v);
    public abstract int readableBytes();
}
