package org.junit;

public class Assert {
    public static void assertEquals(Object a, Object b) { }
    public static void assertEquals(long a, long b) { }
    public static void assertTrue(boolean b) { }
}
