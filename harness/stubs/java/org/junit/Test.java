package org.junit;

import java.lang.annotation.*;

@Retention(RetentionPolicy.RUNTIME)
@Target(ElementType.METHOD)
public @interface Test { }
