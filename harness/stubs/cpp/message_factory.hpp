// stub: syntax / type checking only (see README.txt)
#pragma once
#include <functional>
#include <memory>
#include <unordered_map>
template <typename K, typename B, typename Tag> class MessageFactory {
 public:
  static MessageFactory& getInstance() { static MessageFactory f; return f; }
  std::unique_ptr<B> create(const K&) { return nullptr; }
  bool registerType(const K&, std::function<std::unique_ptr<B>()>) { return true; }
};
#define FP_STUB_CAT2(a, b) a##b
#define FP_STUB_CAT(a, b) FP_STUB_CAT2(a, b)
#define REGISTER_MESSAGE(FACTORY, KEY, TYPE) \
  static const bool FP_STUB_CAT(fp_stub_reg_, __LINE__) = FACTORY::getInstance().registerType(KEY, [] { return std::unique_ptr<codec::BinaryCodec>(new TYPE()); })
