// stub: syntax / type checking only (see ../README.txt)
#pragma once
#define TEST(suite, name) void suite##_##name##_Test()
#define EXPECT_TRUE(x) (void)(x)
#define EXPECT_EQ(a, b) (void)((a) == (b))
