// stub: syntax / type checking only (see ../README.txt)
#pragma once
#include <memory>
#include <string>
#include <vector>
#include "include/bytebuf.hpp"
namespace codec {
struct BinaryCodec {
  virtual ~BinaryCodec() = default;
  virtual void encode(ByteBuf& buf) const = 0;
  virtual void decode(ByteBuf& buf) = 0;
  virtual bool equals(const BinaryCodec& other) const = 0;
  virtual std::string toString() const = 0;
};
inline bool operator==(const BinaryCodec& a, const BinaryCodec& b) { return a.equals(b); }
template <typename T> std::string join_vector(const std::vector<T>&) { return ""; }
template <typename L, typename T> void write_basic_type(ByteBuf&, const std::vector<T>&) {}
template <typename L, typename T> void write_basic_type_le(ByteBuf&, const std::vector<T>&) {}
template <typename L, typename T> std::vector<T> read_basic_type(ByteBuf&) { return {}; }
template <typename L, typename T> std::vector<T> read_basic_type_le(ByteBuf&) { return {}; }
inline void write_fixed_string(ByteBuf&, const std::string&, std::size_t) {}
inline void write_fixed_string(ByteBuf&, const std::string&, std::size_t, char, bool) {}
inline std::string read_fixed_string(ByteBuf&, std::size_t) { return ""; }
inline std::string read_fixed_string(ByteBuf&, std::size_t, char, bool) { return ""; }
template <typename L> void write_string(ByteBuf&, const std::string&) {}
template <typename L> void write_string_le(ByteBuf&, const std::string&) {}
template <typename L> std::string read_string(ByteBuf&) { return ""; }
template <typename L> std::string read_string_le(ByteBuf&) { return ""; }
template <typename L, typename S> void write_string_list(ByteBuf&, const std::vector<std::string>&) {}
template <typename L, typename S> void write_string_list_le(ByteBuf&, const std::vector<std::string>&) {}
template <typename L, typename S> std::vector<std::string> read_string_list(ByteBuf&) { return {}; }
template <typename L, typename S> std::vector<std::string> read_string_list_le(ByteBuf&) { return {}; }
template <typename L> void write_fixed_string_list(ByteBuf&, const std::vector<std::string>&, std::size_t) {}
template <typename L> void write_fixed_string_list(ByteBuf&, const std::vector<std::string>&, std::size_t, char, bool) {}
template <typename L> void write_fixed_string_list_le(ByteBuf&, const std::vector<std::string>&, std::size_t) {}
template <typename L> void write_fixed_string_list_le(ByteBuf&, const std::vector<std::string>&, std::size_t, char, bool) {}
template <typename L> std::vector<std::string> read_fixed_string_list(ByteBuf&, std::size_t) { return {}; }
template <typename L> std::vector<std::string> read_fixed_string_list(ByteBuf&, std::size_t, char, bool) { return {}; }
template <typename L> std::vector<std::string> read_fixed_string_list_le(ByteBuf&, std::size_t) { return {}; }
template <typename L> std::vector<std::string> read_fixed_string_list_le(ByteBuf&, std::size_t, char, bool) { return {}; }
template <typename L, typename T> void write_object_List(ByteBuf&, const std::vector<T>&) {}
template <typename L, typename T> void write_object_List_le(ByteBuf&, const std::vector<T>&) {}
template <typename L, typename T> std::vector<T> read_object_List(ByteBuf&) { return {}; }
template <typename L, typename T> std::vector<T> read_object_List_le(ByteBuf&) { return {}; }
}  // namespace codec
