// stub: syntax / type checking only (see ../README.txt)
#pragma once
#include <memory>
#include <string>
template <typename T, typename R> struct ChecksumService {
  virtual ~ChecksumService() = default;
  virtual R calc(const T&) const = 0;
};
class ChecksumServiceContext {
 public:
  static ChecksumServiceContext& instance() { static ChecksumServiceContext c; return c; }
  template <typename T, typename R> ChecksumService<T, R>* get(const std::string&) { return nullptr; }
};
