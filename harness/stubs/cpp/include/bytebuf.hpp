// stub: syntax / type checking only (see ../README.txt)
#pragma once
#include <cstddef>
#include <cstdint>
#include <string>
#include <vector>
class ByteBuf {
 public:
  std::size_t writer_index() const { return 0; }
  std::size_t reader_index() const { return 0; }
#define FP_STUB_RW(N, T)                                   \
  void write_##N(T) {}                                     \
  void write_##N##_le(T) {}                                \
  T read_##N() { return T(); }                             \
  T read_##N##_le() { return T(); }                        \
  void write_##N##_at(std::size_t, T) {}                   \
  void write_##N##_le_at(std::size_t, T) {}
  FP_STUB_RW(u8, uint8_t)
  FP_STUB_RW(i8, int8_t)
  FP_STUB_RW(u16, uint16_t)
  FP_STUB_RW(i16, int16_t)
  FP_STUB_RW(u32, uint32_t)
  FP_STUB_RW(i32, int32_t)
  FP_STUB_RW(u64, uint64_t)
  FP_STUB_RW(i64, int64_t)
  FP_STUB_RW(f32, float)
  FP_STUB_RW(f64, double)
#undef FP_STUB_RW
};
