"""Input texts for the syntax correspondence check (harness/syntax.py).

Everything is derived from ONE seeded PRNG (random.Random(seed)): generate(seed, n) returns
exactly n texts (bytes, as a .dsl file would hold them) with a kind label:

  gen           grammar-directed valid programs: every alternative, optional elements present
                and absent, repetitions 0/1/many, both spellings of the type keywords, key
                lists, doc strings (multi-line too), comments at token boundaries, CRLF, tabs,
                identifiers that look like keywords, numbers with leading zeros, non-ASCII
                runes in strings/docs/comments.  The generator records what it covered.
  sample        /repo/internal/parser/testdata/*.dsl, /repo/chat/proto/chat.dsl (also CRLF/tab forms)
  fault:*       for a valid text: EVERY single-token deletion, duplication, adjacent swap, one
                replacement per token by a token of another type, truncation at every token
                boundary and at random byte offsets (may cut a UTF-8 sequence), insertion of
                unlexable pieces
  junk:*        empty and whitespace-only texts, random bytes, random printable ASCII, token soup

`python3 harness/texts.py --seed S --n N` prints the distribution (valid / lexer error /
parser error, per kind) as the REAL lexer and parser classify the texts, and the coverage.
"""
import argparse
import collections
import os
import random
import sys

sys.path.insert(0, os.path.dirname(os.path.abspath(__file__)))

BASIC_TYPES = ["char", "uint8", "u8", "uint16", "u16", "uint32", "u32", "uint64", "u64", "int8", "i8", "int16", "i16",
               "int32", "i32", "int64", "i64", "float32", "f32", "float64", "f64"]
IDENTS = ["A", "x", "Foo", "msg_type", "BodyLength", "_x", "a1", "Z9_", "Logon", "Header", "body", "len", "crc", "T",
          "packetx", "u8x", "rootA", "charz", "zchar", "options1", "matchKey", "asx", "trueish", "falsey", "MetaDataX",
          "string_", "i64_", "repeatCount", "uint8x", "f32a", "Pad", "leftPad", "roots", "Packet", "metadata", "As",
          "u128", "int", "float", "chars", "stringy", "x_y_z", "tag", "lengthOf", "calculatedFrom", "o", "pack", "u", "i8i8"]
DIGITS = ["0", "1", "7", "10", "007", "00", "42", "255", "65535", "0123456789", "4294967296", "3"]
STRINGS = ['"abc"', '""', '"CRC32"', '"a\\"b"', '"a\\\\"', '"x y"', '"// no comment"', '"`tick`"', '"it\'s"', '"\\n"',
           '"été"', '"消息"', '"a\tb"', '"{,}"', '"\\é"', '"1"', '"packet"', '"\U0001f600"']
DOCS = ["`doc`", "``", "`two words`", "`line1\nline2`", "`crlf\r\nline`", "`消息类型`", "`say \"hi\"`",
        "`// not a comment`", "`it's`", "`tab\there`", "`{ , }`", "`\n`", "`a\\`", "`é`", "`u8 x,`", "`100% of %d`"]
COMMENTS = ["// c", "//", "// packet A { u8 x, }", "//\tt", "// 注释", "// `tick` \"quote\" 'q'", "/// triple", "// a // b",
            "//x", "// trailing space ", "// @lengthOf(", "// \U0001f600 emoji", "// 50% %s"]
PAD_CHARS = ["'0'", "' '", "'\\x00'"]
PAD_ATTRS = ["@leftPad", "@rightPad"]

# one representative text per token type, for replacement faults and token soup
TOKEN_POOL = {1: ["options"], 2: ["{"], 3: ["}"], 4: ["="], 5: ["@calculatedFrom("], 6: [")"], 7: ["@lengthOf("], 8: ["("],
              9: ["@tag("], 10: ["true"], 11: ["false"], 12: ["char["], 13: ["]"], 14: ["zchar["], 15: ["string"], 16: ["char[]"],
              17: ["as"], 18: ["["], 19: ["char"], 20: ["uint8", "u8"], 21: ["uint16", "u16"], 22: ["uint32", "u32"],
              23: ["uint64", "u64"], 24: ["int8", "i8"], 25: ["int16", "i16"], 26: ["int32", "i32"], 27: ["int64", "i64"],
              28: ["float32", "f32"], 29: ["float64", "f64"], 30: DIGITS, 31: STRINGS, 32: PAD_ATTRS, 33: PAD_CHARS,
              34: ["root"], 35: ["packet"], 36: ["repeat"], 37: ["MetaData"], 38: ["match"], 39: [":"], 40: [","], 41: [";"],
              42: IDENTS, 43: DOCS}
UNLEXABLE = ["#", "$", "@x", '"', "'", "`", "@", "\\", "?", "'1'", "@leftpad", "\x00", "﻿", " ", "%", "~", "'\\x01'",
             "@tag", "@lengthOf", "/", "é", "|", "<", "\x7f", "''"]
NONASCII_IDENTS = ["naïve", "über", "x²", "名字", "áb", "café_1"]


def is_id_char(c):
    return c.isascii() and (c.isalnum() or c == "_")


def must_separate(prev, nxt):
    """Would prev and nxt lex differently when written without anything between them?"""
    if not prev or not nxt:
        return False
    if is_id_char(prev[-1]) and is_id_char(nxt[0]):
        return True
    if nxt[0] == "[" and (prev.endswith("char")):
        return True
    if prev.endswith("char[") and nxt[0] == "]":
        return True
    if prev[-1] == "/" and nxt[0] == "/":
        return True
    return False


class Gen:
    def __init__(self, rng):
        self.rng = rng
        self.cov = collections.Counter()

    # -------------------------------------------------------------- coverage
    def hit(self, what, how):
        self.cov["%s=%s" % (what, how)] += 1

    def opt(self, what, p=0.5):
        v = self.rng.random() < p
        self.hit(what, "present" if v else "absent")
        return v

    def count(self, what, weights=(2, 3, 5), many=(2, 6)):
        """0 / 1 / many"""
        k = self.rng.choices([0, 1, 2], weights=weights)[0]
        self.hit(what, ["0", "1", "many"][k])
        return [0, 1, self.rng.randint(*many)][k]

    def alt(self, what, names, weights=None):
        v = self.rng.choices(names, weights=weights)[0]
        self.hit(what, v)
        return v

    # -------------------------------------------------------------- terminals
    def ident(self):
        return self.rng.choice(IDENTS)

    def digits(self):
        return self.rng.choice(DIGITS)

    def string(self):
        return self.rng.choice(STRINGS)

    def doc(self):
        return self.rng.choice(DOCS)

    # -------------------------------------------------------------- rules
    def type_(self, out):
        a = self.alt("type", ["basicType", "fixedString", "dynamicString"], [5, 3, 2])
        if a == "basicType":
            t = self.rng.choice(BASIC_TYPES)
            self.hit("basicType", t)
            out.append(t)
        elif a == "fixedString":
            out.extend([self.alt("fixedString", ["char[", "zchar["]), self.digits(), "]"])
        else:
            out.append(self.alt("dynamicString", ["string", "char[]"]))

    def value(self, out):
        a = self.alt("value", ["type", "STRING", "DIGITS", "PADDING_CHAR", "true", "false"], [3, 3, 2, 2, 1, 1])
        if a == "type":
            self.type_(out)
        elif a == "STRING":
            out.append(self.string())
        elif a == "DIGITS":
            out.append(self.digits())
        elif a == "PADDING_CHAR":
            out.append(self.rng.choice(PAD_CHARS))
        else:
            out.append(a)

    def length_of(self, out):
        out.extend(["@lengthOf(", self.ident(), ")"])

    def calculated_from(self, out):
        out.extend(["@calculatedFrom(", self.string(), ")"])

    def field_attribute(self, out):
        a = self.alt("fieldAttribute", ["lengthOf", "calculatedFrom", "tag", "padding"])
        if a == "lengthOf":
            self.length_of(out)
        elif a == "calculatedFrom":
            self.calculated_from(out)
        elif a == "tag":
            out.extend(["@tag(", self.digits(), ")"])
        else:
            out.extend([self.rng.choice(PAD_ATTRS), "("])
            if self.opt("paddingAttribute.PADDING_CHAR", 0.7):
                out.append(self.rng.choice(PAD_CHARS))
            out.append(")")

    def opt_doc(self, out, what):
        if self.opt(what + ".STRING_LITERAL", 0.4):
            out.append(self.doc())

    def meta_decl(self, out):
        self.type_(out)
        out.append(self.ident())
        self.opt_doc(out, "metaDataDeclaration")
        out.append(",")

    def key_item(self, out):
        out.append(self.digits() if self.alt("list.item", ["DIGITS", "STRING"]) == "DIGITS" else self.string())

    def match_pair(self, out):
        a = self.alt("matchPair.key", ["DIGITS", "STRING", "list"], [4, 3, 3])
        if a == "DIGITS":
            out.append(self.digits())
        elif a == "STRING":
            out.append(self.string())
        else:
            out.append("[")
            self.key_item(out)
            for _ in range(self.count("list.more", (3, 3, 4), (2, 7))):
                out.append(",")
                self.key_item(out)
            out.append("]")
        out.extend([":", self.ident()])
        if self.opt("matchPair.COMMA", 0.75):
            out.append(",")

    def field_def(self, out, depth):
        names = ["InerObjectField", "MetaField", "ObjectField", "LengthField", "CheckSumField", "MatchField"]
        weights = [2 if depth < 3 else 0, 6, 4, 2, 2, 2]
        a = self.alt("fieldDefinition", names, weights)
        if a == "InerObjectField":
            if self.opt("InerObjectField.REPEAT", 0.4):
                out.append("repeat")
            out.extend([self.ident(), "{"])
            k = self.rng.choices([1, 2], weights=(4, 6))[0]
            self.hit("inerObjectDeclaration.fieldDefinition+", ["", "1", "many"][k])
            for _ in range(1 if k == 1 else self.rng.randint(2, 4)):
                self.field_def(out, depth + 1)
            out.extend(["}", ","])
        elif a == "MetaField":
            if self.opt("MetaField.REPEAT", 0.3):
                out.append("repeat")
            self.meta_decl(out)
        elif a == "ObjectField":
            if self.opt("ObjectField.REPEAT", 0.3):
                out.append("repeat")
            out.append(self.ident())
            if self.opt("ObjectField.fname"):
                out.append(self.ident())
            self.opt_doc(out, "ObjectField")
            out.append(",")
        elif a in ("LengthField", "CheckSumField"):
            if self.opt(a + ".type", 0.6):
                self.type_(out)
            out.append(self.ident())
            if a == "LengthField":
                self.length_of(out)
            else:
                self.calculated_from(out)
            self.opt_doc(out, a)
            out.append(",")
        else:
            out.extend(["match", self.ident(), "as", self.ident(), "{"])
            k = self.rng.choices([1, 2], weights=(3, 7))[0]
            self.hit("matchFieldDeclaration.matchPair+", ["", "1", "many"][k])
            for _ in range(1 if k == 1 else self.rng.randint(2, 6)):
                self.match_pair(out)
            out.extend(["}", ","])

    def packet_def(self, out, big):
        if self.opt("packetDefinition.ROOT", 0.3):
            out.append("root")
        out.extend(["packet", self.ident(), "{"])
        for _ in range(self.count("packetDefinition.fields", (2, 3, 6), (2, 10 if big else 4))):
            for _ in range(self.count("fieldDefinitionWithAttribute.attrs", (6, 3, 1), (2, 3))):
                self.field_attribute(out)
            self.field_def(out, 0)
        out.append("}")

    def meta_def(self, out):
        out.extend(["MetaData", self.ident(), "{"])
        for _ in range(self.count("metaDataDefinition.items", (2, 3, 5), (2, 6))):
            if self.alt("metaDataDefinition.item", ["metaDataDeclaration", "refMetaDataDeclaration"], [6, 4]) == "metaDataDeclaration":
                self.meta_decl(out)
            else:
                out.extend([self.ident(), self.ident()])
                self.opt_doc(out, "refMetaDataDeclaration")
                out.append(",")
        out.append("}")

    def option_def(self, out):
        out.extend(["options", "{"])
        for _ in range(self.count("optionDefinition.decls", (2, 3, 5), (2, 5))):
            out.extend([self.ident(), "="])
            self.value(out)
            if self.opt("optionDeclaration.SEMICOLON", 0.6):
                out.append(";")
        out.append("}")

    def program(self, big=True):
        """A valid program as a token list."""
        out = []
        n = self.count("packet.definitions", (1, 4, 6), (2, 5 if big else 3))
        for _ in range(n):
            a = self.alt("packet.child", ["packetDefinition", "metaDataDefinition", "optionDefinition"], [6, 2, 2])
            if a == "packetDefinition":
                self.packet_def(out, big)
            elif a == "metaDataDefinition":
                self.meta_def(out)
            else:
                self.option_def(out)
        return out

    # -------------------------------------------------------------- layout
    def comment(self):
        return self.rng.choice(COMMENTS)

    def separator(self, prev, nxt):
        r = self.rng
        need = must_separate(prev, nxt)
        k = r.choices(["sp", "none", "nl", "nlind", "tab", "crlf", "sp2", "cmt"], weights=[48, 16, 8, 8, 4, 4, 3, 9])[0]
        if k == "none":
            self.hit("layout", "no space" if not need else "space")
            return " " if need else ""
        if k == "cmt":
            form = r.choice(["sp", "attached", "block", "crlf", "own line"])
            self.hit("layout", "comment " + form)
            if form == "sp":
                return " " + self.comment() + "\n"
            if form == "attached":
                return self.comment() + "\n"
            if form == "block":
                return "\n" + self.comment() + "\n" + self.comment() + "\n"
            if form == "crlf":
                return " " + self.comment() + "\r\n"
            return "\n    " + self.comment() + "\n    "
        self.hit("layout", k)
        return {"sp": " ", "nl": "\n", "nlind": "\n    ", "tab": "\t", "crlf": "\r\n", "sp2": "  "}[k]

    def layout(self, toks):
        """Separators: len(toks)+1 strings (before the first token ... after the last)."""
        r = self.rng
        seps = [r.choices(["", "\n", self.comment() + "\n", "  ", "\r\n"], weights=[14, 2, 2, 1, 1])[0]]
        for i in range(1, len(toks)):
            seps.append(self.separator(toks[i - 1], toks[i]))
        last = r.choices(["", "\n", " " + self.comment(), "\r\n", "\n\n", "\n" + self.comment() + "\n", " \t "],
                         weights=[6, 8, 2, 1, 1, 1, 1])[0]
        if toks:
            seps.append(last)
        else:
            seps[0] = seps[0] + last
        return seps


def join(toks, seps):
    return seps[0] + "".join(t + s for t, s in zip(toks, seps[1:]))


def fix(toks, seps):
    """Keep token faults token faults: never let two tokens glue together."""
    seps = list(seps)
    for i in range(1, len(toks)):
        if seps[i] == "" and must_separate(toks[i - 1], toks[i]):
            seps[i] = " "
    return seps


def other_type_token(rng, tok):
    while True:
        ty = rng.choice(sorted(TOKEN_POOL))
        if tok not in TOKEN_POOL[ty]:
            return rng.choice(TOKEN_POOL[ty])


def faults(rng, toks, seps):
    """All fault variants of one valid text: list of (kind, bytes)."""
    out = []
    n = len(toks)
    text = join(toks, seps)

    def add(kind, t, s):
        out.append((kind, join(t, fix(t, s)).encode("utf-8")))

    for i in range(n):
        add("fault:delete", toks[:i] + toks[i + 1:], seps[:i] + [seps[i] + seps[i + 1]] + seps[i + 2:])
        add("fault:duplicate", toks[:i + 1] + [toks[i]] + toks[i + 1:], seps[:i + 1] + [" "] + seps[i + 1:])
        if i + 1 < n:
            add("fault:swap", toks[:i] + [toks[i + 1], toks[i]] + toks[i + 2:], seps)
        add("fault:replace", toks[:i] + [other_type_token(rng, toks[i])] + toks[i + 1:], seps)
        add("fault:truncate-token", toks[:i], seps[:i] + [""] if i else [seps[0]])
    data = text.encode("utf-8")
    for _ in range(5):
        out.append(("fault:truncate-byte", data[:rng.randrange(len(data) + 1)]))
    for k in range(14):
        bad = rng.choice(UNLEXABLE)
        if k % 2 == 0 and n:
            # at a token boundary
            i = rng.randrange(n + 1)
            s = list(seps)
            s[i] = s[i] + bad + rng.choice(["", " "])
            out.append(("fault:insert", join(toks, s).encode("utf-8")))
        else:
            p = rng.randrange(len(text) + 1)
            out.append(("fault:insert", (text[:p] + bad + text[p:]).encode("utf-8")))
    ids = [i for i in range(n) if toks[i] in IDENTS]
    for _ in range(3):
        if ids:
            i = rng.choice(ids)
            add("fault:nonascii-ident", toks[:i] + [rng.choice(NONASCII_IDENTS)] + toks[i + 1:], seps)
    return out


SAMPLE_FILES = ["internal/parser/testdata/sample_binary.dsl", "internal/parser/testdata/sample_binary_formatted.dsl",
                "chat/proto/chat.dsl"]


def samples(repo):
    out = []
    for f in SAMPLE_FILES:
        p = os.path.join(repo, f)
        if not os.path.exists(p):
            continue
        data = open(p, "rb").read()
        out.append(("sample", data))
        out.append(("sample:crlf", data.replace(b"\r\n", b"\n").replace(b"\n", b"\r\n")))
        out.append(("sample:tabs", data.replace(b"    ", b"\t")))
    return out


def junk(rng, g, k):
    fixed = [b"", b" ", b"\n", b"\r\n\t ", b"\r", b"\t\t", b"// only a comment", b"//", b"/", b"// a\n// b\n", b"\n\n\n",
             "﻿".encode("utf-8"), b"\x00", b" \x0c "]
    out = [("junk:blank", f) for f in fixed]
    i = 0
    while len(out) < k:
        m = i % 4
        i += 1
        if m == 0:
            out.append(("junk:bytes", bytes(rng.randrange(256) for _ in range(rng.randint(1, 40)))))
        elif m == 1:
            out.append(("junk:ascii", "".join(chr(rng.randint(32, 126)) for _ in range(rng.randint(1, 40))).encode()))
        else:
            toks = [rng.choice(TOKEN_POOL[rng.choice(sorted(TOKEN_POOL))]) for _ in range(rng.randint(1, 14))]
            out.append(("junk:soup", " ".join(toks).encode("utf-8")))
    return out[:k]


EDGE = [
    # lexer: maximal munch, ties, literals that contain punctuation
    "char[]", "char[ ]", "char[", "char [", "char[]x", "chars", "char_", "charz", "char1", "zchar[", "zchar [", "zchar", "zchar[]",
    "u8x", "u80", "u8", "uint8", "uint88", "uint", "u", "i8i8", "f32 f64 float32 float64 float", "int8 int16 int32 int64 int",
    "true", "trueish", "true1", "false", "falsey", "as", "asx", "a", "options", "option", "optionss", "string", "strings",
    "root", "roots", "packet", "packets", "repeat", "repeats", "MetaData", "Metadata", "metadata", "match", "matches",
    "Packet", "ROOT", "'0'", "' '", "'\\x00'", "'\\x0'", "'1'", "''", "'", "'0", "'  '", "@leftPad", "@rightPad", "@leftPad(",
    "@leftPadx", "@leftpad", "@left", "@centerPad", "@lengthOf(", "@lengthOf (", "@lengthOf", "@tag(", "@tag", "@tag(1)",
    "@calculatedFrom(", "@calculatedFrom", "@", "@@", "/", "//", "/ /", "///", "// x", "//\r", "//\rx", "// a\r\nb", "// a\rb\nc",
    '"', '""', '"a', '"a\\', '"a\\"', '"a\\""', '"a\nb"', '"a\\\nb"', '"a\rb"', '"a\\\rb"', '"\\\\"', '"//"', '"`"', "`", "``", "`a", "`a\nb`",
    "`\r\n`", "`\\`", '`"`', "12ab", "0x10", "007", "1 2", "1.5", "-1", "a-b", "a.b", "a_b", "_", "__", "_1", "1_", "A1b2",
    ": , ; = ( ) [ ] { }", ":,;=()[]{}", "{}{}", "[[]]", "a\tb", "a\rb", "a\r\nb", "a\n\rb", "\ta", "a\x0bb", "a\x0cb", "a\u00a0b",
    "a\u2028b", "\ufeffpacket A {}", "é", "aé", "éa", "名", "// é\n名", '"é" `名` // ü',
    # parser: prediction of the fieldDefinition alternatives, optional parts, repetitions, the end of the start rule
    "packet A { repeat u8 x @lengthOf(y), }", "packet A { repeat x @lengthOf(y), }", "packet A { repeat match k as n { 1 : B }, }",
    "packet A { repeat x @calculatedFrom(\"c\"), }", "packet A { repeat u8 }", "packet A { repeat }", "packet A { repeat repeat u8 x, }",
    "packet A { u8 }", "packet A { u8 , }", "packet A { u8 x }", "packet A { x }", "packet A { x, }", "packet A { x y, }", "packet A { x y z, }",
    "packet A { x `d`, }", "packet A { x y `d`, }", "packet A { x `d` y, }", "packet A { x `d` `e`, }", "packet A { u8 x `d` `e`, }",
    "packet A { char[ x ] y, }", "packet A { char[ 3 y, }", "packet A { char[ 3 ] , }", "packet A { char[3] @lengthOf(y), }",
    "packet A { zchar[3] x @lengthOf(y), }", "packet A { char[] x @calculatedFrom(\"c\") `d`, }", "packet A { string x @lengthOf(y) }",
    "packet A { x @lengthOf(y), }", "packet A { x @lengthOf(y) `d`, }", "packet A { x @calculatedFrom(\"c\") `d`, }",
    "packet A { x @lengthOf(y) @calculatedFrom(\"c\"), }", "packet A { x @lengthOf(3), }", "packet A { x @lengthOf(), }",
    "packet A { x @calculatedFrom(c), }", "packet A { x @tag(1), }", "packet A { u8 x @tag(1), }", "packet A { x @leftPad(), }",
    "packet A { B { }, }", "packet A { B { u8 x, } }", "packet A { B { u8 x, }, }", "packet A { B { u8 x, } C, }",
    "packet A { repeat B { C { u8 x, }, D d, }, }", "packet A { B { @tag(1) u8 x, }, }", "packet A { B { match k as n { 1 : C }, }, }",
    "packet A { match k as n { }, }", "packet A { match k as n { 1 : B } }", "packet A { match k as n { 1 : B }, }",
    "packet A { match k as n { 1 : B 2 : C \"s\" : D [1] : E }, }", "packet A { match k as n { 1 : B,, }, }",
    "packet A { match k as n { [] : B }, }", "packet A { match k as n { [1,] : B }, }", "packet A { match k as n { [1 2] : B }, }",
    "packet A { match k as n { [1,\"a\",2] : B, }, }", "packet A { match k as n { [[1]] : B }, }", "packet A { match k n { 1 : B }, }",
    "packet A { match k as { 1 : B }, }", "packet A { match as as n { 1 : B }, }", "packet A { match k as n { x : B }, }",
    "packet A { match k as n { 1 : 2 }, }", "packet A { match k as n { 1 B }, }", "packet A { match k as n { '0' : B }, }",
    "packet A { @tag(1) }", "packet A { @tag(1) @tag(2) u8 x, }", "packet A { @tag() u8 x, }", "packet A { @tag(x) u8 x, }",
    "packet A { @leftPad u8 x, }", "packet A { @leftPad('0' u8 x, }", "packet A { @leftPad('0' '0') char[2] x, }",
    "packet A { @rightPad(' ') @lengthOf(b) @calculatedFrom(\"c\") @tag(007) match k as n { 1 : B }, }",
    "packet A { u8 x, @tag(1) }", "packet { }", "packet A { } }", "packet A { } ;", "packet A { } packet", "packet A { } root",
    "packet A { } 1", "packet A { } // c", "packet A {", "packet A }", "packet A", "packet", "root", "root root packet A { }",
    "root MetaData M { }", "root options { }", "root packet A { } root packet B { }", "packet A { } x packet B { }",
    "MetaData M { u8 x }", "MetaData M { u8 x, }", "MetaData M { x y, }", "MetaData M { x, }", "MetaData M { x y z, }",
    "MetaData M { repeat u8 x, }", "MetaData M { u8 x `d` , y z `e`, char[3] w, }", "MetaData M { @tag(1) u8 x, }",
    "MetaData M { u8 x @lengthOf(y), }", "MetaData { }", "MetaData M M { }", "MetaData M { match k as n { 1 : B }, }",
    "options { }", "options { a = 1 }", "options { a = 1; b = 2 c = 3;; }", "options { a = ; }", "options { a = b; }", "options { a 1; }",
    "options { = 1; }", "options { a = 1, }", "options { a = char[3]; b = zchar[0] c = char[] d = string e = u8 }",
    "options { a = char[x]; }", "options { a = true; b = false; c = '0'; d = \"s\"; e = 007; }", "options { a = `d`; }",
    "options { a = [1]; }", "options { options = 1; }", "options { packet = 1; }", "options options { }", "options A { }",
    "options { a = 1; } options { a = 1; }", "{ }", "}", "u8 x,", "x", ",", "1", "\"s\"", "`d`",
]


def edge_cases():
    return [("edge", e.encode("utf-8")) for e in EDGE]


def generate(seed, n, repo="/repo"):
    """n texts as (kind, bytes), and the generator (for its coverage counters)."""
    rng = random.Random(seed)
    g = Gen(rng)
    out = []
    n_gen = n // 2
    n_junk = max(n // 16, min(n, 14))
    sam = samples(repo)
    edge = edge_cases() if n >= 1500 else []
    n_fault = max(0, n - n_gen - n_junk - len(sam) - len(edge))
    # (a) valid programs
    for i in range(n_gen):
        toks = g.program(big=(i % 3 != 0))
        out.append(("gen", join(toks, g.layout(toks)).encode("utf-8")))
    # (b) samples
    out.extend(sam)
    # (c) faults of small valid programs, complete per program until the budget is used up
    fl = []
    while len(fl) < n_fault:
        toks = g.program(big=False)
        if not 6 <= len(toks) <= 40:
            continue
        seps = g.layout(toks)
        fs = faults(rng, toks, seps)
        room = n_fault - len(fl)
        if len(fs) > room:
            rng.shuffle(fs)
            fs = fs[:room]
        fl.extend(fs)
    out.extend(fl)
    out.extend(edge)
    out.extend(junk(rng, g, n - len(out)))
    return out[:n], g


def classify(hook, data):
    import tree
    runes = tree.go_runes(data)
    text = tree.runes_text(runes)
    lx = hook.ask({"op": "lex", "text": text})
    ps = hook.ask({"op": "parse", "text": text})
    if lx.get("errors", 0) > 0:
        return "lexer error", runes, lx, ps
    if ps.get("errors", 0) > 0:
        return "parser error", runes, lx, ps
    return "valid", runes, lx, ps


def distribution(items):
    """items: list of (kind, class)."""
    total = collections.Counter(c for _, c in items)
    per = collections.defaultdict(collections.Counter)
    for k, c in items:
        per[k][c] += 1
    n = len(items)
    lines = ["texts: %d   valid: %d (%.1f%%)   lexer error: %d (%.1f%%)   parser error only: %d (%.1f%%)   with errors: %.1f%%" % (
        n, total["valid"], 100.0 * total["valid"] / max(n, 1), total["lexer error"], 100.0 * total["lexer error"] / max(n, 1),
        total["parser error"], 100.0 * total["parser error"] / max(n, 1),
        100.0 * (total["lexer error"] + total["parser error"]) / max(n, 1))]
    for k in sorted(per):
        c = per[k]
        lines.append("  %-22s %5d   valid %5d   lexer error %5d   parser error %5d" % (k, sum(c.values()), c["valid"], c["lexer error"],
                                                                                    c["parser error"]))
    return "\n".join(lines)


def main():
    import core
    ap = argparse.ArgumentParser()
    ap.add_argument("--seed", type=int, default=1)
    ap.add_argument("--n", type=int, default=3000)
    ap.add_argument("--coverage", action="store_true", help="print the coverage counters of the grammar-directed generator")
    ap.add_argument("--dump", type=int, default=0, help="print the first K texts")
    a = ap.parse_args()
    core.build_binaries(want_cli=False)
    items, g = generate(a.seed, a.n)
    hook = core.Hook()
    cls = [(k, classify(hook, d)[0]) for k, d in items]
    hook.close()
    print("seed %d" % a.seed)
    print(distribution(cls))
    if a.coverage:
        for k in sorted(g.cov):
            print("  cover %-50s %d" % (k, g.cov[k]))
    for k, d in items[:a.dump]:
        print("----", k)
        print(d.decode("utf-8", "replace"))


if __name__ == "__main__":
    main()
