"""Correspondence check of the Coq lexer/parser models (coq/Syntax) against the real ANTLR
lexer and parser of /repo, through the verifhook ops "lex" and "parse".

  python3 harness/syntax.py --seed S --n N

For every generated text (harness/texts.py; the text is the list of runes that Go's
[]rune(string) yields, see tree.go_runes):
  lexer : the model's `lex` must be None iff the real lexer reports >= 1 error, otherwise its
          token list (type, text, line, column, channel; hidden tokens included; EOF token last)
          must equal the real one exactly;
  parser: `parse` of the model's tokens must be None iff the production set-up
          (parser.VerifParse = parseWithListener) reports >= 1 error, otherwise the tree must
          equal the real tree exactly (constructors, all terminals with type/text/line/column/
          token index, start/stop of every rule node).
Both sides are printed in the canonical text form of Syntax/ShowPT.v and compared as strings.
With --terms K (default 7) every K-th error-free text additionally checks the Gallina
translators of harness/tree.py: show_toks/show_pt of the TERMS built from the hook dumps,
and `parse` applied to the real token list, must give the same strings.

The model is evaluated by vm_compute inside coqc, in shards run in parallel.
Exit code 0 iff there is no mismatch.
"""
import argparse
import concurrent.futures
import os
import resource
import subprocess
import sys

sys.path.insert(0, os.path.dirname(os.path.abspath(__file__)))
import core
import texts
import tree

PRELUDE = """From FP Require Import Lexer Parser ShowPT Digest.
From Coq Require Import String List NArith.
Import ListNotations.
Open Scope string_scope.
Set Printing Width 100000000.
Set Printing Depth 100000000.
Definition nl : string := String (Ascii.ascii_of_nat 10) EmptyString.
Definition model_lex (rs : list rune) : string := show_toks (lex rs).
Definition model_parse (rs : list rune) : string :=
  show_pt (match lex rs with Some ts => parse ts | None => None end).
(* coqc is slow at printing long strings: digests first (Digest.v), full texts on demand *)
Definition check (rs : list rune) : string :=
  digest (model_lex rs) ++ " " ++ digest (model_parse rs).
Definition full (rs : list rune) : string := model_lex rs ++ nl ++ model_parse rs.
Definition terms (ts : list tok) (t : pt) : string :=
  digest (show_toks (Some ts)) ++ " " ++ digest (show_pt (Some t)) ++ " " ++ digest (show_pt (parse ts)).
Definition terms_full (ts : list tok) (t : pt) : string :=
  show_toks (Some ts) ++ nl ++ show_pt (Some t) ++ nl ++ show_pt (parse ts).
"""


def shard_body(cases, full=False):
    out = []
    for c in cases:
        if not full or c.get("want_full") == "M":
            out.append('Eval vm_compute in ("<<<M%d>>>" ++ %s %s).\n' % (c["id"], "full" if full else "check", tree.g_runes(c["runes"])))
        if (not full and c.get("terms")) or (full and c.get("want_full") == "T"):
            out.append('Eval vm_compute in ("<<<T%d>>>" ++ %s %s %s).\n' % (c["id"], "terms_full" if full else "terms",
                                                                           tree.g_toks(c["toks"]), c["pt"].gallina()))
    return "".join(out)


def coq_eval(name, body, timeout=1200):
    """core.coq_eval with a large stack: the terms of big trees are deeply nested."""
    d = os.path.join(core.COQ, "Run")
    os.makedirs(d, exist_ok=True)
    path = os.path.join(d, name + ".v")
    with open(path, "w", encoding="latin-1") as fh:
        fh.write(PRELUDE + body)
    # VERIF_SYNTAX_DIR: a compiled copy of coq/Syntax to evaluate instead (used to try out mutants of the model)
    args = ["-Q", os.environ.get("VERIF_SYNTAX_DIR") or os.path.join(core.COQ, "Syntax"), "FP"]

    def pre():
        soft, hard = resource.getrlimit(resource.RLIMIT_STACK)
        want = 4 << 30
        if hard != resource.RLIM_INFINITY:
            want = min(want, hard)
        resource.setrlimit(resource.RLIMIT_STACK, (want, hard))

    for attempt in range(3):
        r = subprocess.run(["timeout", str(timeout), "coqc"] + args + [path], stdout=subprocess.PIPE, stderr=subprocess.PIPE,
                           cwd=d, preexec_fn=pre)
        if r.returncode >= 0 and r.returncode != 124:
            break
        # killed by a signal from outside (the machine is shared): try again
    return r.returncode, r.stdout.decode("latin-1"), r.stderr.decode("latin-1")


def run_shard(args):
    name, cases, full = args
    rc, out, err = coq_eval(name, shard_body(cases, full))
    return name, rc, core.parse_results(out), err


def excerpt(data, limit=300):
    s = repr(data)
    return s if len(s) <= limit else s[:limit] + "...(%d bytes)" % len(data)


def first_diff(a, b):
    i = 0
    while i < min(len(a), len(b)) and a[i] == b[i]:
        i += 1
    return "at %d: model ...%s   real ...%s" % (i, a[max(0, i - 40):i + 60], b[max(0, i - 40):i + 60])


def main():
    ap = argparse.ArgumentParser()
    ap.add_argument("--seed", type=int, default=1)
    ap.add_argument("--n", type=int, default=3000)
    ap.add_argument("--shard", type=int, default=0, help="texts per coqc call (default: n/32, between 60 and 400)")
    ap.add_argument("--jobs", type=int, default=16)
    ap.add_argument("--terms", type=int, default=7, help="check the Gallina translators on every K-th valid text (0: never)")
    ap.add_argument("--max-report", type=int, default=20)
    ap.add_argument("--no-make", action="store_true")
    a = ap.parse_args()
    tm = core.Timer()
    core.build_binaries(want_cli=False)
    if not a.no_make:
        ok, out = core.coq_make()
        if not ok:
            print(out[-3000:])
            print("FAIL: the Coq development does not build")
            return 2
    items, gen = texts.generate(a.seed, a.n)
    hook = core.Hook()
    cases, classes, mismatches = [], [], []
    valid_seen = 0
    eof_cols = 0
    for i, (kind, data) in enumerate(items):
        cls, runes, lx, ps = texts.classify(hook, data)
        classes.append((kind, cls))
        c = {"id": i, "kind": kind, "data": data, "runes": runes, "cls": cls}
        if "tokens" not in lx or "tree" not in ps:
            mismatches.append((c, "hook", "the hook did not answer: %r %r" % (lx, ps)))
            continue
        toks = tree.lex_tokens(lx, runes)
        c["toks"] = toks
        c["exp_lex"] = "ERR" if lx["errors"] > 0 else tree.show_toks(toks)
        if ps["errors"] > 0:
            c["exp_parse"] = "ERR"
        else:
            try:
                c["pt"] = tree.translate(ps, toks)
                c["exp_parse"] = c["pt"].show()
            except tree.Shape as e:
                mismatches.append((c, "translate", "error-free real tree has an unexpected shape: %s" % e))
                c["exp_parse"] = "?"
            if "pt" in c and a.terms:
                valid_seen += 1
                c["terms"] = valid_seen % a.terms == 0
            # the EOF token is derived (tree.eof_position); its column can be observed: the visitor stores
            # GetTokenSource().GetCharPositionInLine(), the lexer's final column, as Column of every packet
            vs = hook.ask({"op": "visit", "text": tree.runes_text(runes)})
            pk = (vs.get("model") or {}).get("packets") or []
            if pk:
                eof_cols += 1
                if pk[0]["col"] != toks[-1][3]:
                    mismatches.append((c, "eof", "derived EOF column %d, the lexer's final column is %d" % (toks[-1][3], pk[0]["col"])))
        cases.append(c)
    hook.close()
    t_real = tm.s()
    size = a.shard or max(60, min(400, (len(cases) + 31) // 32))
    # interleave so that the big texts spread over the shards
    nsh = max(1, (len(cases) + size - 1) // size)
    shards = [("syn_s%d_%d" % (a.seed, k), cases[k::nsh], False) for k in range(nsh)]
    got = {}
    with concurrent.futures.ThreadPoolExecutor(max_workers=a.jobs) as ex:
        for name, rc, res, err in ex.map(run_shard, shards):
            if rc != 0:
                mismatches.append(({"id": -1, "kind": name, "data": b""}, "coqc", "coqc failed (rc %s): %s" % (rc, err[-1500:])))
            got.update(res)
    checked_terms = 0
    suspects = []
    for c in cases:
        m = got.get("M%d" % c["id"])
        if m is None:
            mismatches.append((c, "model", "no result from coqc"))
        elif m != tree.digest(c["exp_lex"]) + " " + tree.digest(c["exp_parse"]):
            suspects.append(dict(c, want_full="M"))
        if c.get("terms"):
            t = got.get("T%d" % c["id"])
            checked_terms += 1
            if t is None:
                mismatches.append((c, "terms", "no result from coqc"))
            elif t != " ".join([tree.digest(c["exp_lex"]), tree.digest(c["exp_parse"]), tree.digest(c["exp_parse"])]):
                suspects.append(dict(c, want_full="T"))
    # second pass: the full texts of the cases whose digests differ (all counted, the first ones shown)
    shown = suspects[:max(a.max_report, 1)]
    full = {}
    if shown:
        rc, out, err = coq_eval("syn_s%d_full" % a.seed, shard_body(shown, True))
        full = core.parse_results(out)
    for k, c in enumerate(suspects):
        key = "%s%d" % (c["want_full"], c["id"])
        if key not in full:
            mismatches.append((c, "digest", "digests differ (full text not printed)"))
            continue
        parts = full[key].split("\n")
        if c["want_full"] == "M":
            exp = [("lexer", c["exp_lex"]), ("parser", c["exp_parse"])]
        else:
            exp = [("terms: show_toks of the token term", c["exp_lex"]), ("terms: show_pt of the tree term", c["exp_parse"]),
                   ("terms: parse of the real token list", c["exp_parse"])]
        bad = False
        for (what, e), m in zip(exp, parts):
            if m != e:
                bad = True
                mismatches.append((c, what, first_diff(m, e)))
        if not bad:
            mismatches.append((c, "harness", "digests differ but the full texts are equal"))
    print("seed %d  n %d  shards %d x ~%d  (real side %.1fs, total %.1fs)" % (a.seed, len(items), nsh, size, t_real, tm.s()))
    print(texts.distribution(classes))
    print("Gallina translators checked on %d error-free texts; derived EOF column checked against the lexer's final column on %d texts"
          % (checked_terms, eof_cols))
    for c, what, msg in mismatches[:a.max_report]:
        print("MISMATCH [%s] text %s (%s) %s\n    %s" % (what, c["id"], c["kind"], excerpt(c["data"]), msg))
    print("mismatches: %d" % len(mismatches))
    return 0 if not mismatches else 1


if __name__ == "__main__":
    sys.exit(main())
