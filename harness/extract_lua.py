"""Inverse of the Lua generator's templates: the emitted <root>.lua -> Lua IR (lua_ir.py).

Strict inside the dissector functions: every non-blank line must be claimed by a template,
otherwise it becomes a Junk statement (which the model never prints, hence a mismatch).
The chunk around the functions (header, Proto, the fields table, the registration loop, the
port registration) is checked line by line against its fixed text; of the fields table the
(key, ProtoField constructor) pairs are extracted, since `fields.X` must exist when used.
Widths, methods and names come from the emitted text, never from the model."""
import re

ID = r"[A-Za-z_][A-Za-z_0-9]*"
LEN = r"\d+|" + ID


def lexpr(tok):
    return int(tok) if tok.isdigit() else tok


R_SUB = re.compile(r'^local subtree = (%s):add\((%s), buf\(offset, (\d+)\), "(.*)"\)$' % (ID, ID))
R_APP = re.compile(r'^(%s):append_text\(" \(No Body\)"\)$' % ID)
R_ADD = re.compile(r'^(%s):(add|le_add)\(fields\.(%s), buf\(offset, (%s)\)\)$' % (ID, ID, LEN))
R_TXT = re.compile(r'^(%s):add\("(.*) (Size|Len): "\.\. (%s), buf\(offset, (\d+)\)\)$' % (ID, ID))
R_ADV = re.compile(r'^offset = offset \+ (%s)$' % LEN)
R_LOC = re.compile(r'^local (%s) = buf\(offset, (%s)\):(%s)\(\)$' % (ID, LEN, ID))
R_FOR = re.compile(r'^for i=1,(%s) do$' % ID)
R_CALL = re.compile(r'^(offset = )?(%s)\(buf, pinfo, (%s), offset\)$' % (ID, ID))
R_IF = re.compile(r'^(if|elseif) (%s) == (.*) then -- (%s)$' % (ID, ID))
R_SET = re.compile(r'^pinfo\.cols\.info:set\("(.*)"\)$')
R_APPEND = re.compile(r'^pinfo\.cols\.info:append\(" (.*)\["\.\.i\.\."\]"\)$')
R_MARK = re.compile(r'^-- ((unsupported (numeric )?type: |error generating code: ).*)$')


class Body:
    def __init__(self, lines, proto_var):
        self.l = [x.strip() for x in lines if x.strip()]
        self.i = 0
        self.proto = proto_var

    def block(self, stops):
        """statements up to (not including) a line whose first word is in stops"""
        out = []
        while self.i < len(self.l):
            line = self.l[self.i]
            word = line.split(" ")[0]
            if word in stops:
                return out
            self.i += 1
            out.append(self.stmt(line))
        if stops:
            out.append(("Junk", "<<block not closed>>"))
        return out

    def stmt(self, line):
        m = R_SUB.match(line)
        if m:
            if m.group(2) != self.proto:
                return ("Junk", line)
            return ("Sub", m.group(1), int(m.group(3)), m.group(4))
        m = R_APP.match(line)
        if m:
            return ("App", m.group(1))
        m = R_ADD.match(line)
        if m:
            return ("Add", m.group(1), m.group(3), lexpr(m.group(4)), m.group(2) == "le_add")
        m = R_TXT.match(line)
        if m:
            return ("Txt", m.group(1), "%s %s: " % (m.group(2), m.group(3)), m.group(4), int(m.group(5)))
        m = R_ADV.match(line)
        if m:
            return ("Adv", lexpr(m.group(1)))
        m = R_LOC.match(line)
        if m:
            if m.group(3) == "string":
                return ("Str", m.group(1), lexpr(m.group(2)))
            if not m.group(2).isdigit():
                return ("Junk", line)
            return ("Int", m.group(1), int(m.group(2)), m.group(3))
        m = R_FOR.match(line)
        if m:
            body = self.block(("end",))
            if self.i < len(self.l) and self.l[self.i] == "end":
                self.i += 1
            else:
                body.append(("Junk", "<<for without end>>"))
            return ("For", m.group(1), body)
        m = R_IF.match(line)
        if m and m.group(1) == "if":
            arms = []
            while True:
                body = self.block(("elseif", "end"))
                arms.append((m.group(2), m.group(3), body))
                if self.i >= len(self.l):
                    arms[-1][2].append(("Junk", "<<if without end>>"))
                    break
                nxt = self.l[self.i]
                self.i += 1
                if nxt == "end":
                    break
                m = R_IF.match(nxt)
                if not m or m.group(1) != "elseif":
                    arms[-1][2].append(("Junk", nxt))
                    break
            return ("If", arms)
        m = R_CALL.match(line)
        if m:
            return ("Call", m.group(2), m.group(3), m.group(1) is not None)
        m = R_SET.match(line)
        if m:
            return ("Info", "set:" + m.group(1))
        m = R_APPEND.match(line)
        if m:
            return ("Info", "append:" + m.group(1))
        m = R_MARK.match(line)
        if m:
            return ("Marker", m.group(1))
        if line == "return offset":
            return ("Ret",)
        return ("Junk", line)


def parse_body(lines, proto_var):
    b = Body(lines, proto_var)
    out = b.block(())
    return out


def extract_lua(files, model_dump=None, names=None):
    """files: {name: text} as emitted.  Returns (prog, notes); notes lists every deviation of the
    boilerplate from its fixed text (each one also leaves a Junk trace in prog)."""
    notes = []
    prog = {"fields": [], "funs": [], "main": []}
    if len(files) != 1:
        notes.append("expected one file, got %s" % sorted(files))
        prog["main"].append(("Junk", "<<%d files>>" % len(files)))
        if not files:
            return prog, notes
    fname = sorted(files)[0]
    L = files[fname].split("\n")

    def junk(what):
        notes.append(what)
        prog["fields"].append(("?junk", what))

    i = 0
    for want in ("-- Code generated by fin-protoc. DO NOT EDIT.", "", ""):
        if i >= len(L) or L[i] != want:
            junk("header line %d: %r" % (i, L[i] if i < len(L) else None))
        i += 1
    m = re.match(r'^local (%s) = Proto\("(.*)", "(.*) Protocol"\)$' % ID, L[i] if i < len(L) else "")
    if not m or m.group(2) != m.group(3):
        junk("Proto line: %r" % (L[i] if i < len(L) else None))
        return prog, notes
    proto = m.group(1)
    prog["proto"] = proto
    prog["proto_name"] = m.group(2)
    if fname != proto[:-len("_proto")] + ".lua" or not proto.endswith("_proto"):
        junk("file name %s does not match %s" % (fname, proto))
    i += 1
    if L[i] != "local fields = {":
        junk("fields table start: %r" % L[i])
        return prog, notes
    i += 1
    while i < len(L) and L[i] != "}":
        line = L[i]
        i += 1
        s = line.strip()
        if not s:
            continue
        m = re.match(r'^(%s) = ProtoField\.(%s)\("([^"]*)", "([^"]*)"(, base\.(DEC|OCT))?\),$' % (ID, ID), s)
        if m:
            prog["fields"].append((m.group(1), m.group(2)))
            continue
        if re.match(r"^-- (Field from |Unsupported type: |unsupported numeric type: )", s):
            continue
        junk("fields table line: %r" % line)
    i += 1
    for want in ("", "for _, field in pairs(fields) do", "    %s.fields[field] = field" % proto, "end", ""):
        if i >= len(L) or L[i] != want:
            junk("registration line %d: %r" % (i, L[i] if i < len(L) else None))
        i += 1
    # the functions
    main_seen = False
    tail = ["local tcp_table = DissectorTable.get(\"tcp.port\")", "tcp_table:add(8080, %s)" % proto, ""]
    while i < len(L):
        line = L[i]
        if line == tail[0]:
            break
        i += 1
        if line == "":
            continue
        m = re.match(r"^local function (%s)\(buf, pinfo, tree, offset\)$" % ID, line)
        m2 = re.match(r"^function (%s)\.dissector\(buf, pinfo, tree\)$" % ID, line)
        if not (m or m2):
            prog["funs"].append(("?junk", True, [("Junk", line)]))
            continue
        j = i
        while j < len(L) and L[j] != "end":
            j += 1
        if j >= len(L):
            prog["funs"].append(("?unterminated", True, [("Junk", line)]))
            break
        body_lines = L[i:j]
        i = j + 1
        if m:
            if main_seen:
                prog["funs"].append(("?after-main", True, [("Junk", line)]))
            prog["funs"].append((m.group(1), True, parse_body(body_lines, proto)))
        else:
            pre = []
            if m2.group(1) != proto or main_seen:
                pre.append(("Junk", line))
            main_seen = True
            want0 = '    pinfo.cols.protocol = "%s"' % proto[:-len("_proto")]
            if len(body_lines) < 2 or body_lines[0] != want0 or body_lines[1] != "    local offset = 0":
                pre.append(("Junk", "<<main prologue>> %r" % body_lines[:2]))
                rest = body_lines
            else:
                rest = body_lines[2:]
            prog["main"] = pre + parse_body(rest, proto)
    if not main_seen:
        prog["main"].append(("Junk", "<<no main dissector>>"))
    if L[i:] != tail:
        junk("tail: %r" % L[i:])
    return prog, notes
