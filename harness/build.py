import os, sys
sys.path.insert(0, os.path.dirname(os.path.abspath(__file__)))
import core
core.build_binaries(want_cli=True, want_lib=False)
print("binaries built")
