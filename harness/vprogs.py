"""Well-formed DSL programs and semantic fault injection for the visitor checks
(harness/visitor.py).  Everything is derived from a seeded random.Random.

A program is a small AST (dicts), rendered to text with one declaration per line (so that
the line of a diagnostic says something), attributes before the field on the same or on
earlier lines, multi-line docs and key lists, comments:

  prog   {"defs": [def...]}
  def    {"k": "options", "decls": [{"name", "value": [tok..], "semi": bool}]}
         {"k": "meta", "name", "items": [{"k": "decl", "type": [tok..], "name", "doc"} | {"k": "ref", "typ", "name", "doc"}]}
         {"k": "packet", "root": bool, "name", "fields": [field...]}
  field  {"k": "meta", "rep", "type": [tok..], "name", "doc", "attrs"}        type name,
         {"k": "obj", "rep", "ftype", "fname"|None, "doc", "attrs"}           Type name?,
         {"k": "inline", "rep", "name", "fields", "attrs"}                    name { ... },
         {"k": "len", "type"|None, "name", "target", "doc", "attrs"}          type? name @lengthOf(target),
         {"k": "sum", "type"|None, "name", "alg", "doc", "attrs"}             type? name @calculatedFrom("alg"),
         {"k": "match", "key", "name", "pairs": [{"keys": [tok..], "list": bool, "value", "comma": bool}], "attrs"}
  attrs  list of token lists, e.g. ["@tag(", "3", ")"], ["@leftPad", "(", "'0'", ")"]

generate(rng) makes a WELL-FORMED program: unique names, at most one root, references to
declared packets / MetaData entries / fields only, attributes where they make sense, legal
option values.  "features" records constructs that are well-formed but that the tool chain
is known to mishandle (so that C08, which needs two accepted compilations, can avoid them).

faults(prog, rng) yields (class, site, mutated program): one semantic fault of each C12
class at every site of the program, plus attribute misuse.
"""
import copy
import random

INT_TYPES = [["u8"], ["uint8"], ["u16"], ["uint16"], ["u32"], ["uint32"], ["u64"], ["uint64"], ["i8"], ["int8"], ["i16"], ["int16"],
             ["i32"], ["int32"], ["i64"], ["int64"]]
FLOAT_TYPES = [["f32"], ["float32"], ["f64"], ["float64"]]
DYN_TYPES = [["string"], ["char[]"]]
PACKET_NAMES = ["Header", "Logon", "Logout", "NewOrder", "Cancel", "Trade", "Quote", "Heartbeat", "Reject", "Leg", "Party", "Entry",
                "Snapshot", "Ack", "Fill"]
META_NAMES = ["MsgType", "SeqNum", "Symbol", "Price", "Side", "Account", "ClOrdID", "Qty", "SenderID", "TargetID", "Flags", "Text"]
FIELD_NAMES = ["msg_type", "seq", "symbol", "price", "side", "account", "qty", "flags", "ts", "user", "venue", "kind", "count",
               "note", "ref_id", "leaves", "px", "sz", "code", "seq_no", "a", "b", "c"]
DOCS = ["`doc`", "`two words`", "`line1\nline2`", "``", "`消息`"]
COMMENTS = ["// c", "// packet X { u8 y, }", "//", "// @lengthOf(z)"]
ALGS = ['"CRC32"', '"CRC16"', '"SUM8"', '"XOR"']


def fixed_type(rng, z=None):
    z = rng.random() < 0.4 if z is None else z
    return ["zchar[" if z else "char[", str(rng.choice([1, 3, 8, 16, 32])), "]"]


def any_type(rng):
    r = rng.random()
    if r < 0.45:
        return rng.choice(INT_TYPES)
    if r < 0.55:
        return rng.choice(FLOAT_TYPES)
    if r < 0.6:
        return ["char"]
    if r < 0.85:
        return fixed_type(rng)
    return rng.choice(DYN_TYPES)


def is_fixed(ty):
    return ty[0] in ("char[", "zchar[")


def doc(rng, p=0.3):
    return rng.choice(DOCS) if rng.random() < p else None


def tag_attr(rng):
    return ["@tag(", str(rng.choice([1, 7, 35, 49, 1128])), ")"]


def pad_attr(rng):
    a = [rng.choice(["@leftPad", "@rightPad"]), "("]
    if rng.random() < 0.8:
        a.append(rng.choice(["'0'", "' '", "'\\x00'"]))
    return a + [")"]


class Gen:
    def __init__(self, rng):
        self.rng = rng
        self.features = set()

    def fresh(self, pool, used):
        r = self.rng
        for _ in range(50):
            n = r.choice(pool)
            if n not in used:
                used.add(n)
                return n
        n = r.choice(pool) + str(len(used))
        while n in used:
            n += "x"
        used.add(n)
        return n

    def metas(self):
        r = self.rng
        blocks, names, types = [], set(), {}
        for b in range(r.choice([0, 1, 1, 1, 2])):
            items = []
            for _ in range(r.choice([0, 1, 2, 3, 4, 5])):
                if types and r.random() < 0.25:
                    typ = r.choice(sorted(types))
                    n = self.fresh(META_NAMES, names)
                    items.append({"k": "ref", "typ": typ, "name": n, "doc": doc(r)})
                    types[n] = types[typ]
                else:
                    n = self.fresh(META_NAMES, names)
                    ty = any_type(r)
                    items.append({"k": "decl", "type": ty, "name": n, "doc": doc(r)})
                    types[n] = ty
            blocks.append({"k": "meta", "name": "M%d" % b if b else r.choice(["Fields", "Common", "Types"]), "items": items})
        return blocks, types

    def options(self, risky):
        r = self.rng
        blocks = []
        table = [("StringPrefixLenType", [["u8"], ["u16"], ["u32"], ["u64"]]), ("ArrayPrefixLenType", [["u8"], ["u16"], ["u32"], ["u64"]]),
                 ("LittleEndian", [["true"], ["false"]]), ("JavaPackage", [['"com.example.proto"'], ['"p"']]),
                 ("GoPackage", [['"proto"'], ['"codec"']]), ("GoModule", [['"example.com/proto"']]),
                 ("FixedStringPadFromLeft", [["true"], ["false"]]), ("FixedStringPadChar", [["'0'"], ["' '"]])]
        if r.random() < 0.6:
            decls = []
            for name, vals in table:
                if r.random() < 0.4:
                    v = r.choice(vals)
                    if risky and name == "FixedStringPadChar" and r.random() < 0.3:
                        v = ["'\\x00'"]
                        self.features.add("option-padchar-nul")
                    if risky and name.endswith("PrefixLenType") and r.random() < 0.2:
                        v = [{"u8": "uint8", "u16": "uint16", "u32": "uint32", "u64": "uint64"}[v[0]]]
                        self.features.add("option-alias-value")
                    decls.append({"name": name, "value": v, "semi": r.random() < 0.7})
            r.shuffle(decls)
            if len(decls) > 2 and r.random() < 0.2:
                k = r.randrange(1, len(decls))
                blocks = [{"k": "options", "decls": decls[:k]}, {"k": "options", "decls": decls[k:]}]
            else:
                blocks = [{"k": "options", "decls": decls}]
        return blocks

    def simple_field(self, names, metas, allow_attrs):
        """A scalar / string field: type name,  or a MetaData-typed one."""
        r = self.rng
        if metas and r.random() < 0.35:
            mt = r.choice(sorted(metas))
            fname = None
            if mt in names or r.random() < 0.5:
                fname = self.fresh(FIELD_NAMES, names)
            else:
                names.add(mt)
            f = {"k": "obj", "rep": r.random() < 0.15, "ftype": mt, "fname": fname, "doc": doc(r, 0.15), "attrs": []}
            ty = metas[mt]
        else:
            ty = any_type(r)
            f = {"k": "meta", "rep": r.random() < 0.15, "type": ty, "name": self.fresh(FIELD_NAMES, names), "doc": doc(r), "attrs": []}
        if allow_attrs:
            if r.random() < 0.2:
                f["attrs"].append(tag_attr(r))
            if is_fixed(ty) and r.random() < 0.4:
                f["attrs"].append(pad_attr(r))
                if f["k"] == "obj":
                    self.features.add("pad-on-metadata-typed")
            if len(f["attrs"]) == 2 and r.random() < 0.5:
                f["attrs"].reverse()
        return f

    def inline(self, names, metas, packets, depth, risky):
        r = self.rng
        sub_names = set()
        fields = []
        for _ in range(r.choice([1, 2, 2, 3])):
            x = r.random()
            if x < 0.15 and depth < 2:
                fields.append(self.inline(sub_names, metas, packets, depth + 1, risky))
            elif x < 0.25 and packets and risky:
                p = r.choice(packets)
                self.features.add("packet-ref-in-inline")
                fields.append({"k": "obj", "rep": r.random() < 0.2, "ftype": p, "fname": self.fresh(FIELD_NAMES, sub_names), "doc": None,
                               "attrs": []})
            elif x < 0.3 and risky:
                self.features.add("checksum-in-inline")
                fields.append({"k": "sum", "type": ["u16"], "name": self.fresh(FIELD_NAMES, sub_names), "alg": r.choice(ALGS), "doc": None,
                               "attrs": []})
            else:
                fields.append(self.simple_field(sub_names, metas, False))
        return {"k": "inline", "rep": r.random() < 0.35, "name": self.fresh(["Group", "Block", "Item", "Sub", "Hdr", "Rec"], names),
                "fields": fields, "attrs": []}

    def match(self, names, packets, key_field):
        r = self.rng
        is_str = key_field["type"][0] in ("char[", "zchar[", "string", "char[]") if key_field["k"] == "meta" else False
        keys = (['"A"', '"B"', '"D"', '"F"', '"G"', '"8"', '"AE"'] if is_str else ["0", "1", "2", "3", "5", "8", "13", "21", "34"])
        keys = list(keys)
        r.shuffle(keys)
        pairs = []
        n = r.choice([1, 2, 3, 4])
        for i in range(n):
            if not keys:
                break
            if len(keys) >= 3 and r.random() < 0.3:
                ks = [keys.pop() for _ in range(r.choice([2, 3]))]
                pairs.append({"keys": ks, "list": True, "value": r.choice(packets), "comma": r.random() < 0.8})
            else:
                pairs.append({"keys": [keys.pop()], "list": r.random() < 0.1, "value": r.choice(packets), "comma": r.random() < 0.8})
        kname = key_field["name"] if key_field["k"] == "meta" else (key_field["fname"] or key_field["ftype"])
        return {"k": "match", "key": kname, "name": self.fresh(["Body", "Payload", "Msg", "Data"], names), "pairs": pairs, "attrs": []}

    def packet(self, name, packets, metas, root, risky):
        r = self.rng
        names = set()
        fields = []
        n = r.choice([1, 2, 3, 4, 5, 6])
        did_match = False
        for _ in range(n):
            x = r.random()
            if x < 0.5 or (not packets and x < 0.8):
                fields.append(self.simple_field(names, metas, True))
            elif x < 0.65 and packets:
                p = r.choice(packets)
                fname = None
                if p in names or r.random() < 0.6:
                    fname = self.fresh(FIELD_NAMES, names)
                else:
                    names.add(p)
                fields.append({"k": "obj", "rep": r.random() < 0.3, "ftype": p, "fname": fname, "doc": doc(r, 0.15),
                               "attrs": [tag_attr(r)] if r.random() < 0.15 else []})
            elif x < 0.8:
                fields.append(self.inline(names, metas, packets, 0, risky))
            elif packets and not did_match:
                did_match = True
                kty = r.choice([["u8"], ["u16"], ["uint32"], ["char[", "2", "]"], ["string"]])
                key = {"k": "meta", "rep": False, "type": kty, "name": self.fresh(["msg_type", "kind", "code", "MsgType_", "tpl"], names),
                       "doc": doc(r), "attrs": []}
                fields.append(key)
                fields.append(self.match(names, packets, key))
            else:
                fields.append(self.simple_field(names, metas, True))
        if r.random() < 0.3:
            form = r.random()
            ty = r.choice([["u32"], ["uint16"], ["u8"]])
            nm = self.fresh(["checksum", "crc", "Checksum"], names)
            if form < 0.6:
                fields.append({"k": "sum", "type": ty, "name": nm, "alg": r.choice(ALGS), "doc": doc(r), "attrs": []})
            elif form < 0.8:
                fields.append({"k": "meta", "rep": False, "type": ty, "name": nm, "doc": doc(r),
                               "attrs": [["@calculatedFrom(", r.choice(ALGS), ")"]]})
            else:
                fields.append({"k": "sum", "type": None, "name": nm, "alg": r.choice(ALGS), "doc": None, "attrs": []})
                self.features.add("untyped-checksum")
        if root and len(fields) >= 1 and r.random() < 0.7:
            tgt = r.choice(fields)
            tname = field_name(tgt)
            ty = r.choice([["u16"], ["uint32"], ["u8"], ["i32"]])
            nm = self.fresh(["BodyLength", "length", "len", "MsgLen"], names)
            form = r.random()
            if form < 0.65:
                lf = {"k": "len", "type": ty, "name": nm, "target": tname, "doc": doc(r), "attrs": []}
            elif form < 0.9:
                lf = {"k": "meta", "rep": False, "type": ty, "name": nm, "doc": doc(r), "attrs": [["@lengthOf(", tname, ")"]]}
            else:
                lf = {"k": "len", "type": None, "name": nm, "target": tname, "doc": None, "attrs": []}
                self.features.add("untyped-length")
            pos = r.randrange(len(fields) + 1)
            if pos > fields.index(tgt):
                self.features.add("length-after-target")
            fields.insert(pos, lf)
        return {"k": "packet", "root": root, "name": name, "fields": fields}

    def program(self, risky=True):
        r = self.rng
        self.features = set()
        metas, mtypes = self.metas()
        opts = self.options(risky)
        used = set(mtypes)
        n = r.choice([1, 2, 3, 3, 4, 5])
        pnames = []
        packets = []
        root_at = r.randrange(n) if r.random() < 0.75 else -1
        if root_at >= 0 and r.random() < 0.7:
            root_at = n - 1
        for i in range(n):
            name = self.fresh(PACKET_NAMES, used)
            packets.append(self.packet(name, list(pnames), mtypes, i == root_at, risky))
            pnames.append(name)
        order = r.random()
        if order < 0.2:
            packets.reverse()
            self.features.add("forward-references")
        elif order < 0.3:
            r.shuffle(packets)
            self.features.add("forward-references")
        defs = opts + metas + packets
        if r.random() < 0.2:
            defs = packets + metas + opts
            self.features.add("packets-before-metadata")
        elif r.random() < 0.15:
            r.shuffle(defs)
        return {"defs": defs, "features": sorted(self.features)}


def field_name(f):
    if f["k"] == "obj":
        return f["fname"] or f["ftype"]
    return f["name"]


# ------------------------------------------------------------------ rendering

NL = "\n"


def r_doc(out, d):
    if d is not None:
        out.append(d)


def r_field(out, f, rng, indent):
    for a in f.get("attrs", []):
        out.extend(a)
        if rng is not None and rng.random() < 0.35:
            out.append(NL + indent)
    k = f["k"]
    if k == "meta":
        if f["rep"]:
            out.append("repeat")
        out.extend(f["type"])
        out.append(f["name"])
        r_doc(out, f["doc"])
        out.append(",")
    elif k == "obj":
        if f["rep"]:
            out.append("repeat")
        out.append(f["ftype"])
        if f["fname"]:
            out.append(f["fname"])
        r_doc(out, f["doc"])
        out.append(",")
    elif k == "inline":
        if f["rep"]:
            out.append("repeat")
        out.extend([f["name"], "{"])
        for s in f["fields"]:
            out.append(NL + indent + "    ")
            r_field(out, s, rng, indent + "    ")
        out.extend([NL + indent, "}", ","])
    elif k in ("len", "sum"):
        if f["type"]:
            out.extend(f["type"])
        out.append(f["name"])
        if k == "len":
            out.extend(["@lengthOf(", f["target"], ")"])
        else:
            out.extend(["@calculatedFrom(", f["alg"], ")"])
        r_doc(out, f["doc"])
        out.append(",")
    elif k == "match":
        out.extend(["match", f["key"], "as", f["name"], "{"])
        for p in f["pairs"]:
            out.append(NL + indent + "    ")
            if p["list"]:
                out.append("[")
                for i, key in enumerate(p["keys"]):
                    if i:
                        out.append(",")
                        if rng is not None and rng.random() < 0.2:
                            out.append(NL + indent + "     ")
                    out.append(key)
                out.append("]")
            else:
                out.append(p["keys"][0])
            out.extend([":", p["value"]])
            if p["comma"]:
                out.append(",")
        out.extend([NL + indent, "}", ","])
    else:
        raise ValueError(k)


def render(prog, rng=None):
    """The program as text. rng: layout variation (attributes on their own lines, comments, blank lines)."""
    out = []
    for d in prog["defs"]:
        if rng is not None and rng.random() < 0.2:
            out.append(rng.choice(COMMENTS) + NL)
        if rng is not None and rng.random() < 0.2:
            out.append(NL)
        if d["k"] == "options":
            out.extend(["options", "{"])
            for o in d["decls"]:
                out.append(NL + "    ")
                out.extend([o["name"], "="] + o["value"])
                if o["semi"]:
                    out.append(";")
            out.extend([NL, "}", NL])
        elif d["k"] == "meta":
            out.extend(["MetaData", d["name"], "{"])
            for it in d["items"]:
                out.append(NL + "    ")
                if it["k"] == "decl":
                    out.extend(it["type"])
                else:
                    out.append(it["typ"])
                out.append(it["name"])
                r_doc(out, it["doc"])
                out.append(",")
                if rng is not None and rng.random() < 0.1:
                    out.append(rng.choice(COMMENTS))
            out.extend([NL, "}", NL])
        else:
            if d["root"]:
                out.append("root")
                if rng is not None and rng.random() < 0.15:
                    out.append(NL)
            out.extend(["packet", d["name"], "{"])
            for f in d["fields"]:
                out.append(NL + "    ")
                r_field(out, f, rng, "    ")
                if rng is not None and rng.random() < 0.1:
                    out.append(rng.choice(COMMENTS))
            out.extend([NL, "}", NL])
    return join(out)


def join(toks):
    s = []
    for i, t in enumerate(toks):
        if t.startswith(NL) or t.endswith(NL) and t.strip() == "":
            s.append(t)
        elif t.endswith(NL):
            s.append(" " + t if s and not s[-1].endswith((NL, " ")) and not s[-1].strip() == "" else t)
        else:
            if s and not (s[-1].startswith(NL) and s[-1].strip() == "") and not s[-1].endswith(NL):
                s.append(" ")
            s.append(t)
    return "".join(s)


# ------------------------------------------------------------------ fault injection

def packets_of(prog):
    return [d for d in prog["defs"] if d["k"] == "packet"]


def scopes_of(prog):
    """(packet, path, field list, is_top) for every packet body and inline body."""
    out = []

    def rec(p, path, fields, top):
        out.append((p, path, fields, top))
        for i, f in enumerate(fields):
            if f["k"] == "inline":
                rec(p, path + [i], f["fields"], False)

    for p in packets_of(prog):
        rec(p, [], p["fields"], True)
    return out


def clone(prog):
    return copy.deepcopy(prog)


def fresh_name(prog, base):
    text = render(prog)
    n = base
    while n in text:
        n += "Z"
    return n


def faults(prog, rng):
    """[(class, site description, mutated program)]"""
    out = []

    def add(cls, site, p):
        out.append((cls, site, p))

    npk = len(packets_of(prog))
    # 1. duplicate packet: a new packet of the same name right after / at the end / before (the original is then the later one)
    for i in range(npk):
        for where in ("after", "end", "before"):
            p = clone(prog)
            pk = packets_of(p)[i]
            new = {"k": "packet", "root": False, "name": pk["name"], "fields": [{"k": "meta", "rep": False, "type": ["u8"], "name": "dupf",
                                                                                 "doc": None, "attrs": []}]}
            at = p["defs"].index(pk)
            p["defs"].insert({"after": at + 1, "end": len(p["defs"]), "before": at}[where], new)
            add("dup-packet", "packet %d %s" % (i, where), p)
        if packets_of(prog)[i]["root"] is False and any(x["root"] for x in packets_of(prog)):
            p = clone(prog)
            pk = packets_of(p)[i]
            new = copy.deepcopy(pk)
            new["root"] = True
            p["defs"].append(new)
            add("dup-packet", "packet %d copy as root at end" % i, p)
    # 2. duplicate MetaData entry
    mblocks = [d for d in prog["defs"] if d["k"] == "meta"]
    for bi, b in enumerate(mblocks):
        for ii, it in enumerate(b["items"]):
            for how in ("same-block", "new-block", "via-ref", "before"):
                p = clone(prog)
                pb = [d for d in p["defs"] if d["k"] == "meta"][bi]
                if how == "via-ref":
                    new = {"k": "ref", "typ": it["name"], "name": it["name"], "doc": None}
                else:
                    new = {"k": "decl", "type": ["u8"], "name": it["name"], "doc": None}
                if how in ("same-block", "via-ref"):
                    pb["items"].insert(rng.randrange(ii + 1, len(pb["items"]) + 1), new)
                elif how == "before":
                    pb["items"].insert(ii, new)
                else:
                    p["defs"].append({"k": "meta", "name": "Extra", "items": [new]})
                add("dup-meta", "block %d item %d %s" % (bi, ii, how), p)
    # 3. duplicate option
    oblocks = [d for d in prog["defs"] if d["k"] == "options"]
    for bi, b in enumerate(oblocks):
        for ii, o in enumerate(b["decls"]):
            for how in ("same-block", "new-block"):
                p = clone(prog)
                pb = [d for d in p["defs"] if d["k"] == "options"][bi]
                new = copy.deepcopy(o)
                if how == "same-block":
                    pb["decls"].insert(rng.randrange(ii + 1, len(pb["decls"]) + 1), new)
                else:
                    p["defs"].insert(rng.randrange(len(p["defs"]) + 1), {"k": "options", "decls": [new]})
                add("dup-option", "block %d decl %d %s" % (bi, ii, how), p)
    # 7/8. unknown option, illegal / legal values
    for name in ("Foo", "littleEndian", "LITTLEENDIAN", "StringPrefixLen", "JavaPackageName", "options", "GoPkg"):
        p = clone(prog)
        new = {"name": name, "value": rng.choice([["1"], ["true"], ['"x"'], ["u8"]]), "semi": True}
        obs = [d for d in p["defs"] if d["k"] == "options"]
        if obs and rng.random() < 0.7:
            b = rng.choice(obs)
            b["decls"].insert(rng.randrange(len(b["decls"]) + 1), new)
        else:
            p["defs"].insert(rng.randrange(len(p["defs"]) + 1), {"k": "options", "decls": [new]})
        add("unknown-option", name, p)
    for name in ("Foo", "Bar"):
        p = clone(prog)
        p["defs"].insert(0, {"k": "options", "decls": [{"name": name, "value": ["1"], "semi": True}, {"name": name, "value": ["2"], "semi": False}]})
        add("dup-option", "unknown option %s twice" % name, p)
    values = {
        "StringPrefixLenType": [["u8"], ["u16"], ["u32"], ["u64"], ["uint8"], ["uint16"], ["uint32"], ["uint64"], ["i8"], ["i16"], ["f32"], ["char"],
                                ['"u16"'], ["16"], ["2"], ["true"], ["string"], ["char[", "2", "]"], ["' '"]],
        "ArrayPrefixLenType": [["u8"], ["u16"], ["u32"], ["u64"], ["uint16"], ["int32"], ['"u8"'], ["4"], ["false"], ["char[]"]],
        "LittleEndian": [["true"], ["false"], ['"true"'], ['"TRUE"'], ['"yes"'], ["1"], ["0"], ["u8"], ["'0'"]],
        "FixedStringPadFromLeft": [["true"], ["false"], ['"false"'], ['"True"'], ["1"], ["' '"], ["string"]],
        "FixedStringPadChar": [["'0'"], ["' '"], ["'\\x00'"], ['"0"'], ['" "'], ["0"], ["true"], ['"\'0\'"'], ["char"]],
        "JavaPackage": [['"com.x"'], ['""'], ["1"], ["true"], ["u8"], ["' '"]],
        "GoPackage": [['"p"'], ["7"], ["false"]],
        "GoModule": [['"example.com/m"'], ["string"], ['"a b"']],
    }
    for name, vals in values.items():
        for v in vals:
            p = clone(prog)
            for d in p["defs"]:
                if d["k"] == "options":
                    d["decls"] = [o for o in d["decls"] if o["name"] != name]
            new = {"name": name, "value": v, "semi": rng.random() < 0.5}
            obs = [d for d in p["defs"] if d["k"] == "options"]
            if obs and rng.random() < 0.7:
                b = rng.choice(obs)
                b["decls"].insert(rng.randrange(len(b["decls"]) + 1), new)
            else:
                p["defs"].insert(rng.randrange(len(p["defs"]) + 1), {"k": "options", "decls": [new]})
            add("option-value", "%s = %s" % (name, "".join(v)), p)
    # 6. second root
    roots = [i for i, pk in enumerate(packets_of(prog)) if pk["root"]]
    for i in range(npk):
        if i not in roots:
            p = clone(prog)
            packets_of(p)[i]["root"] = True
            add("second-root" if roots else "first-root(valid)", "packet %d made root" % i, p)
    p = clone(prog)
    p["defs"].append({"k": "packet", "root": True, "name": fresh_name(prog, "ExtraRoot"), "fields": []})
    add("second-root" if roots else "first-root(valid)", "new empty root packet at end", p)
    if roots:
        p = clone(prog)
        p["defs"].insert(0, {"k": "packet", "root": True, "name": fresh_name(prog, "EarlyRoot"), "fields": []})
        add("second-root", "new empty root packet first (the original root is the later one)", p)
    # field-level faults, per scope
    sc = scopes_of(prog)
    for si, (pk, path, fields, top) in enumerate(sc):
        def target(p):
            return scopes_of(p)[si][2]

        # 4. duplicate field
        for fi, f in enumerate(fields):
            for kind in ("meta", "obj-meta-type", "inline", "match", "self"):
                p = clone(prog)
                fs = target(p)
                n = field_name(f)
                if kind == "meta":
                    new = {"k": "meta", "rep": False, "type": ["u8"], "name": n, "doc": None, "attrs": [tag_attr(rng)] if top and rng.random() < 0.5 else []}
                elif kind == "obj-meta-type":
                    mn = [it["name"] for d in prog["defs"] if d["k"] == "meta" for it in d["items"]]
                    if not mn:
                        continue
                    new = {"k": "obj", "rep": False, "ftype": rng.choice(mn), "fname": n, "doc": None, "attrs": []}
                elif kind == "inline":
                    new = {"k": "inline", "rep": False, "name": n, "fields": [{"k": "meta", "rep": False, "type": ["u8"], "name": "q", "doc": None, "attrs": []}],
                           "attrs": []}
                elif kind == "match":
                    pn = [x["name"] for x in packets_of(prog)]
                    new = {"k": "match", "key": field_name(fields[0]), "name": n,
                           "pairs": [{"keys": ["1"], "list": False, "value": rng.choice(pn), "comma": True}], "attrs": []}
                else:
                    new = copy.deepcopy(f)
                    if new["k"] == "len":
                        continue
                    new["attrs"] = [a for a in new.get("attrs", []) if a[0] not in ("@lengthOf(",)]
                pos = rng.randrange(fi + 1, len(fs) + 1) if rng.random() < 0.8 else fi
                fs.insert(pos, new)
                add("dup-field", "scope %d field %d as %s at %d" % (si, fi, kind, pos), p)
        # 5. duplicate match key
        for fi, f in enumerate(fields):
            if f["k"] != "match":
                continue
            allkeys = [k for pr in f["pairs"] for k in pr["keys"]]
            for ki, key in enumerate(allkeys):
                for how in ("pair", "in-list", "own-list"):
                    p = clone(prog)
                    m = target(p)[fi]
                    val = rng.choice([x["name"] for x in packets_of(prog)])
                    if how == "pair":
                        m["pairs"].insert(rng.randrange(len(m["pairs"]) + 1), {"keys": [key], "list": False, "value": val, "comma": True})
                    elif how == "in-list":
                        other = "99" if not key.startswith('"') else '"ZZ"'
                        m["pairs"].append({"keys": [other, key], "list": True, "value": val, "comma": False})
                    else:
                        # inside the list (or a new list) that already holds the key
                        for pr in m["pairs"]:
                            if key in pr["keys"]:
                                pr["keys"].append(key)
                                pr["list"] = True
                                break
                    add("dup-match-key", "scope %d field %d key %d %s" % (si, fi, ki, how), p)
        # 9/10. length-of placement
        is_root = pk["root"] and top
        has_len = any(f["k"] == "len" or any(a[0] == "@lengthOf(" for a in f.get("attrs", [])) for f in fields)
        if fields:
            for pos in range(len(fields) + 1):
                for form in ("inline", "prefixed"):
                    if form == "prefixed" and not top:
                        continue
                    p = clone(prog)
                    fs = target(p)
                    tgt = field_name(rng.choice(fields))
                    nm = fresh_name(prog, "xlen")
                    if form == "inline":
                        new = {"k": "len", "type": ["u16"], "name": nm, "target": tgt, "doc": None, "attrs": [tag_attr(rng)] if top and rng.random() < 0.4 else []}
                    else:
                        new = {"k": "meta", "rep": False, "type": ["u16"], "name": nm, "doc": None, "attrs": [["@lengthOf(", tgt, ")"]]}
                    fs.insert(pos, new)
                    if is_root:
                        add("second-length" if has_len else "first-length(valid)", "scope %d pos %d %s" % (si, pos, form), p)
                    else:
                        add("length-outside-root", "scope %d (%s) pos %d %s" % (si, "top" if top else "inline", pos, form), p)
        # 13. undeclared length target (the root scope: retarget the length field / add one)
        if is_root:
            for pos in range(len(fields) + 1):
                p = clone(prog)
                fs = target(p)
                fs[:] = [f for f in fs if not (f["k"] == "len" or any(a[0] == "@lengthOf(" for a in f.get("attrs", [])))]
                pos2 = min(pos, len(fs))
                form = rng.choice(["inline", "prefixed"])
                nm = fresh_name(prog, "xlen")
                tgt = fresh_name(prog, "nowhere")
                if form == "inline":
                    new = {"k": "len", "type": ["u16"], "name": nm, "target": tgt, "doc": None, "attrs": []}
                else:
                    new = {"k": "meta", "rep": False, "type": ["u16"], "name": nm, "doc": None, "attrs": [["@lengthOf(", tgt, ")"]]}
                fs.insert(pos2, new)
                add("undeclared-length-target", "scope %d pos %d %s" % (si, pos2, form), p)
        # 11/12. references
        for fi, f in enumerate(fields):
            if f["k"] == "obj":
                p = clone(prog)
                target(p)[fi]["ftype"] = fresh_name(prog, "Nowhere")
                if target(p)[fi]["fname"] is None:
                    target(p)[fi]["fname"] = field_name(f)
                target(p)[fi]["attrs"] = [a for a in target(p)[fi]["attrs"] if a[0] == "@tag("]
                add("undeclared-packet", "scope %d (%s) field %d object type" % (si, "top" if top else "inline", fi), p)
            if f["k"] == "match":
                for pi in range(len(f["pairs"])):
                    p = clone(prog)
                    target(p)[fi]["pairs"][pi]["value"] = fresh_name(prog, "Nowhere")
                    add("undeclared-packet", "scope %d (%s) field %d match pair %d" % (si, "top" if top else "inline", fi, pi), p)
                p = clone(prog)
                target(p)[fi]["key"] = fresh_name(prog, "nokey")
                add("undeclared-match-key", "scope %d (%s) field %d" % (si, "top" if top else "inline", fi), p)
        for pos in range(len(fields) + 1):
            p = clone(prog)
            new = {"k": "obj", "rep": rng.random() < 0.3, "ftype": fresh_name(prog, "Nowhere"), "fname": rng.choice([None, fresh_name(prog, "nf")]), "doc": None,
                   "attrs": [tag_attr(rng)] if top and rng.random() < 0.5 else []}
            target(p).insert(pos, new)
            add("undeclared-packet", "scope %d (%s) new object field at %d" % (si, "top" if top else "inline", pos), p)
        if fields:
            p = clone(prog)
            new = {"k": "match", "key": fresh_name(prog, "nokey"), "name": fresh_name(prog, "mm"),
                   "pairs": [{"keys": ["1"], "list": False, "value": pk["name"] if False else rng.choice([x["name"] for x in packets_of(prog)]), "comma": True}],
                   "attrs": []}
            target(p).insert(rng.randrange(len(fields) + 1), new)
            add("undeclared-match-key", "scope %d (%s) new match field" % (si, "top" if top else "inline"), p)
        # attribute misuse (top-level fields only: inline bodies take no attributes)
        if top:
            for fi, f in enumerate(fields):
                fx = f["k"] == "meta" and is_fixed(f["type"])
                p = clone(prog)
                a = pad_attr(rng)
                at = target(p)[fi]["attrs"]
                at.insert(rng.randrange(len(at) + 1), a)
                add("padding-on-fixed(valid?)" if fx else "padding-misuse", "scope %d field %d (%s)" % (si, fi, f["k"]), p)
                for a in (["@lengthOf(", field_name(rng.choice(fields)), ")"], ["@calculatedFrom(", '"CRC32"', ")"]):
                    p = clone(prog)
                    at = target(p)[fi]["attrs"]
                    at.insert(rng.randrange(len(at) + 1), a)
                    add("attr-%s-on-%s" % (a[0].strip("@("), f["k"]), "scope %d field %d" % (si, fi), p)
    # references to undeclared MetaData types in ref-declarations (not one of the 13 classes)
    for bi, b in enumerate(mblocks):
        p = clone(prog)
        pb = [d for d in p["defs"] if d["k"] == "meta"][bi]
        nn = fresh_name(prog, "Alias")
        pb["items"].insert(rng.randrange(len(pb["items"]) + 1), {"k": "ref", "typ": fresh_name(prog, "NoMeta"), "name": nn, "doc": None})
        pks = packets_of(p)
        if pks:
            pk = rng.choice(pks)
            how = rng.choice(["field", "len-name", "sum-name", "padded"])
            if how == "field":
                pk["fields"].append({"k": "obj", "rep": False, "ftype": nn, "fname": None, "doc": None, "attrs": []})
            elif how == "len-name":
                pk["fields"].append({"k": "len", "type": None, "name": nn, "target": field_name(pk["fields"][0]) if pk["fields"] else "x", "doc": None, "attrs": []})
            elif how == "sum-name":
                pk["fields"].append({"k": "sum", "type": ["u8"], "name": nn, "alg": '"X"', "doc": None, "attrs": []})
            else:
                pk["fields"].append({"k": "obj", "rep": False, "ftype": nn, "fname": None, "doc": None, "attrs": [pad_attr(rng)]})
        add("undeclared-metadata-ref", "block %d" % bi, p)
    # a forward ref-declaration (the MetaData entry is declared later)
    for bi, b in enumerate(mblocks):
        for ii, it in enumerate(b["items"]):
            if it["k"] == "decl":
                p = clone(prog)
                pb = [d for d in p["defs"] if d["k"] == "meta"][bi]
                nn = fresh_name(prog, "Fwd")
                pb["items"].insert(ii, {"k": "ref", "typ": it["name"], "name": nn, "doc": None})
                pks = packets_of(p)
                if pks:
                    rng.choice(pks)["fields"].append({"k": "obj", "rep": False, "ftype": nn, "fname": None, "doc": None, "attrs": []})
                add("forward-metadata-ref", "block %d item %d" % (bi, ii), p)
                break
    return out


if __name__ == "__main__":
    import sys
    rng = random.Random(int(sys.argv[1]) if len(sys.argv) > 1 else 1)
    g = Gen(rng)
    for _ in range(3):
        pr = g.program()
        print(render(pr, rng))
        print("features:", pr["features"])
        print("-" * 60)
    fl = faults(pr, rng)
    print(len(fl), "faults")
    for cls, site, p in fl[:: max(1, len(fl) // 6)]:
        print("=====", cls, site)
        print(render(p, rng))
