"""DSL program generators: exhaustive decision cells, configurations, random compositions."""
import itertools
import random

LE_OPTS = [None, "true", "false"]
PFX_OPTS = [None, "u8", "u16", "u32", "u64"]
PADLEFT_OPTS = [None, "true", "false"]
PADCHAR_OPTS = [None, "'0'", "' '"]


def all_configs():
    return [dict(le=a, s=b, l=c, padleft=d, padchar=e)
            for a, b, c, d, e in itertools.product(LE_OPTS, PFX_OPTS, PFX_OPTS, PADLEFT_OPTS, PADCHAR_OPTS)]


def pairwise_configs():
    """A small set of configurations covering every pair of option values."""
    allc = all_configs()
    keys = ["le", "s", "l", "padleft", "padchar"]
    need = set()
    for i, j in itertools.combinations(range(5), 2):
        for c in allc:
            need.add((i, c[keys[i]], j, c[keys[j]]))
    chosen = []
    rng = random.Random(7)
    pool = allc[:]
    rng.shuffle(pool)
    while need:
        best, bestcov = None, -1
        for c in pool[:200]:
            cov = sum(1 for i, j in itertools.combinations(range(5), 2) if (i, c[keys[i]], j, c[keys[j]]) in need)
            if cov > bestcov:
                best, bestcov = c, cov
        chosen.append(best)
        pool.remove(best)
        for i, j in itertools.combinations(range(5), 2):
            need.discard((i, best[keys[i]], j, best[keys[j]]))
        rng.shuffle(pool)
    return chosen


def options_block(cfg, extra=()):
    lines = []
    if cfg.get("le") is not None:
        lines.append("LittleEndian = %s;" % cfg["le"])
    if cfg.get("s") is not None:
        lines.append("StringPrefixLenType = %s;" % cfg["s"])
    if cfg.get("l") is not None:
        lines.append("ArrayPrefixLenType = %s;" % cfg["l"])
    if cfg.get("padleft") is not None:
        lines.append("FixedStringPadFromLeft = %s;" % cfg["padleft"])
    if cfg.get("padchar") is not None:
        lines.append("FixedStringPadChar = %s;" % cfg["padchar"])
    lines += list(extra)
    if not lines:
        return ""
    return "options {\n" + "\n".join("    " + l for l in lines) + "\n}\n"


SCALARS = [("u8", "uint8"), ("u16", "uint16"), ("u32", "uint32"), ("u64", "uint64"), ("i8", "int8"), ("i16", "int16"),
           ("i32", "int32"), ("i64", "int64"), ("f32", "float32"), ("f64", "float64")]
PADS = ["@leftPad('0')", "@rightPad('0')", "@leftPad(' ')", "@rightPad(' ')", "@leftPad('\\x00')", "@rightPad('\\x00')",
        "@leftPad()", "@rightPad()"]


def cells_main(cfg, lenw="u32", lenspell="inline", target="match", cksw="u32", cksspell="inline", keyty="u16"):
    """One program holding most field cells; the length/checksum/match cells are parameters."""
    o = options_block(cfg, ['JavaPackage = "com.example.msg";', 'GoPackage = "msg";', 'GoModule = "example.com/msg";'])
    meta = """MetaData Meta {
    u32 SeqNum `sequence number`,
    char[8] Symbol `symbol`,
    zchar[5] ZSym `z symbol`,
    string Note,
    Symbol AltSymbol `alias of symbol`,
    f64 Price,
}
"""
    pk = """packet Inner {
    u8 a,
    i16 b,
    string c,
}
packet Inner2 {
    u8 a2,
    char[3] c2,
}
packet Logon {
    u8 x,
    string user,
    repeat u16 codes,
}
packet Logout {
    u16 reason,
}
packet Empty {
}
"""
    f = []
    for short, long in SCALARS:
        f.append("%s s%s," % (short, short))
        f.append("%s l%s," % (long, long))
    f.append("char[6] fsplain,")
    for i, p in enumerate(PADS):
        f.append("%s char[%d] fs%d," % (p, 4 + i, i))
    f.append("zchar[7] fz,")
    f.append("@leftPad('0') zchar[3] fzl0,")
    f.append("string s1 `doc`,")
    f.append("char[] s2,")
    f.append("Inner,")
    f.append("Sub {\n        u8 q,\n        string w,\n        Deep {\n            u16 z,\n            repeat i32 zs,\n        },\n    },")
    for short, _ in SCALARS:
        f.append("repeat %s r%s," % (short, short))
    f.append("repeat string rstr,")
    f.append("repeat char[] rstr2,")
    f.append("repeat char[3] rfs,")
    f.append("repeat zchar[3] rfz,")
    f.append("repeat Inner2,")
    f.append("repeat Grp {\n        u8 k,\n        char[2] v,\n    },")
    f.append("SeqNum,")
    f.append("SeqNum seq2,")
    f.append("repeat SeqNum seqs,")
    f.append("Symbol,")
    f.append("AltSymbol alt,")
    f.append("ZSym,")
    f.append("Note,")
    f.append("repeat Symbol syms,")
    f.append("Price px,")
    f.append("%s MsgType," % keyty)
    tname = "Body"
    if lenspell == "inline":
        f.append("%s BodyLen @lengthOf(%s)," % (lenw, tname))
    elif lenspell == "prefixed":
        f.append("@lengthOf(%s) %s BodyLen," % (tname, lenw))
    if target == "match":
        if keyty in ("string", "char[4]"):
            f.append('match MsgType as Body {\n        "LGON" : Logon,\n        ["LGOT", "BYE "] : Logout,\n        "NONE" : Empty,\n    },')
        else:
            f.append("match MsgType as Body {\n        1 : Logon,\n        [2, 3] : Logout,\n        7 : Logon,\n        9 : Empty,\n    },")
    else:
        f.append("Body {\n        u8 bb,\n        string bs,\n    },")
    if cksspell == "inline":
        f.append('%s Checksum @calculatedFrom("CRC32"),' % cksw)
    elif cksspell == "prefixed":
        f.append('@calculatedFrom("CRC32") %s Checksum,' % cksw)
    root = "root packet Msg {\n" + "\n".join("    " + x for x in f) + "\n}\n"
    return o + meta + pk + root


def cell_programs(configs):
    """(id, text) pairs."""
    out = []
    for ci, cfg in enumerate(configs):
        out.append(("cells-c%d" % ci, cells_main(cfg)))
    base = dict(le=None, s=None, l=None, padleft=None, padchar=None)
    le = dict(base, le="true")
    k = 0
    for lenw in ["u8", "u16", "u32", "u64"]:
        for lenspell in ["inline", "prefixed"]:
            for target in ["match", "object"]:
                for cfg in (base, le):
                    out.append(("len-%d" % k, cells_small(cfg, lenw, lenspell, target)))
                    k += 1
    k = 0
    for cksw in ["u8", "u16", "u32", "u64", "i8", "i16", "i32", "i64"]:
        for spell in ["inline", "prefixed"]:
            for cfg in (base, le):
                out.append(("cks-%d" % k, cells_cks(cfg, cksw, spell)))
                k += 1
    # the LONG spellings of the integer types (uint32 ... int64) for computed fields: the visitor keeps the spelling as
    # written for the trailing-attribute form, so a generator that looks the raw spelling up behaves differently
    k = 0
    for w in ["uint8", "uint16", "uint32", "uint64", "int8", "int16", "int32", "int64"]:
        for spell in ["inline", "prefixed"]:
            out.append(("ckslong-%d" % k, cells_cks(le if k % 2 else base, w, spell)))
            k += 1
    k = 0
    for lenw in ["uint8", "uint16", "uint32", "uint64"]:
        for lenspell in ["inline", "prefixed"]:
            for target in ["match", "object"]:
                out.append(("lenlong-%d" % k, cells_small(le if k % 2 else base, lenw, lenspell, target)))
                k += 1
    # checksum POSITION x nesting: first / middle / last field of a referenced packet, an inline object,
    # a match payload and a list element, all written after other bytes of the enclosing message
    for k, cfg in enumerate((base, le)):
        out.append(("ckspos-%d" % k, cells_cks_positions(cfg)))
    k = 0
    for keyty in ["u8", "u16", "u32", "u64", "i8", "i16", "i32", "i64", "string", "char[4]"]:
        for cfg in (base, le):
            out.append(("key-%d" % k, cells_match(cfg, keyty)))
            k += 1
    return out


def cells_small(cfg, lenw, lenspell, target):
    o = options_block(cfg)
    body = "match MsgType as Body {\n        1 : Logon,\n        2 : Logout,\n        3 : Empty,\n    }," if target == "match" else "Logon Body,"
    lf = "%s BodyLen @lengthOf(Body)," % lenw if lenspell == "inline" else "@lengthOf(Body) %s BodyLen," % lenw
    return o + """packet Logon {
    u8 x,
    string user,
}
packet Logout {
    u16 reason,
}
packet Empty {
}
root packet Frame {
    u16 MsgType,
    %s
    u8 flags,
    %s
    u32 trailer,
}
""" % (lf, body)


def cells_cks(cfg, w, spell):
    o = options_block(cfg)
    c = '%s Checksum @calculatedFrom("CRC16"),' % w if spell == "inline" else '@calculatedFrom("CRC16") %s Checksum,' % w
    return o + """packet Sub {
    u8 a,
    %s
}
root packet Frame {
    u16 MsgType,
    u16 BodyLen @lengthOf(Body),
    Sub Body,
    string note,
    %s
    u8 tail,
}
""" % (c.replace("Checksum", "SubSum"), c)


def cells_cks_positions(cfg):
    o = options_block(cfg)
    return o + """packet First {
    u32 Sum1 @calculatedFrom("CRC32"),
    u8 EndMark,
}
packet Middle {
    u8 m1,
    u16 Sum2 @calculatedFrom("CRC16"),
    u8 m2,
}
packet Last {
    u8 l1,
    u32 Sum3 @calculatedFrom("CRC32"),
}
packet Only {
    u16 Sum4 @calculatedFrom("CRC16"),
}
root packet Msg {
    u16 MsgType,
    string Payload,
    First,
    Middle mid,
    Inl {
        u32 Sum5 @calculatedFrom("CRC32"),
        u8 x,
    },
    repeat First firsts,
    u8 K,
    match K as Body {
        1 : First,
        2 : Only,
        3 : Last,
    },
    Last,
    u32 Total @calculatedFrom("CRC32"),
}
"""


def cells_match(cfg, keyty):
    o = options_block(cfg)
    if keyty in ("string", "char[4]"):
        pairs = '"AAAA" : Logon,\n        ["BBBB", "CCCC"] : Logout,\n        "DDDD" : Logon,'
        pairs2 = '"X" : Logout,'
    else:
        pairs = "1 : Logon,\n        [2, 3, 4] : Logout,\n        100 : Logon,"
        pairs2 = "0 : Logout,"
    return o + """packet Logon {
    u8 x,
}
packet Logout {
    u16 reason,
}
root packet Frame {
    %s Kind,
    %s Kind2,
    match Kind as Body {
        %s
    },
    match Kind2 as Trailer {
        %s
    },
}
""" % (keyty, keyty, pairs, pairs2)


def finding_programs():
    """Small programs, one per cell in which some generator is known (or suspected) to deviate."""
    P = []

    def add(name, text):
        P.append(("fnd-" + name, text))
    add("char", "root packet P {\n    char c,\n    u8 x,\n}\n")
    add("rchar", "root packet P {\n    repeat char cs,\n    u8 x,\n}\n")
    add("rchar-le", "options {\n    LittleEndian = true;\n}\nroot packet P {\n    repeat char cs,\n    u8 x,\n}\n")
    add("objname", "packet Inner {\n    u8 a,\n}\nroot packet P {\n    Inner ref_obj,\n    u8 x,\n}\n")
    add("objlist", "packet Inner {\n    u8 a,\n}\nroot packet P {\n    repeat Inner items,\n    u8 x,\n}\n")
    add("lower-inline", "root packet P {\n    hdr {\n        u8 a,\n    },\n    u8 x,\n}\n")
    for w in ("u8", "u64"):
        add("len-" + w, "packet B {\n    u8 a,\n}\nroot packet P {\n    u8 K,\n    %s L @lengthOf(Body),\n    match K as Body {\n        1 : B,\n    },\n}\n" % w)
    add("len-after", "packet B {\n    u8 a,\n}\nroot packet P {\n    u8 K,\n    match K as Body {\n        1 : B,\n    },\n    u16 L @lengthOf(Body),\n}\n")
    add("len-obj", "packet B {\n    u8 a,\n    string s,\n}\nroot packet P {\n    u16 L @lengthOf(B),\n    B,\n    u8 t,\n}\n")
    add("len-obj-le", "options {\n    LittleEndian = true;\n}\npacket B {\n    u8 a,\n    string s,\n}\nroot packet P {\n    u16 L @lengthOf(B),\n    B,\n    u8 t,\n}\n")
    add("barepad", "options {\n    FixedStringPadFromLeft = true;\n}\nroot packet P {\n    char[4] z,\n}\n")
    add("cks-le", "options {\n    LittleEndian = true;\n}\nroot packet P {\n    u16 a,\n    u32 Sum @calculatedFrom(\"CRC32\"),\n}\n")
    add("cks-be", "root packet P {\n    u16 a,\n    u32 Sum @calculatedFrom(\"CRC32\"),\n}\n")
    add("str", "root packet P {\n    string s,\n}\n")
    add("strlist", "root packet P {\n    repeat string ss,\n    repeat u16 ns,\n}\n")
    add("underscore", "root packet P {\n    u8 s_u8,\n    repeat u8 r_u8,\n    u16 b_len,\n}\n")
    add("two-match", "packet A {\n    u8 a,\n}\npacket B {\n    u16 b,\n}\nroot packet P {\n    u8 K1,\n    u8 K2,\n    match K1 as M1 {\n        1 : A,\n    },\n    match K2 as M2 {\n        1 : B,\n    },\n}\n")
    add("dup-key", "packet A {\n    u8 a,\n}\npacket B {\n    u16 b,\n}\nroot packet P {\n    u8 K,\n    match K as M {\n        1 : A,\n        1 : B,\n    },\n}\n")
    add("multi-key", "packet A {\n    u8 a,\n}\npacket B {\n    u16 b,\n}\nroot packet P {\n    u8 K,\n    match K as M {\n        [1, 2] : A,\n        3 : B,\n        7 : A,\n    },\n}\n")
    add("snake-pkt", "packet order_item {\n    u8 a,\n}\nroot packet new_order {\n    order_item,\n    u8 x,\n}\n")
    add("camel-pkt", "packet orderItem {\n    u8 a,\n}\nroot packet newOrder {\n    orderItem,\n    u8 x,\n}\n")
    return P


IDENTS = ["x", "Qty", "price", "OrderId", "clOrdID", "f1", "Side2", "msgKind", "Flags", "seqNo", "Note", "sym", "Px",
          "count", "Tail", "lastPx", "Acct", "venue", "Ref", "tag7"]
PKT_IDENTS = ["Logon", "Logout", "Order", "Cancel", "Fill", "Quote", "Trade", "Heartbeat", "Ack", "Reject", "Leg", "Party"]


def random_programs(seed, n):
    """Grammar-directed random valid programs (mostly inside every generator's working fragment:
    object fields named after their type, no char scalars)."""
    rng = random.Random(seed * 7919 + 13)
    out = []
    for k in range(n):
        cfg = dict(le=rng.choice(LE_OPTS), s=rng.choice(PFX_OPTS), l=rng.choice(PFX_OPTS),
                   padleft=rng.choice([None, None, "false", "true"]), padchar=rng.choice(PADCHAR_OPTS))
        if cfg["padleft"] == "true" and cfg["padchar"] is None:
            cfg["padchar"] = "'0'"
        npk = rng.randint(1, 5)
        names = rng.sample(PKT_IDENTS, npk + 1)
        root = names[-1]
        pkts = []
        for i, nm in enumerate(names[:-1]):
            pkts.append("packet %s {\n%s}\n" % (nm, rand_fields(rng, names[:i], 0, False)))
        body = rand_fields(rng, names[:-1], 0, True)
        text = options_block(cfg) + "".join(pkts) + "root packet %s {\n%s}\n" % (root, body)
        out.append(("rnd-%d-%d" % (seed, k), text))
    return out


def rand_fields(rng, earlier, depth, is_root):
    nf = rng.randint(0 if not is_root else 1, 6)
    used = set()
    lines = []

    def ident():
        for _ in range(50):
            c = rng.choice(IDENTS)
            if c not in used:
                used.add(c)
                return c
        c = "g%d" % len(used)
        used.add(c)
        return c
    ind = "    " * (depth + 1)
    for _ in range(nf):
        kind = rng.choice(["scalar", "scalar", "fixed", "zfixed", "dyn", "list", "obj", "inline", "listobj"])
        rep = ""
        if kind == "scalar":
            short, long = rng.choice(SCALARS)
            lines.append("%s%s %s," % (ind, rng.choice([short, long]), ident()))
        elif kind == "fixed":
            pad = rng.choice(["", "", "@leftPad('0') ", "@rightPad('0') ", "@leftPad(' ') ", "@rightPad('\\x00') "])
            if depth > 0:
                pad = ""        # attributes are not allowed on fields of inline objects
            lines.append("%s%schar[%d] %s," % (ind, pad, rng.randint(1, 12), ident()))
        elif kind == "zfixed":
            lines.append("%szchar[%d] %s," % (ind, rng.randint(1, 9), ident()))
        elif kind == "dyn":
            lines.append("%s%s %s," % (ind, rng.choice(["string", "char[]"]), ident()))
        elif kind == "list":
            short, _ = rng.choice(SCALARS)
            what = rng.choice([short, "string", "char[%d]" % rng.randint(1, 6)])
            lines.append("%srepeat %s %s," % (ind, what, ident()))
        elif kind in ("obj", "listobj") and earlier:
            t = rng.choice(earlier)
            if t not in used:
                used.add(t)
                lines.append("%s%s%s," % (ind, "repeat " if kind == "listobj" else "", t))
        elif kind == "inline" and depth < 2:
            nm = "In" + ident().capitalize() + str(rng.randint(0, 99))
            lines.append("%s%s%s {\n%s%s}," % (ind, rng.choice(["", "repeat "]), nm, rand_fields(rng, earlier, depth + 1, False) or (ind + "    u8 pad0,\n"), ind))
    if is_root and earlier and rng.random() < 0.7:
        key = ident()
        kty = rng.choice(["u8", "u16", "u32"])
        lines.append("%s%s %s," % (ind, kty, key))
        with_len = rng.random() < 0.6
        if with_len:
            lines.append("%s%s %s @lengthOf(Body)," % (ind, rng.choice(["u16", "u32"]), ident()))
        pairs = []
        ks = rng.sample(range(0, 200), min(len(earlier), 4) + 1)
        for i, t in enumerate(rng.sample(earlier, min(len(earlier), 4))):
            if i == 0 and rng.random() < 0.5:
                pairs.append("%s    [%d, %d] : %s," % (ind, ks[i], ks[-1], t))
            else:
                pairs.append("%s    %d : %s," % (ind, ks[i], t))
        lines.append("%smatch %s as Body {\n%s\n%s}," % (ind, key, "\n".join(pairs), ind))
        if rng.random() < 0.5:
            lines.append('%s%s %s @calculatedFrom("CRC32"),' % (ind, rng.choice(["u16", "u32"]), ident()))
    return "".join(l + "\n" for l in lines)


def layout_programs():
    """Programs with several match fields / references, for determinism and independence checks."""
    P = []
    P.append(("det-3match", "packet A {\n    u8 a,\n}\npacket B {\n    u16 b,\n}\npacket C {\n    u32 c,\n}\nroot packet M {\n    u16 Kc, u16 Kb, u16 Ka,\n    match Kc as X {\n        9 : A,\n        10 : B,\n    },\n    match Kb as Y {\n        2 : C,\n        1 : A,\n    },\n    match Ka as Z {\n        1 : B,\n    },\n    A, B, C,\n}\n"))
    P.append(("det-zchar", "options {\n    FixedStringPadChar = '0';\n}\npacket Q {\n    zchar[4] z,\n    @rightPad('\\x00') char[3] n,\n    char[5] d,\n}\nroot packet R {\n    Q,\n    zchar[8] top,\n    repeat zchar[2] zs,\n}\n"))
    P.append(("det-acronyms", "packet MDSnapshotZZ {\n    u8 a,\n}\npacket OrderACK {\n    u16 b,\n}\npacket HTTPServerInfo {\n    string s,\n}\nroot packet FIXMsg {\n    u8 KType,\n    MDSnapshotZZ,\n    repeat OrderACK,\n    match KType as Body {\n        1 : HTTPServerInfo,\n        2 : OrderACK,\n    },\n}\n"))
    P.append(("det-name-collision", "packet FooBar {\n    u8 a,\n}\npacket foo_bar {\n    u16 b,\n}\nroot packet R {\n    FooBar,\n    foo_bar,\n}\n"))
    P.append(("det-refs", "packet P1 {\n    u8 a,\n}\npacket P2 {\n    P1,\n}\npacket P3 {\n    P2,\n    P1,\n}\npacket P4 {\n    repeat P3,\n    P2,\n}\nroot packet P5 {\n    P4,\n    P3,\n    P1,\n    u8 K,\n    match K as Body {\n        4 : P4,\n        3 : P3,\n        2 : P2,\n        1 : P1,\n    },\n}\n"))
    # declaration ORDER: the root packet first / in the middle (forward references; code that filters or
    # partitions the packet list sees a different arrangement than "root last")
    P.append(("det-root-first", "root packet Frame {\n    u8 K,\n    Logon first,\n    match K as Body {\n        1 : Logon,\n        2 : Logout,\n    },\n}\npacket Logon {\n    string user,\n}\npacket Logout {\n    u16 reason,\n}\n"))
    P.append(("det-root-middle", "packet Logon {\n    string user,\n}\nroot packet Frame {\n    u8 K,\n    match K as Body {\n        1 : Logon,\n        2 : Logout,\n    },\n    Tail,\n}\npacket Logout {\n    u16 reason,\n}\npacket Tail {\n    u32 crc,\n}\n"))
    # a NON-root packet with several match fields on different keys, declared BEFORE its target packets
    P.append(("det-nonroot-matches", "packet Frame {\n    u8 HK,\n    u8 BK,\n    u8 TK,\n    match HK as Hdr {\n        1 : HdrA,\n        2 : HdrB,\n    },\n    match BK as Body {\n        1 : BodyA,\n        2 : BodyB,\n    },\n    match TK as Trl {\n        1 : TrlA,\n    },\n}\npacket HdrA {\n    u8 a,\n}\npacket HdrB {\n    u16 b,\n}\npacket BodyA {\n    u32 c,\n}\npacket BodyB {\n    u64 d,\n}\npacket TrlA {\n    u8 e,\n}\nroot packet Msg {\n    Frame,\n    u8 x,\n}\n"))
    # identifiers that look like (non-keyword) type names or collide with table keys of a generator
    P.append(("det-type-like-names", "packet u128 {\n    u8 a,\n}\nroot packet Msg {\n    u8 k,\n    u24 {\n        u8 Hi,\n        u16 Lo,\n    },\n    repeat i24 {\n        u32 q,\n    },\n    u128,\n    u16 float32x,\n    string s,\n}\n"))
    # a packet that itself has a match field and is reached from two different packets (as first match target and as
    # object field): anything cached per packet during generation is keyed by WHO asked first
    P.append(("det-shared-matching-payload", "packet NewOrder {\n    u32 qty,\n}\npacket Cancel {\n    u64 id,\n}\npacket Business {\n    u8 Kind,\n    match Kind as Detail {\n        1 : NewOrder,\n        2 : Cancel,\n    },\n}\npacket TcpFrame {\n    u8 T,\n    match T as Body {\n        1 : Business,\n    },\n}\npacket UdpFrame {\n    u8 U,\n    match U as Body {\n        1 : Business,\n    },\n    Business extra,\n}\nroot packet Wire {\n    TcpFrame,\n    UdpFrame,\n}\n"))
    # string keys that contain escapes (each target must carry the DSL literal into its own string syntax unchanged)
    P.append(("det-escaped-keys", "packet Logout {\n    u8 a,\n}\npacket Heartbeat {\n    u16 b,\n}\nroot packet Msg {\n    string Kind,\n    match Kind as Body {\n        \"a\\\\b\" : Logout,\n        [\"x\", \"say \\\"hi\\\"\"] : Heartbeat,\n        \"plain\" : Logout,\n    },\n}\n"))
    return P
