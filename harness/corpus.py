"""DSL program generators: exhaustive decision cells, configurations, random compositions."""
import itertools
import random

LE_OPTS = [None, "true", "false"]
PFX_OPTS = [None, "u8", "u16", "u32", "u64"]
PADLEFT_OPTS = [None, "true", "false"]
PADCHAR_OPTS = [None, "'0'", "' '"]


def all_configs():
    return [dict(le=a, s=b, l=c, padleft=d, padchar=e)
            for a, b, c, d, e in itertools.product(LE_OPTS, PFX_OPTS, PFX_OPTS, PADLEFT_OPTS, PADCHAR_OPTS)]


def pairwise_configs():
    """A small set of configurations covering every pair of option values."""
    allc = all_configs()
    keys = ["le", "s", "l", "padleft", "padchar"]
    need = set()
    for i, j in itertools.combinations(range(5), 2):
        for c in allc:
            need.add((i, c[keys[i]], j, c[keys[j]]))
    chosen = []
    rng = random.Random(7)
    pool = allc[:]
    rng.shuffle(pool)
    while need:
        best, bestcov = None, -1
        for c in pool[:200]:
            cov = sum(1 for i, j in itertools.combinations(range(5), 2) if (i, c[keys[i]], j, c[keys[j]]) in need)
            if cov > bestcov:
                best, bestcov = c, cov
        chosen.append(best)
        pool.remove(best)
        for i, j in itertools.combinations(range(5), 2):
            need.discard((i, best[keys[i]], j, best[keys[j]]))
        rng.shuffle(pool)
    return chosen


def options_block(cfg, extra=()):
    lines = []
    if cfg.get("le") is not None:
        lines.append("LittleEndian = %s;" % cfg["le"])
    if cfg.get("s") is not None:
        lines.append("StringPrefixLenType = %s;" % cfg["s"])
    if cfg.get("l") is not None:
        lines.append("ArrayPrefixLenType = %s;" % cfg["l"])
    if cfg.get("padleft") is not None:
        lines.append("FixedStringPadFromLeft = %s;" % cfg["padleft"])
    if cfg.get("padchar") is not None:
        lines.append("FixedStringPadChar = %s;" % cfg["padchar"])
    lines += list(extra)
    if not lines:
        return ""
    return "options {\n" + "\n".join("    " + l for l in lines) + "\n}\n"


SCALARS = [("u8", "uint8"), ("u16", "uint16"), ("u32", "uint32"), ("u64", "uint64"), ("i8", "int8"), ("i16", "int16"),
           ("i32", "int32"), ("i64", "int64"), ("f32", "float32"), ("f64", "float64")]
PADS = ["@leftPad('0')", "@rightPad('0')", "@leftPad(' ')", "@rightPad(' ')", "@leftPad('\\x00')", "@rightPad('\\x00')",
        "@leftPad()", "@rightPad()"]


def cells_main(cfg, lenw="u32", lenspell="inline", target="match", cksw="u32", cksspell="inline", keyty="u16"):
    """One program holding most field cells; the length/checksum/match cells are parameters."""
    o = options_block(cfg, ['JavaPackage = "com.example.msg";', 'GoPackage = "msg";', 'GoModule = "example.com/msg";'])
    meta = """MetaData Meta {
    u32 SeqNum `sequence number`,
    char[8] Symbol `symbol`,
    zchar[5] ZSym `z symbol`,
    string Note,
    Symbol AltSymbol `alias of symbol`,
    f64 Price,
}
"""
    pk = """packet Inner {
    u8 a,
    i16 b,
    string c,
}
packet Logon {
    u8 x,
    string user,
    repeat u16 codes,
}
packet Logout {
    u16 reason,
}
packet Empty {
}
"""
    f = []
    for short, long in SCALARS:
        f.append("%s s_%s," % (short, short))
        f.append("%s l_%s," % (long, long))
    f.append("char[6] fs_plain,")
    for i, p in enumerate(PADS):
        f.append("%s char[%d] fs_%d," % (p, 4 + i, i))
    f.append("zchar[7] fz,")
    f.append("@leftPad('0') zchar[3] fz_l0,")
    f.append("string s1 `doc`,")
    f.append("char[] s2,")
    f.append("Inner ref_obj,")
    f.append("Inner,")
    f.append("Sub {\n        u8 q,\n        string w,\n        Deep {\n            u16 z,\n            repeat i32 zs,\n        },\n    },")
    for short, _ in SCALARS:
        f.append("repeat %s r_%s," % (short, short))
    f.append("repeat string r_str,")
    f.append("repeat char[] r_str2,")
    f.append("repeat char[3] r_fs,")
    f.append("repeat zchar[3] r_fz,")
    f.append("repeat Inner r_inner,")
    f.append("repeat Grp {\n        u8 k,\n        char[2] v,\n    },")
    f.append("SeqNum,")
    f.append("SeqNum seq2,")
    f.append("repeat SeqNum seqs,")
    f.append("Symbol,")
    f.append("AltSymbol alt,")
    f.append("ZSym,")
    f.append("Note,")
    f.append("repeat Symbol syms,")
    f.append("Price px,")
    f.append("%s MsgType," % keyty)
    tname = "Body"
    if lenspell == "inline":
        f.append("%s BodyLen @lengthOf(%s)," % (lenw, tname))
    elif lenspell == "prefixed":
        f.append("@lengthOf(%s) %s BodyLen," % (tname, lenw))
    if target == "match":
        if keyty in ("string", "char[4]"):
            f.append('match MsgType as Body {\n        "LGON" : Logon,\n        ["LGOT", "BYE "] : Logout,\n        "NONE" : Empty,\n    },')
        else:
            f.append("match MsgType as Body {\n        1 : Logon,\n        [2, 3] : Logout,\n        7 : Logon,\n        9 : Empty,\n    },")
    else:
        f.append("Inner Body,")
    if cksspell == "inline":
        f.append('%s Checksum @calculatedFrom("CRC32"),' % cksw)
    elif cksspell == "prefixed":
        f.append('@calculatedFrom("CRC32") %s Checksum,' % cksw)
    root = "root packet Msg {\n" + "\n".join("    " + x for x in f) + "\n}\n"
    return o + meta + pk + root


def cell_programs(configs):
    """(id, text) pairs."""
    out = []
    for ci, cfg in enumerate(configs):
        out.append(("cells-c%d" % ci, cells_main(cfg)))
    base = dict(le=None, s=None, l=None, padleft=None, padchar=None)
    le = dict(base, le="true")
    k = 0
    for lenw in ["u8", "u16", "u32", "u64"]:
        for lenspell in ["inline", "prefixed"]:
            for target in ["match", "object"]:
                for cfg in (base, le):
                    out.append(("len-%d" % k, cells_small(cfg, lenw, lenspell, target)))
                    k += 1
    k = 0
    for cksw in ["u8", "u16", "u32", "u64", "i8", "i16", "i32", "i64"]:
        for spell in ["inline", "prefixed"]:
            for cfg in (base, le):
                out.append(("cks-%d" % k, cells_cks(cfg, cksw, spell)))
                k += 1
    k = 0
    for keyty in ["u8", "u16", "u32", "u64", "i8", "i16", "i32", "i64", "string", "char[4]"]:
        for cfg in (base, le):
            out.append(("key-%d" % k, cells_match(cfg, keyty)))
            k += 1
    return out


def cells_small(cfg, lenw, lenspell, target):
    o = options_block(cfg)
    body = "match MsgType as Body {\n        1 : Logon,\n        2 : Logout,\n        3 : Empty,\n    }," if target == "match" else "Logon Body,"
    lf = "%s BodyLen @lengthOf(Body)," % lenw if lenspell == "inline" else "@lengthOf(Body) %s BodyLen," % lenw
    return o + """packet Logon {
    u8 x,
    string user,
}
packet Logout {
    u16 reason,
}
packet Empty {
}
root packet Frame {
    u16 MsgType,
    %s
    u8 flags,
    %s
    u32 trailer,
}
""" % (lf, body)


def cells_cks(cfg, w, spell):
    o = options_block(cfg)
    c = '%s Checksum @calculatedFrom("CRC16"),' % w if spell == "inline" else '@calculatedFrom("CRC16") %s Checksum,' % w
    return o + """packet Sub {
    u8 a,
    %s
}
root packet Frame {
    u16 MsgType,
    u16 BodyLen @lengthOf(Body),
    Sub Body,
    string note,
    %s
    u8 tail,
}
""" % (c.replace("Checksum", "SubSum"), c)


def cells_match(cfg, keyty):
    o = options_block(cfg)
    if keyty in ("string", "char[4]"):
        pairs = '"AAAA" : Logon,\n        ["BBBB", "CCCC"] : Logout,\n        "DDDD" : Logon,'
        pairs2 = '"X" : Logout,'
    else:
        pairs = "1 : Logon,\n        [2, 3, 4] : Logout,\n        100 : Logon,"
        pairs2 = "0 : Logout,"
    return o + """packet Logon {
    u8 x,
}
packet Logout {
    u16 reason,
}
root packet Frame {
    %s Kind,
    %s Kind2,
    match Kind as Body {
        %s
    },
    match Kind2 as Trailer {
        %s
    },
}
""" % (keyty, keyty, pairs, pairs2)
