"""Inverse of the C++ generator's templates: the emitted header -> codec IR.

One file, include/<snake(root)>.hpp, holds every packet.  The semantic regions are
  * the top level of the header: factory blocks (struct <F>Tag{}; using <F>MessageFactory = ...;
    REGISTER_MESSAGE(...);) - everything else there must be the fixed boiler plate,
  * per struct: the member list, the body of encode, the body of decode.
Strict inside those regions: a line no template claims becomes an EJunk/DJunk step and
therefore a mismatch.  equals/toString/operator<< and the test file are not read.

Where the text decides:
  widths       buf.write_<x>/read_<x>/write_<x>_at method names (x = i8..f64, optionally _le),
               C++ type names in template arguments and static_cast<...>;
  byte order   the _le suffix of the method / helper name (write_u8 has none, in any configuration);
  members      the emitted member list; position variables <x>Pos are converted back to member x;
  types        member types, resolved through the structs the header declares;
  tables       the REGISTER_MESSAGE lines of the factory named in the create(...) call, in order.
A call that names no method of the runtime (buf.write_(x), buf.write_char(x)) has width 0: the IR
has no "does not compile" step.  x->encode(buf) on a member that is not a std::unique_ptr is
ill-typed: ENone (as for Go's Encode on a non-codec member)."""
import re
from ir import UNDEF

ID = r"[A-Za-z_][A-Za-z_0-9]*"
TA = r"[^,<>()]*"                      # a template argument as emitted (a plain type name, possibly empty)
CPP_W = {"int8_t": 1, "uint8_t": 1, "int16_t": 2, "uint16_t": 2, "int32_t": 4, "uint32_t": 4,
         "int64_t": 8, "uint64_t": 8, "float": 4, "double": 8}
METH = {}
for _t, _w in [("i8", 1), ("u8", 1), ("i16", 2), ("u16", 2), ("i32", 4), ("u32", 4), ("i64", 8), ("u64", 8),
               ("f32", 4), ("f64", 8)]:
    METH[_t] = (_w, False)
    if _w > 1:
        METH[_t + "_le"] = (_w, True)
CAST_W = {"int": 4, "unsigned int": 4, "float": 4, "double": 8}
UPTR = "std::unique_ptr<codec::BinaryCodec>"
STR = "std::string"

ENC_START = "void encode(ByteBuf& buf) const override {"
DEC_START = "void decode(ByteBuf& buf) override {"


def meth(name):
    return METH.get(name, (0, False))


def inline_tree(p, path):
    """[(path, packet dump)] in the order of the prog: inline packets first."""
    out = []
    for f in p["fields"]:
        a = f["attr"]
        if a and a["kind"] == "object" and a["iner"] and a.get("inline"):
            out += inline_tree(a["inline"], path + "/" + f["name"])
    out.append((path, p))
    return out


# ------------------------------------------------------------------ the header

class Struct:
    def __init__(self, name):
        self.name = name
        self.members = []        # (name, type text) or (None, raw line)
        self.enc = None
        self.dec = None
        self.junk = []           # lines of the strict regions that are in no body


def is_comment(s):
    return s.startswith("//")


def parse_header(text):
    """-> (structs {name: Struct}, (factories {name: [(key, value type)]}, key types {name: [type of each using]}),
    order [struct names], notes)"""
    lines = [l.rstrip("\r") for l in text.split("\n")]
    structs, order, factories, keytypes, tags, notes = {}, [], {}, {}, set(), []
    pending = []                 # top-level junk waiting for the next struct
    last = None
    i, n = 0, len(lines)
    while i < n:
        raw = lines[i].rstrip()
        s = raw.strip()
        i += 1
        if not s or is_comment(s):
            continue
        if re.match(r"^#pragma once$", raw) or re.match(r'^#include (<[^>]*>|"[^"]*")$', raw):
            continue
        m = re.match(r"^struct (%s)Tag\{\};$" % ID, raw)
        if m:
            tags.add(m.group(1) + "Tag")
            continue
        m = re.match(r"^using (%s) = MessageFactory<(.*), codec::BinaryCodec, (%s)>;$" % (ID, ID), raw)
        if m:
            if m.group(3) not in tags:
                pending.append("factory %s uses undeclared tag %s" % (m.group(1), m.group(3)))
            factories.setdefault(m.group(1), [])
            keytypes.setdefault(m.group(1), []).append(m.group(2))
            continue
        m = re.match(r"^REGISTER_MESSAGE\((%s), (.*), (%s)\);$" % (ID, ID), raw)
        if m:
            if m.group(1) not in factories:
                pending.append(s)
            else:
                factories[m.group(1)].append((m.group(2), m.group(3)))
            continue
        m = re.match(r"^inline std::ostream& operator<<\(std::ostream& os, const (%s)& pkt\) \{$" % ID, raw)
        if m and i + 1 < n and lines[i].strip() == "return os << pkt.toString();" and lines[i + 1].rstrip() == "}":
            i += 2
            continue
        m = re.match(r"^struct (%s) : public codec::BinaryCodec \{$" % ID, raw)
        if m:
            st = Struct(m.group(1))
            st.junk += pending
            pending = []
            # the struct ends with "};" in column 0
            j = i
            while j < n and lines[j].rstrip() != "};":
                j += 1
            if j >= n:
                st.junk.append("<<unterminated struct>>")
            parse_struct_body(st, lines[i:j])
            i = j + 1
            if st.name in structs:
                notes.append("struct %s declared twice" % st.name)
                structs[st.name].junk.append("struct %s declared twice" % st.name)
            else:
                structs[st.name] = st
                order.append(st.name)
            last = structs[st.name]
            continue
        pending.append(s)
    if pending:
        if last is not None:
            last.junk += pending
        else:
            notes += ["top-level junk: " + p for p in pending]
    return structs, (factories, keytypes), order, notes


def parse_struct_body(st, body):
    """members / encode body / decode body; the rest (equals, toString) is not read."""
    phase = "members"
    for l in body:
        raw = l.rstrip()
        s = raw.strip()
        if phase == "members":
            if s == ENC_START:
                phase = "enc"
                st.enc = []
                continue
            if not s or is_comment(s):
                continue
            m = re.match(r"^    (.*) (%s);$" % ID, raw)
            if m:
                st.members.append((m.group(2), m.group(1)))
            else:
                st.members.append((None, s))
        elif phase == "enc":
            if raw == "    }":
                phase = "between"
                continue
            if s and not is_comment(s):
                st.enc.append(s)
        elif phase == "between":
            if s == DEC_START:
                phase = "dec"
                st.dec = []
                continue
            if s and not is_comment(s):
                st.junk.append(s)
        elif phase == "dec":
            if raw == "    }":
                phase = "rest"
                continue
            if s and not is_comment(s):
                st.dec.append(s)
    if phase in ("enc", "dec"):
        st.junk.append("<<unterminated function>>")


# ------------------------------------------------------------------ templates

class Ctx:
    def __init__(self, path, members, types, declared):
        self.path = path
        self.members = members            # [(name, type text)]
        self.types = types                # type name -> [paths]  (where the model declares it)
        self.declared = declared          # struct names the header declares
        self.defined = set()              # position variables defined so far in the body

    def midx(self, name):
        for i, (n, _) in enumerate(self.members):
            if n == name:
                return i
        return None

    def mtype(self, name):
        i = self.midx(name)
        return None if i is None else self.members[i][1]

    def resolve_type(self, t):
        if t not in self.declared:
            return "?" + t
        cands = self.types.get(t, [])
        child = [c for c in cands if c.startswith(self.path + "/") and "/" not in c[len(self.path) + 1:]]
        if len(child) == 1:
            return child[0]
        if len(cands) == 1:
            return cands[0]
        return "?" + t


def idx(c, m):
    i = c.midx(m)
    return UNDEF if i is None else i


def pad_of(g):
    return (g["lit"], g["left"] == "true") if g.get("lit") is not None else None


def vec(t):
    return "std::vector<" + t + ">"


def width_clash(mt, w):
    """a scalar method applied to a member: not a member at all, or a scalar member of another width (an
    implicit conversion, which the IR cannot express).  A member that is no scalar (vector, string, struct,
    pointer, empty type) is let through: the call is ill-typed, and so is the step on such a value."""
    return mt is None or (mt in CPP_W and CPP_W[mt] != w)


def scalar(c, g, kind, junk):
    """buf.write_<meth>(m) / m = buf.read_<meth>()"""
    w, le = meth(g["meth"])
    mt = c.mtype(g["m"])
    if width_clash(mt, w):
        return [(idx(c, g["m"]), (junk, "%s-byte method on member %s of type %s" % (w, g["m"], mt)))]
    return [(idx(c, g["m"]), (kind, w, le))]


def typed(c, g, want, step, junk):
    """the member the step names must be declared with type [want]"""
    mt = c.mtype(g["m"])
    if mt != want:
        return [(idx(c, g["m"]), (junk, "member %s has type %s, helper needs %s" % (g["m"], mt, want)))]
    return [(idx(c, g["m"]), step)]


def e_check(g, c):
    if g["meth"] != g["meth2"]:
        return [(UNDEF, ("EJunk", "checksum branches write %s / %s" % (g["meth"], g["meth2"])))]
    w, le = meth(g["meth"])
    mt = c.mtype(g["m"])
    if CPP_W.get(g["t"], 0) != w or width_clash(mt, w):
        return [(idx(c, g["m"]), ("EJunk", "checksum service of %s written with %s for member of type %s" % (g["t"], g["meth"], mt)))]
    return [(idx(c, g["m"]), ("ECheck", g["alg"], w, le))]


def e_markzero(g, c):
    i = idx(c, g["v"])
    c.defined.add(g["v"])
    w, le = meth(g["meth"])
    return [(i, ("EMarkZero", i, w, le))]


def codec_call(c, m, arrow):
    t = c.mtype(m)
    if arrow:
        return ("EDyn",) if t == UPTR else ("ENone",)          # -> on a member that is not a pointer
    if t is not None and t in c.declared:
        return ("EObj", c.resolve_type(t))
    return ("EJunk", ".encode on member %s of type %s" % (m, t))


def e_target(g, c):
    if not (g["v"] == g["v2"] == g["v3"] == g["v4"] and g["b"] == g["b2"]):
        return [(UNDEF, ("EJunk", "inconsistent length-of block"))]
    i = idx(c, g["m"])
    mark = idx(c, g["p"]) if g["p"] in c.defined else UNDEF
    w, le = meth(g["meth"])
    return [(i, ("ESpan", codec_call(c, g["m"], True), i)),
            (i, ("EPatch", mark, i, w, le, CAST_W.get(g["t"], 0), None))]


def e_list(g, c, elem, want):
    le = bool(g["le"])
    return typed(c, g, want, ("EList", CPP_W.get(g["p"], 0), le, le, elem), "EJunk")


def e_objlist(g, c):
    mt = c.mtype(g["m"]) or ""
    m = re.match(r"^std::vector<(%s)>$" % ID, mt)
    if not m or m.group(1) not in c.declared:
        return [(idx(c, g["m"]), ("EJunk", "object list of " + mt))]
    return e_list(g, c, ("EObj", c.resolve_type(m.group(1))), mt)


def enc_templates():
    T = []

    def add(pats, fn):
        T.append(([re.compile("^" + p + "$") for p in pats], fn))

    # checksum: its own if/else shape
    add([r'auto service = ChecksumServiceContext::instance\(\)\.get<ByteBuf, (?P<t>%s)>\((?P<alg>.*)\);' % TA,
         r'if\(service != nullptr\)\{',
         r'auto cs = service->calc\(buf\);',
         r'buf\.write_(?P<meth>\w*)\(cs\);',
         r'\} else \{',
         r'buf\.write_(?P<meth2>\w*)\((?P<m>%s)\);' % ID,
         r'\}'], e_check)
    # length placeholder
    add([r'auto (?P<v>%s)Pos = buf\.writer_index\(\);' % ID,
         r'buf\.write_(?P<meth>\w*)\(0\);'], e_markzero)
    # length-of target
    add([r'auto (?P<v>%s)Start = buf\.writer_index\(\);' % ID,
         r'(?P<m>%s)->encode\(buf\);' % ID,
         r'auto (?P<v2>%s)End = buf\.writer_index\(\);' % ID,
         r'auto (?P<b>%s)Len_ = static_cast<(?P<t>[^<>]*)>\((?P<v3>%s)End - (?P<v4>%s)Start\);' % (ID, ID, ID),
         r'buf\.write_(?P<meth>\w*)_at\((?P<p>%s)Pos, (?P<b2>%s)Len_\);' % (ID, ID)], e_target)
    add([r'buf\.write_(?P<meth>\w*)\((?P<m>%s)\);' % ID], lambda g, c: scalar(c, g, "EInt", "EJunk"))
    add([r'codec::write_fixed_string\(buf, (?P<m>%s), (?P<n>\d+), (?P<lit>.*), (?P<left>true|false)\);' % ID],
        lambda g, c: typed(c, g, STR, ("EFixed", int(g["n"]), pad_of(g)), "EJunk"))
    add([r'codec::write_fixed_string\(buf, (?P<m>%s), (?P<n>\d+)\);' % ID],
        lambda g, c: typed(c, g, STR, ("EFixed", int(g["n"]), None), "EJunk"))
    add([r'codec::write_string(?P<le>_le)?<(?P<s>%s)>\(buf, (?P<m>%s)\);' % (TA, ID)],
        lambda g, c: typed(c, g, STR, ("EStr", CPP_W.get(g["s"], 0), bool(g["le"]), bool(g["le"])), "EJunk"))
    # lists
    add([r'codec::write_basic_type(?P<le>_le)?<(?P<p>%s),(?P<t>%s)>\(buf,(?P<m>%s)\);' % (TA, TA, ID)],
        lambda g, c: e_list(g, c, ("EInt", CPP_W.get(g["t"], 0), bool(g["le"])), vec(g["t"])))
    add([r'codec::write_fixed_string_list(?P<le>_le)?<(?P<p>%s)>\(buf, (?P<m>%s), (?P<n>\d+), (?P<lit>.*), (?P<left>true|false)\);' % (TA, ID)],
        lambda g, c: e_list(g, c, ("EFixed", int(g["n"]), pad_of(g)), vec(STR)))
    add([r'codec::write_fixed_string_list(?P<le>_le)?<(?P<p>%s)>\(buf, (?P<m>%s), (?P<n>\d+)\);' % (TA, ID)],
        lambda g, c: e_list(g, c, ("EFixed", int(g["n"]), None), vec(STR)))
    add([r'codec::write_string_list(?P<le>_le)?<(?P<p>%s),(?P<s>%s)>\(buf, (?P<m>%s)\);' % (TA, TA, ID)],
        lambda g, c: e_list(g, c, ("EStr", CPP_W.get(g["s"], 0), bool(g["le"]), bool(g["le"])), vec(STR)))
    add([r'codec::write_object_List(?P<le>_le)?<(?P<p>%s)>\(buf,(?P<m>%s)\);' % (TA, ID)], e_objlist)
    # codec members
    add([r'(?P<m>%s)\.encode\(buf\);' % ID], lambda g, c: [(idx(c, g["m"]), codec_call(c, g["m"], False))])
    add([r'(?P<m>%s)->encode\(buf\);' % ID], lambda g, c: [(idx(c, g["m"]), codec_call(c, g["m"], True))])
    add([r'-- unsupport type:.*'], lambda g, c: [(UNDEF, ("EMarker",))])
    return T


def d_list(g, c, elem, want):
    return typed(c, g, want, ("DList", CPP_W.get(g["p"], 0), bool(g["le"]), False, elem), "DJunk")


def d_objlist(g, c):
    if g["t"] not in c.declared:
        return [(idx(c, g["m"]), ("DJunk", "object list of undeclared type " + g["t"]))]
    return d_list(g, c, ("DObj", c.resolve_type(g["t"])), vec(g["t"]))


def d_obj(g, c):
    t = c.mtype(g["m"])
    if t is None or t not in c.declared:
        return [(idx(c, g["m"]), ("DJunk", ".decode on member %s of type %s" % (g["m"], t)))]
    return [(idx(c, g["m"]), ("DObj", c.resolve_type(t)))]


def d_dispatch(g, c, tables):
    if g["m"] != g["m2"]:
        return [(UNDEF, ("DJunk", "inconsistent match decode"))]
    i = idx(c, g["m"])
    if c.mtype(g["m"]) != UPTR:
        return [(i, ("DNone",))]                 # -> on a member that is not a pointer
    regs, keytypes = tables
    table = regs.get(g["f"])
    ki = c.midx(g["k"])
    if table is None or ki is None:
        return [(i, ("DNone",))]                 # factory never declared / key is no member
    kts = set(keytypes.get(g["f"], []))
    if len(kts) > 1:
        return [(i, ("DNone",))]                 # the alias is declared with conflicting key types
    if kts != {c.mtype(g["k"])}:
        return [(i, ("DJunk", "factory keyed by %s created with member %s of type %s" % (sorted(kts), g["k"], c.mtype(g["k"]))))]
    # runtime contract (assumption): a later registration of a key replaces an earlier one,
    # create() of an unknown key signals an error
    return [(i, ("DDispatch", [(k, c.resolve_type(v)) for k, v in table], False, ki, True))]


def dec_templates(tables):
    T = []

    def add(pats, fn):
        T.append(([re.compile("^" + p + "$") for p in pats], fn))

    add([r'(?P<m>%s) = buf\.read_(?P<meth>\w*)\(\);' % ID], lambda g, c: scalar(c, g, "DInt", "DJunk"))
    add([r'(?P<m>%s) = codec::read_basic_type(?P<le>_le)?<(?P<p>%s),(?P<t>%s)>\(buf\);' % (ID, TA, TA)],
        lambda g, c: d_list(g, c, ("DInt", CPP_W.get(g["t"], 0), bool(g["le"])), vec(g["t"])))
    add([r'(?P<m>%s) = codec::read_fixed_string_list(?P<le>_le)?<(?P<p>%s)>\(buf, (?P<n>\d+), (?P<lit>.*), (?P<left>true|false)\);' % (ID, TA)],
        lambda g, c: d_list(g, c, ("DFixed", int(g["n"]), pad_of(g)), vec(STR)))
    add([r'(?P<m>%s) = codec::read_fixed_string_list(?P<le>_le)?<(?P<p>%s)>\(buf, (?P<n>\d+)\);' % (ID, TA)],
        lambda g, c: d_list(g, c, ("DFixed", int(g["n"]), None), vec(STR)))
    add([r'(?P<m>%s) = codec::read_fixed_string\(buf, (?P<n>\d+), (?P<lit>.*), (?P<left>true|false)\);' % ID],
        lambda g, c: typed(c, g, STR, ("DFixed", int(g["n"]), pad_of(g)), "DJunk"))
    add([r'(?P<m>%s) = codec::read_fixed_string\(buf, (?P<n>\d+)\);' % ID],
        lambda g, c: typed(c, g, STR, ("DFixed", int(g["n"]), None), "DJunk"))
    add([r'(?P<m>%s) = codec::read_string_list(?P<le>_le)?<(?P<p>%s),(?P<s>%s)>\(buf\);' % (ID, TA, TA)],
        lambda g, c: d_list(g, c, ("DStr", CPP_W.get(g["s"], 0), bool(g["le"]), False), vec(STR)))
    add([r'(?P<m>%s) = codec::read_string(?P<le>_le)?<(?P<s>%s)>\(buf\);' % (ID, TA)],
        lambda g, c: typed(c, g, STR, ("DStr", CPP_W.get(g["s"], 0), bool(g["le"]), False), "DJunk"))
    add([r'(?P<m>%s) = codec::read_object_List(?P<le>_le)?<(?P<p>%s),(?P<t>%s)>\(buf\);' % (ID, TA, TA)], d_objlist)
    add([r'(?P<m>%s)\.decode\(buf\);' % ID], d_obj)
    add([r'(?P<m>%s) = (?P<f>%s)::getInstance\(\)\.create\((?P<k>%s)\);' % (ID, ID, ID),
         r'(?P<m2>%s)->decode\(buf\);' % ID], lambda g, c: d_dispatch(g, c, tables))
    add([r'-- unsupport type:.*'], lambda g, c: [(UNDEF, ("DMarker",))])
    return T


def run_templates(lines, templates, ctx, junk):
    out = []
    i = 0
    while i < len(lines):
        for pats, fn in templates:
            if i + len(pats) > len(lines):
                continue
            groups = {}
            ok = True
            for k, p in enumerate(pats):
                m = p.match(lines[i + k])
                if not m:
                    ok = False
                    break
                for gk, gv in m.groupdict().items():
                    if gk == "m" and gk in groups and groups[gk] != gv:
                        ok = False
                    groups.setdefault(gk, gv)
                if not ok:
                    break
            if ok:
                for ix, step in fn(groups, ctx):
                    out.append((UNDEF if ix is None else ix, step))
                i += len(pats)
                break
        else:
            out.append((UNDEF, (junk, lines[i])))
            i += 1
    return out


ENC_T = enc_templates()


def extract_cpp(files, model, names):
    """files: {name: text}; returns [(path, ir)] in the order of Coq's gen_cpp, plus a list of notes."""
    lcamel = lambda n: names[n][1]
    snake = lambda n: names[n][2]
    notes = []
    types = {}
    for p in model["packets"]:
        for path, q in inline_tree(p, p["name"]):
            types.setdefault(q["name"], []).append(path)
    hpp = [k for k in files if k.startswith("include/") and k.endswith(".hpp")]
    want_name = "include/%s.hpp" % snake(model["root"]) if model.get("root") else None
    if want_name not in files:
        notes.append("missing file %s (have %s)" % (want_name, sorted(files)))
        text = files[hpp[0]] if len(hpp) == 1 else ""
    else:
        text = files[want_name]
    structs, factories, order, hnotes = parse_header(text)
    notes += hnotes
    declared = set(structs)
    seen = set()
    prog = []
    for p in model["packets"]:
        for path, q in inline_tree(p, p["name"]):
            st = structs.get(q["name"])
            if st is None or q["name"] in seen:
                why = "no struct" if st is None else "struct already taken by another packet"
                notes.append("%s %s for %s" % (why, q["name"], path))
                prog.append((path, {"members": len(q["fields"]), "enc": [(UNDEF, ("EJunk", why))],
                                    "dec": [(UNDEF, ("DJunk", why))]}))
                continue
            seen.add(q["name"])
            ctx = Ctx(path, st.members, types, declared)
            enc = run_templates(st.enc, ENC_T, ctx, "EJunk") if st.enc is not None else [(UNDEF, ("EJunk", "no encode"))]
            dec = run_templates(st.dec, dec_templates(factories), ctx, "DJunk") if st.dec is not None else [(UNDEF, ("DJunk", "no decode"))]
            for j in st.junk:
                enc.append((UNDEF, ("EJunk", j)))
            # the members must be the declared fields, in order, under their converted names
            want = [lcamel(f["name"]) for f in q["fields"]]
            got = [m[0] for m in st.members]
            if want != got:
                enc.append((UNDEF, ("EJunk", "struct members %s expected %s" % (got, want))))
            prog.append((path, {"members": len(st.members), "enc": enc, "dec": dec}))
    for name in order:
        if name not in seen:
            notes.append("struct %s belongs to no packet of the model" % name)
            if prog:
                prog[-1][1]["enc"].append((UNDEF, ("EJunk", "struct %s belongs to no packet of the model" % name)))
    return prog, notes
