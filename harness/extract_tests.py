"""The sample messages built by the unit tests fin-protoc emits next to every codec (C17).

For each codec language L

    extract_tests_L(files, model, names) -> [entry]

with one entry per test unit the generator is expected to emit (every top-level packet; for
Rust additionally every inline packet, which gets its own #[cfg(test)] module):

    {"path":        packet path (IR.md),
     "emitted":     False when no test for the packet is found in the output,
     "sample":      the message the scaffold builds, as a positional value of harness/samples.py
                    (("I", n) ("S", [bytes]) ("L", [..]) ("O", [..]) ("D", packet path, payload)),
                    None when it cannot be built,
     "problems":    ["build: ..." | "run: ..." | "cover: ..."]
                       build: the scaffold is not a valid program (undeclared variable, unknown
                              member, wrong nesting, type confusion, redeclaration, marker text ...)
                       run:   it builds but the message cannot exist at run time (nil / null /
                              uninitialised member that the encoder dereferences)
                       cover: it builds and runs but does not exercise a member (list left empty,
                              member left at its default)
     "compares":    "whole" (Go reflect.DeepEqual, Rust derived PartialEq) or "members"
                    (Python __eq__, Java equals, C++ equals: the member lists are in "eq_members"),
     "post_copies": member indices the test copies from `decoded` into `original` before comparing,
     "eq_members":  {packet path: [member indices compared]}  (only for "members"),
     "assigned":    number of member assignments of the scaffold that were interpreted (Go, Java, Python, C++),
     "stores":      {packet path: [(trigger member index, destination member index, cast width or
                    None)]}: members the emitted ENCODER assigns in the object being encoded
                    (length-of: at the back-patch of target `trigger`; checksum: at the checksum
                    step of member `trigger`); empty where encode cannot mutate (&self, const)}

Everything is read off the emitted text.  Member names are resolved through the emitted
type's member list, type names through the emitted declarations, exactly as
harness/extract_<L>.py does (their parsers are imported).  The interpreters are strict: a
line of a scaffold that is no known statement form is a "build:" problem.

Floats: a literal assigned to a float member is converted to the IEEE bit pattern of the
member's width (the member types come from the emitted declarations; for Python from the
read_f32/read_f64 call of the emitted decoder)."""
import re
import struct

import extract_go
import extract_rust
import extract_java
import extract_py
import extract_cpp

ID = r"[A-Za-z_][A-Za-z_0-9]*"


# ---------------------------------------------------------------------------------------- common

def f_bits(x, w):
    if w == 4:
        return struct.unpack(">I", struct.pack(">f", float(x)))[0]
    return struct.unpack(">Q", struct.pack(">d", float(x)))[0]


def inline_tree(p, path):
    out = []
    for f in p["fields"]:
        a = f["attr"]
        if a and a["kind"] == "object" and a["iner"] and a.get("inline"):
            out += inline_tree(a["inline"], path + "/" + f["name"])
    out.append((path, p))
    return out


def all_types(model):
    """declared type name -> [paths]   (as the extractors build it)"""
    types = {}
    for p in model["packets"]:
        for path, q in inline_tree(p, p["name"]):
            types.setdefault(q["name"], []).append(path)
    return types


def new_entry(path, shared):
    return {"path": path, "emitted": True, "sample": None, "problems": [], "compares": "whole", "post_copies": [], "assigned": 0,
            "eq_members": shared["eq_members"], "stores": shared["stores"]}


def unescape(body):
    """bytes of a "..." literal body with the escapes the generators can emit (they copy DSL text)"""
    out = bytearray()
    i = 0
    while i < len(body):
        c = body[i]
        if c == "\\" and i + 1 < len(body):
            n = body[i + 1]
            table = {"n": 10, "t": 9, "r": 13, "0": 0, "\\": 92, '"': 34, "'": 39}
            if n == "x" and i + 3 < len(body) + 0 and re.match(r"[0-9a-fA-F]{2}", body[i + 2:i + 4]):
                out.append(int(body[i + 2:i + 4], 16))
                i += 4
                continue
            if n in table:
                out.append(table[n])
                i += 2
                continue
        out += c.encode("utf-8")
        i += 1
    return list(out)


class Obj:
    """an object under construction: reference semantics (Go pointer, Java/Python reference)"""

    def __init__(self, tname, path, members):
        self.tname = tname
        self.path = path                  # packet path the type name resolves to, or "?name"
        self.members = members            # [(name, type text)] of the emitted type (None when undeclared)
        self.fields = {}                  # member name -> interpreted value
        self.used = False


class Fail(Exception):
    pass


# ---------------------------------------------------------------------------------------- Go

GO_INT = {"int8": (1, True), "uint8": (1, False), "int16": (2, True), "uint16": (2, False), "int32": (4, True),
          "uint32": (4, False), "int64": (8, True), "uint64": (8, False)}
GO_FLOAT = {"float32": 4, "float64": 8}
GO_RESERVED = {"t", "buf", "decoded", "msg", "bytes", "assert", "testing"}


def go_structs(files, model, names):
    """-> (declared {type name: (path, members)}, ambiguous names, per-path members, stores)"""
    snake = lambda n: names[n][2]
    types = all_types(model)
    decl = {}
    bypath = {}
    stores = {}
    dup = set()
    for p in model["packets"]:
        text = files.get(snake(p["name"]) + ".go")
        if text is None:
            continue
        gf = extract_go.GoFile(text)
        for path, q in inline_tree(p, p["name"]):
            members = extract_go.parse_struct(gf, q["name"])
            if members is None:
                continue
            if q["name"] in decl:
                dup.add(q["name"])
            decl.setdefault(q["name"], (path, members))
            bypath[path] = members
            stores[path] = go_stores(gf, q["name"], members)
    return decl, dup, bypath, stores, types


def go_stores(gf, tname, members):
    body = extract_go.func_body(gf, tname, "Encode") or []
    idx = {n: i for i, (n, _) in reversed(list(enumerate(members)))}
    out = []
    for k, l in enumerate(body):
        s = l.strip()
        m = re.match(r"^p\.(%s) = (\w*)\((%s)End - (%s)Start\)$" % (ID, ID, ID), s)
        if m:
            trig = None
            for j in range(k - 1, -1, -1):
                mm = re.match(r"^if p\.(%s) != nil \{$" % ID, body[j].strip())
                if mm:
                    trig = idx.get(mm.group(1))
                    break
            if trig is not None and m.group(1) in idx:
                out.append((trig, idx[m.group(1)], extract_go.GO_W.get(m.group(2))))
            continue
        m = re.match(r"^p\.(%s) = checksumService\.\(codec\.ChecksumService\[\*bytes\.Buffer, (\w*)\]\)\.Calc\(buf\)$" % ID, s)
        if m and m.group(1) in idx:
            out.append((idx[m.group(1)], idx[m.group(1)], extract_go.GO_W.get(m.group(2))))
    return out


def go_value(txt, mt, env, probs, where):
    """interpret the Go expression `txt` as a value of the member type `mt`"""
    txt = txt.strip()
    if txt == "":
        probs.append("build: %s: no value is emitted (syntax error)" % where)
        return None
    if txt.startswith("-- unsupport"):
        probs.append("build: %s: marker text '%s'" % (where, txt))
        return None
    if mt is None or mt == "":
        probs.append("build: %s: the member has no type in the emitted struct" % where)
        return None
    m = re.fullmatch(r"\[\](\*?)(msg\.)?([A-Za-z_0-9]*)\{(.*)\}", txt)
    if m:
        star, qual, et, inner = m.groups()
        if not mt.startswith("[]"):
            probs.append("build: %s: slice literal %s assigned to a member of type %s" % (where, txt, mt))
            return None
        emt = mt[2:]
        builtin = et in GO_INT or et in GO_FLOAT or et == "string"
        if et == "":
            probs.append("build: %s: slice literal without element type: %s" % (where, txt))
            return None
        if (qual is None) != builtin:
            probs.append("build: %s: element type %s%s%s is not a type visible in package msg_test" % (where, star, qual or "", et))
            return None
        if star + et != emt:
            probs.append("build: %s: %s is not assignable to %s" % (where, txt, mt))
            return None
        items = [x for x in split_top(inner)]
        vals = []
        for it in items:
            v = go_value(it, emt, env, probs, where)
            if v is None:
                return None
            vals.append(v)
        if not vals:
            probs.append("cover: %s: list left empty" % where)
        return ("L", vals)
    if re.fullmatch(r"\d+", txt):
        n = int(txt)
        if mt in GO_INT:
            w, signed = GO_INT[mt]
            hi = 256 ** w // 2 if signed else 256 ** w
            if n >= hi:
                probs.append("build: %s: constant %d overflows %s" % (where, n, mt))
                return None
            return ("I", n)
        if mt in GO_FLOAT:
            return ("I", f_bits(n, GO_FLOAT[mt]))
        probs.append("build: %s: integer constant %s assigned to a member of type %s" % (where, txt, mt))
        return None
    m = re.fullmatch(r'"((?:[^"\\]|\\.)*)"', txt)
    if m:
        if mt != "string":
            probs.append("build: %s: string constant %s assigned to a member of type %s" % (where, txt, mt))
            return None
        return ("S", unescape(m.group(1)))
    if re.fullmatch(ID, txt):
        o = env.get(txt)
        if o is None:
            probs.append("build: %s: undefined: %s" % (where, txt))
            return None
        o.used = True
        if mt == "codec.BinaryCodec":
            return ("DYN", o)
        if mt.startswith("*"):
            if mt[1:] != o.tname:
                probs.append("build: %s: variable %s of type *msg.%s assigned to a member of type %s" % (where, txt, o.tname, mt))
                return None
            return ("OBJ", o)
        probs.append("build: %s: variable %s (*msg.%s) assigned to a member of type %s" % (where, txt, o.tname, mt))
        return None
    probs.append("build: %s: cannot interpret the expression %s" % (where, txt))
    return None


def split_top(s):
    """split on top-level commas; '' -> []"""
    out, depth, cur, q = [], 0, "", None
    for ch in s:
        if q:
            cur += ch
            if ch == q and not cur.endswith("\\" + q):
                q = None
            continue
        if ch in "\"'":
            q = ch
            cur += ch
            continue
        if ch in "([{":
            depth += 1
        elif ch in ")]}":
            depth -= 1
        if ch == "," and depth == 0:
            out.append(cur.strip())
            cur = ""
        else:
            cur += ch
    if cur.strip():
        out.append(cur.strip())
    return out


def finish(o, probs, zero, seen=None):
    """object graph -> positional value; `zero(type text, where)` gives the value of an unassigned member
    (or None after recording a problem)"""
    seen = seen or []
    if o in seen:
        probs.append("build: cyclic object graph")
        return None
    if o.members is None:
        return None
    vals = []
    ok = True
    for name, mt in o.members:
        where = "%s.%s" % (o.tname, name)
        if name is None:
            probs.append("build: %s: unreadable member declaration %s" % (o.tname, mt))
            ok = False
            continue
        if name in o.fields:
            v = conv(o.fields[name], probs, zero, seen + [o])
        else:
            v = zero(mt, where)
        if v is None:
            ok = False
        vals.append(v)
    return ("O", vals) if ok else None


def conv(v, probs, zero, seen):
    if v is None:
        return None
    k = v[0]
    if k == "OBJ":
        return finish(v[1], probs, zero, seen)
    if k == "DYN":
        inner = finish(v[1], probs, zero, seen)
        return None if inner is None else ("D", v[1].path, inner)
    if k == "L":
        items = [conv(x, probs, zero, seen) for x in v[1]]
        return None if any(x is None for x in items) else ("L", items)
    return v


def extract_tests_go(files, model, names):
    snake = lambda n: names[n][2]
    camel = lambda n: names[n][0]
    decl, dup, bypath, stores, types = go_structs(files, model, names)
    shared = {"eq_members": {}, "stores": {k: v for k, v in stores.items() if v}}
    out = []
    for p in model["packets"]:
        e = new_entry(p["name"], shared)
        out.append(e)
        probs = e["problems"]
        text = files.get(snake(p["name"]) + "_test.go")
        if text is None:
            e["emitted"] = False
            continue
        lines = text.split("\n")
        start = None
        for i, l in enumerate(lines):
            m = re.fullmatch(r"func Test(%s)Codec\(t \*testing\.T\) \{" % ID, l)
            if m:
                start = i
                if m.group(1) != camel(p["name"]):
                    probs.append("build: test function named %s" % m.group(1))
                break
        if start is None:
            e["emitted"] = False
            continue
        # header of the file
        head = [l.strip() for l in lines[:start] if l.strip()]
        want_head = ["// Code generated by fin-protoc. DO NOT EDIT.", "package %s_test" % model["config"]["go_package"], "import (",
                     '"bytes"', '"testing"', '"github.com/stretchr/testify/assert"', 'msg "%s")' % model["config"]["go_module"]]
        if head != want_head:
            probs.append("build: unexpected file header %s" % head)
        if not model["config"]["go_module"]:
            probs.append('build-env: GoModule is not set: the test imports msg ""')
        if not model["config"]["go_package"]:
            probs.append("build-env: GoPackage is not set: the files start with 'package ' / 'package _test'")
        body = lines[start + 1:]
        while body and not body[-1].strip():
            body.pop()
        if not body or body[-1] != "}":
            probs.append("build: test function not terminated")
        else:
            body = body[:-1]
        env = {}
        cur = None
        tail = []
        for l in body:
            s = l.strip()
            if not s:
                continue
            if cur is not None:
                if s == "}":
                    cur = None
                    continue
                m = re.fullmatch(r"(%s)\s*:\s*(.*),$" % ID, s)
                if not m:
                    m2 = re.fullmatch(r"(%s)\s*:\s*,?" % ID, s)
                    if m2:
                        probs.append("build: %s.%s: no value is emitted (syntax error)" % (cur.tname, m2.group(1)))
                    else:
                        probs.append("build: cannot interpret the line '%s'" % s)
                    continue
                fname, vtxt = m.group(1), m.group(2)
                if cur.members is None:
                    continue
                mt = next((t for n, t in cur.members if n == fname), None)
                if not any(n == fname for n, _ in cur.members):
                    probs.append("build: unknown field %s in struct literal of type msg.%s" % (fname, cur.tname))
                    continue
                if fname in cur.fields or fname in cur.given:
                    probs.append("build: duplicate field name %s in struct literal of type msg.%s" % (fname, cur.tname))
                    continue
                cur.given.add(fname)
                e["assigned"] += 1
                v = go_value(vtxt, mt, env, probs, "%s.%s" % (cur.tname, fname))
                cur.fields[fname] = v
                continue
            m = re.fullmatch(r"(%s) := &msg\.(%s)\{" % (ID, ID), s)
            if m:
                var, tn = m.group(1), m.group(2)
                d = decl.get(tn)
                if d is None:
                    probs.append("build: undefined: msg.%s (the struct of packet %s is declared as %s)" % (
                        tn, next((q for q in decl if camel(q) == tn), "?"), next((q for q in decl if camel(q) == tn), "nothing")))
                    o = Obj(tn, "?" + tn, None)
                else:
                    if tn in dup:
                        probs.append("build: type %s is declared more than once in the package" % tn)
                    o = Obj(tn, d[0], d[1])
                o.given = set()
                if var in env:
                    probs.append("build: no new variables on left side of := (%s is declared twice)" % var)
                if var in GO_RESERVED:
                    probs.append("build: variable %s shadows an identifier the scaffold uses" % var)
                env[var] = o
                cur = o
                continue
            tail.append(s)
        want_tail = ["var buf bytes.Buffer", "assert.NoError(t, original.Encode(&buf))", "var decoded msg.%s" % camel(p["name"]),
                     "assert.NoError(t, decoded.Decode(&buf))", "assert.Equal(t, original, &decoded)"]
        if tail != want_tail:
            probs.append("build: unexpected scaffold statements %s" % [x for x in tail if x not in want_tail])
        if camel(p["name"]) not in decl:
            probs.append("build: undefined: msg.%s in 'var decoded'" % camel(p["name"]))
        orig = env.get("original")
        if orig is None:
            probs.append("build: 'original' is never declared")
            continue
        orig.used = True
        for var, o in env.items():
            if not o.used:
                probs.append("build: declared and not used: %s" % var)

        def zero(mt, where):
            if mt in GO_INT or mt in GO_FLOAT:
                probs.append("cover: %s left at its zero value" % where)
                return ("I", 0)
            if mt == "string":
                probs.append("cover: %s left at its zero value" % where)
                return ("S", [])
            if mt.startswith("[]"):
                probs.append("cover: %s: list left empty" % where)
                return ("L", [])
            probs.append("run: %s is nil when Encode dereferences it" % where)
            return None
        if orig.path != p["name"]:
            probs.append("build: 'original' is a %s" % orig.tname)
        v = finish(orig, probs, zero)
        if not any(x.startswith("build:") for x in probs):
            e["sample"] = v
    return out


# ---------------------------------------------------------------------------------------- Rust

RUST_INT = {"u8": (1, False), "i8": (1, True), "u16": (2, False), "i16": (2, True), "u32": (4, False), "i32": (4, True),
            "u64": (8, False), "i64": (8, True)}
RUST_FLOAT = {"f32": 4, "f64": 8}
TOK_RE = re.compile(r'\s*(?:(?P<str>"(?:[^"\\]|\\.)*")|(?P<chr>\'(?:[^\'\\]|\\.)\')|(?P<num>\d+(?:\.\d+)?)|(?P<id>[A-Za-z_][A-Za-z_0-9]*)'
                    r'|(?P<p>::|[{}()\[\],:;!<>.\-&=]))')


def rust_tokens(text):
    toks = []
    i = 0
    n = len(text)
    while i < n:
        m = TOK_RE.match(text, i)
        if not m:
            if text[i:].strip() == "":
                break
            toks.append(("bad", text[i:i + 20], i, i + 1))
            i += 1
            continue
        kind = m.lastgroup
        toks.append((kind, m.group(kind), m.start(kind), m.end()))
        i = m.end()
    return toks


class RustParser:
    def __init__(self, toks):
        self.t = toks
        self.i = 0

    def peek(self, k=0):
        return self.t[self.i + k] if self.i + k < len(self.t) else ("eof", "", -1, -1)

    def take(self, val=None):
        tok = self.peek()
        if val is not None and tok[1] != val:
            raise Fail("expected '%s', found '%s'" % (val, tok[1]))
        self.i += 1
        return tok

    def path(self):
        parts = [self.take()[1]]
        while self.peek()[1] == "::" and self.peek(1)[0] == "id":
            self.take()
            parts.append(self.take()[1])
        return parts

    def expr(self):
        k, v = self.peek()[0], self.peek()[1]
        if k == "num":
            self.take()
            return ("int", v)
        if v == "-" and self.peek(1)[0] == "num":
            self.take()
            return ("neg", self.take()[1])
        if k == "str":
            self.take()
            if self.peek()[1] == "." and self.peek(1)[1] == "to_string":
                self.take(), self.take(), self.take("("), self.take(")")
                return ("string", v[1:-1])
            return ("strref", v[1:-1])
        if k == "chr":
            self.take()
            return ("char", v[1:-1])
        if k == "id" and v == "vec" and self.peek(1)[1] == "!":
            self.take(), self.take(), self.take("[")
            items = []
            rep = None
            if self.peek()[1] != "]":
                items.append(self.expr())
                if self.peek()[1] == ";":
                    self.take()
                    rep = self.take()
                    if rep[0] != "num":
                        raise Fail("vec![x; n] with n = %s" % rep[1])
                    rep = int(rep[1])
                else:
                    while self.peek()[1] == ",":
                        self.take()
                        if self.peek()[1] == "]":
                            break
                        items.append(self.expr())
            self.take("]")
            node = ("vecrep", items[0], rep) if rep is not None else ("vec", items)
            if self.peek()[1] == "." and self.peek(1)[1] == "into_iter":
                for x in (".", "into_iter", "(", ")", ".", "collect", "::", "<", "String", ">", "(", ")"):
                    self.take(x)
                return ("collect_string", node)
            return node
        if k == "id":
            parts = self.path()
            nxt = self.peek()[1]
            if nxt == "{":
                self.take()
                fields = []
                while self.peek()[1] != "}":
                    fn = self.take()
                    if fn[0] != "id":
                        raise Fail("field name expected, found '%s'" % fn[1])
                    self.take(":")
                    fields.append((fn[1], self.expr()))
                    if self.peek()[1] == ",":
                        self.take()
                    elif self.peek()[1] != "}":
                        raise Fail("',' or '}' expected after field %s, found '%s'" % (fn[1], self.peek()[1]))
                self.take("}")
                return ("struct", parts, fields)
            if nxt == "(":
                self.take()
                if self.peek()[1] == ")":
                    self.take()
                    return ("call", parts, [])
                arg = self.expr()
                self.take(")")
                return ("call", parts, [arg])
            return ("path", parts)
        raise Fail("cannot interpret the expression at '%s'" % v)


def rust_unchar(body):
    b = unescape(body)
    return b


def rust_eval(e, ty, ctx, probs, where):
    """AST -> value of Rust type text `ty`; ctx: structs {name: (path, members)}, enums {name: [(V, T)]}"""
    k = e[0]
    m = re.fullmatch(r"Vec<(.*)>", ty)
    if m:
        ety = m.group(1)
        if k == "vec":
            vals = [rust_eval(x, ety, ctx, probs, where) for x in e[1]]
            if any(v is None for v in vals):
                return None
            if not vals:
                probs.append("cover: %s: list left empty (vec![])" % where)
            return ("L", vals)
        if k == "vecrep":
            v = rust_eval(e[1], ety, ctx, probs, where)
            if v is None:
                return None
            if e[2] == 0:
                probs.append("cover: %s: list left empty" % where)
            return ("L", [v] * e[2])
        if k == "call" and e[1] == ["Default", "default"] and not e[2]:
            probs.append("cover: %s: list left empty (Default::default())" % where)
            return ("L", [])
        probs.append("build: %s: mismatched types: expected %s" % (where, ty))
        return None
    if ty in RUST_INT:
        w, signed = RUST_INT[ty]
        if k == "int" and "." not in e[1]:
            n = int(e[1])
            if n >= (256 ** w // 2 if signed else 256 ** w):
                probs.append("build: %s: literal %d out of range for %s" % (where, n, ty))
                return None
            return ("I", n)
        if k == "neg" and "." not in e[1]:
            n = int(e[1])
            if not signed:
                probs.append("build: %s: cannot apply unary operator '-' to type %s" % (where, ty))
                return None
            if n > 256 ** w // 2:
                probs.append("build: %s: literal -%d out of range for %s" % (where, n, ty))
                return None
            return ("I", (256 ** w - n) % 256 ** w)
        if k == "call" and e[1] == ["Default", "default"] and not e[2]:
            probs.append("cover: %s left at its default (Default::default())" % where)
            return ("I", 0)
        probs.append("build: %s: mismatched types: expected %s" % (where, ty))
        return None
    if ty in RUST_FLOAT:
        w = RUST_FLOAT[ty]
        if k == "int" and "." in e[1]:
            return ("I", f_bits(float(e[1]), w))
        if k == "neg" and "." in e[1]:
            return ("I", f_bits(-float(e[1]), w))
        if k == "call" and e[1] == ["Default", "default"] and not e[2]:
            probs.append("cover: %s left at its default (Default::default())" % where)
            return ("I", 0)
        probs.append("build: %s: mismatched types: expected %s" % (where, ty))
        return None
    if ty == "char":
        # not a codec type of the runtime; the extractors give such members width 0
        if k == "char":
            b = rust_unchar(e[1])
            return ("I", b[0] if len(b) == 1 else 0)
        probs.append("build: %s: mismatched types: expected char" % where)
        return None
    if ty == "String":
        if k == "string":
            return ("S", unescape(e[1]))
        if k == "collect_string" and e[1][0] == "vecrep" and e[1][1][0] == "char":
            return ("S", rust_unchar(e[1][1][1]) * e[1][2])
        if k == "call" and e[1] == ["Default", "default"] and not e[2]:
            probs.append("cover: %s left at its default (Default::default())" % where)
            return ("S", [])
        probs.append("build: %s: mismatched types: expected String" % where)
        return None
    if ty in ctx["enums"]:
        decls = ctx["enums"][ty]
        if k == "call" and ctx.get("visible") is not None and ctx["home"].get(e[1][0], "?") not in ctx["visible"] and e[1][0] in ctx["home"]:
            probs.append("build: %s: cannot find type %s in this scope (crate::%s is not imported)" % (where, e[1][0], ctx["home"][e[1][0]]))
            return None
        if len(decls) != 1:
            probs.append("build: %s: enum %s is declared %d times" % (where, ty, len(decls)))
            return None
        if k == "call" and len(e[1]) == 2 and e[1][0] == ty and len(e[2]) == 1:
            var = e[1][1]
            vt = next((t for v, t in decls[0] if v == var), None)
            if vt is None:
                probs.append("build: %s: no variant %s in enum %s" % (where, var, ty))
                return None
            inner = rust_eval(e[2][0], vt, ctx, probs, where + "::" + var)
            if inner is None:
                return None
            st = ctx["structs"].get(vt)
            return ("D", st[0] if st else "?" + vt, inner)
        probs.append("build: %s: mismatched types: expected enum %s, found %s" % (where, ty, rust_show(e)))
        return None
    if ty in ctx["structs"]:
        if ty in ctx["dups"]:
            probs.append("build: %s: struct %s is declared more than once in the crate" % (where, ty))
            return None
        path, members = ctx["structs"][ty]
        if k == "struct" and e[1] == [ty] and ctx.get("visible") is not None and ctx["home"].get(ty) not in ctx["visible"]:
            probs.append("build: %s: cannot find struct %s in this scope (crate::%s is not imported)" % (where, ty, ctx["home"].get(ty)))
            return None
        if k == "struct" and e[1] == [ty]:
            given = {}
            for fn, fe in e[2]:
                if fn in given:
                    probs.append("build: %s: field %s specified more than once" % (where, fn))
                    return None
                given[fn] = fe
            names_ = [n for n, _ in members]
            for fn in given:
                if fn not in names_:
                    probs.append("build: %s: struct %s has no field named %s" % (where, ty, fn))
                    return None
            vals = []
            for n, mt in members:
                if n is None:
                    probs.append("build: %s: unreadable member declaration %s" % (ty, mt))
                    return None
                if n not in given:
                    probs.append("build: %s: missing field %s in initializer of %s" % (where, n, ty))
                    return None
                v = rust_eval(given[n], mt, ctx, probs, "%s.%s" % (ty, n))
                if v is None:
                    return None
                vals.append(v)
            return ("O", vals)
        if k == "call" and e[1] == ["Default", "default"]:
            probs.append("build: %s: the trait Default is not implemented for %s" % (where, ty))
            return None
        probs.append("build: %s: mismatched types: expected struct %s, found %s" % (where, ty, rust_show(e)))
        return None
    probs.append("build: %s: cannot find type %s in this scope" % (where, ty))
    return None


def rust_show(e):
    if e[0] in ("struct", "call", "path"):
        return "::".join(e[1])
    return e[0]


def extract_tests_rust(files, model, names):
    snake = lambda n: names[n][2]
    camel = lambda n: names[n][0]
    shared = {"eq_members": {}, "stores": {}}
    structs, dups = {}, set()
    perfile = {}
    all_enums = {}
    home = {}             # struct / enum name -> module (file) that declares it
    for p in model["packets"]:
        text = files.get(snake(p["name"]) + ".rs")
        if text is None:
            continue
        enums, sts, impls = extract_rust.scan_file(text)
        for en, decls in enums.items():
            all_enums.setdefault(en, []).extend(decls)
        tree = inline_tree(p, p["name"])
        perfile[p["name"]] = (text, enums, sts, tree)
        for k, (path, q) in enumerate(tree):
            if k < len(sts):
                if sts[k][0] in structs:
                    dups.add(sts[k][0])
                structs.setdefault(sts[k][0], (path, sts[k][1]))
                home.setdefault(sts[k][0], snake(p["name"]))
        for en in enums:
            home.setdefault(en, snake(p["name"]))
    out = []
    for p in model["packets"]:
        tree = inline_tree(p, p["name"])
        got = perfile.get(p["name"])
        for k, (path, q) in enumerate(tree):
            e = new_entry(path, shared)
            out.append(e)
            probs = e["problems"]
            if got is None:
                e["emitted"] = False
                continue
            text, enums, sts, _ = got
            if k >= len(sts):
                e["emitted"] = False
                continue
            sname, members = sts[k]
            # enums of the whole crate: the test module imports the files of the packets it refers to
            ctx = {"structs": structs, "enums": all_enums, "dups": dups, "home": home, "visible": None}
            # the k-th test module of the file
            mods = [m for m in re.finditer(r"#\[cfg\(test\)\]\nmod (%s)_tests \{\n" % ID, text)]
            if k >= len(mods):
                e["emitted"] = False
                continue
            mstart = mods[k].end()
            mend = mods[k + 1].start() if k + 1 < len(mods) else len(text)
            mod = text[mstart:mend]
            # the module ends with "}\n" in column 0; what follows (next struct) is cut there
            cut = mod.find("\n}\n")
            mod = mod[:cut] if cut >= 0 else mod
            fm = re.search(r"    #\[test\]\n    fn test_(%s)_codec\(\) \{\n" % ID, mod)
            if not fm:
                e["emitted"] = False
                continue
            pre = [l.strip() for l in mod[:fm.start()].split("\n") if l.strip()]
            for l in pre:
                if l not in ("use super::*;", "use bytes::BytesMut;") and not re.fullmatch(r"use crate::%s::\*;" % ID, l):
                    probs.append("build: cannot interpret the line '%s'" % l)
            for l in pre:
                m = re.fullmatch(r"use crate::(%s)::\*;" % ID, l)
                if m and m.group(1) + ".rs" not in files:
                    probs.append("build: unresolved import crate::%s" % m.group(1))
            # modules in scope: this file, what it imports (use super::*), what the test module imports
            vis = {snake(p["name"])}
            for l in text.split("\n") + pre:
                m = re.fullmatch(r"use crate::(%s)::\*;" % ID, l.strip())
                if m:
                    vis.add(m.group(1))
            ctx["visible"] = vis
            body = mod[fm.end():]
            m0 = re.match(r"\s*let mut original = ", body)
            if not m0:
                probs.append("build: the test does not start with 'let mut original = '")
                continue
            if not re.search(r"#\[derive\(Debug, Clone, PartialEq\)\]\s*pub struct %s \{" % re.escape(sname), text):
                probs.append("build: struct %s does not derive PartialEq/Debug (assert_eq!)" % sname)
            toks = rust_tokens(body[m0.end():])
            ps = RustParser(toks)
            try:
                ast = ps.expr()
                semi = ps.take(";")
            except Fail as ex:
                probs.append("build: %s" % ex)
                continue
            rest = body[m0.end() + semi[3]:]
            rest_lines = [l.strip() for l in rest.split("\n") if l.strip()]
            want = ["let mut buf = BytesMut::new();", "original.encode(&mut buf);", "let mut bytes = buf.freeze();"]
            copies = []
            i = 0
            for w in want:
                if i < len(rest_lines) and rest_lines[i] == w:
                    i += 1
                else:
                    probs.append("build: expected '%s'" % w)
            dm = re.fullmatch(r"let decoded = (%s)::decode\(&mut bytes\)\.unwrap\(\);" % ID, rest_lines[i]) if i < len(rest_lines) else None
            if not dm:
                probs.append("build: expected 'let decoded = T::decode(&mut bytes).unwrap();'")
            else:
                i += 1
                if dm.group(1) != sname:
                    probs.append("build: decodes a %s, original is a %s" % (dm.group(1), sname))
            while i < len(rest_lines):
                cm = re.fullmatch(r"original\.(%s) = decoded\.(%s);" % (ID, ID), rest_lines[i])
                if not cm:
                    break
                i += 1
                idx = next((j for j, (n, _) in enumerate(members) if n == cm.group(1)), None)
                if idx is None or cm.group(1) != cm.group(2):
                    probs.append("build: no field %s on type %s" % (cm.group(1), sname))
                else:
                    copies.append(idx)
            if rest_lines[i:] != ["assert_eq!(original, decoded);", "}"]:
                probs.append("build: unexpected scaffold statements %s" % rest_lines[i:])
            e["post_copies"] = copies
            if fm.group(1) != snake(q["name"]):
                probs.append("build: test function named test_%s_codec" % fm.group(1))
            if ast[0] != "struct" or ast[1] != [sname]:
                probs.append("build: original is built as %s, the struct is %s" % (rust_show(ast), sname))
                continue
            e["sample"] = rust_eval(ast, sname, ctx, probs, "original")
    return out


# ---------------------------------------------------------------------------------------- Java

J_PRIM = {"byte": 1, "short": 2, "int": 4, "long": 8, "float": 4, "double": 8}
J_RANK = {"byte": 0, "short": 1, "int": 2, "long": 3, "float": 4, "double": 5}
J_BOX = {"Byte": "byte", "Short": "short", "Integer": "int", "Long": "long", "Float": "float", "Double": "double"}
J_RESERVED = {"buffer", "decoded"}


class JInfo:
    def __init__(self, cl):
        self.cl = cl                   # extract_java.JClass
        self.setters = {}              # setter name -> (param type, member assigned)
        self.eq = None                 # member names compared by equals
        self.stores = []


def java_scan(files, model):
    """-> {path (by class names, as extract_java registers them): JInfo}"""
    pkgpath = model["config"]["java_package"].replace(".", "/")
    infos = {}
    for p in model["packets"]:
        text = files.get("main/java/%s/%s.java" % (pkgpath, p["name"]))
        if text is None:
            continue
        lines = text.split("\n")
        reg = {}
        for k, l in enumerate(lines):
            if l == "public class %s implements BinaryCodec {" % p["name"]:
                extract_java.parse_class(lines, k, 0, p["name"], p["name"], reg)
                break
        for path, cl in reg.items():
            info = JInfo(cl)
            infos[path] = info
            depth = path.count("/")
            ind = " " * (4 * depth)
            ind1 = ind + "    "
            hdr = None
            for k, l in enumerate(lines):
                if re.fullmatch(r"%spublic( static)? class %s implements BinaryCodec \{" % (ind, re.escape(cl.name)), l):
                    hdr = k
                    break
            if hdr is None:
                continue
            end = next((j for j in range(hdr + 1, len(lines)) if lines[j] == ind + "}"), len(lines))
            j = hdr + 1
            while j < end:
                m = re.fullmatch(r"%spublic void set(%s)\((.*) (%s)\) \{" % (ind1, ID, ID), lines[j])
                if m and j + 1 < end:
                    m2 = re.fullmatch(r"%s    this\.(%s) = (%s);" % (ind1, ID, ID), lines[j + 1])
                    if m2 and m2.group(2) == m.group(3):
                        info.setters.setdefault(m.group(1), (m.group(2), m2.group(1)))
                if lines[j] == ind1 + "public boolean equals(Object obj) {":
                    for b in range(j + 1, end):
                        if lines[b] == ind1 + "}":
                            break
                        mr = re.fullmatch(r"%s    return (.*);" % ind1, lines[b])
                        if mr:
                            if mr.group(1) in ("true", "false"):
                                if info.eq is None:
                                    info.eq = []
                            else:
                                info.eq = []
                                for part in mr.group(1).split(" && "):
                                    me = re.fullmatch(r"Objects\.equals\((%s), orther_\.(%s)\)" % (ID, ID), part)
                                    info.eq.append(me.group(1) if me and me.group(1) == me.group(2) else "?" + part)
                j += 1
            enc = "\n".join(cl.enc or [])
            var_member = dict(re.findall(r"int (%s)Start = byteBuf\.writerIndex\(\);if \(this\.(%s) != null\)" % (ID, ID), enc))
            midx = {}
            for i, (n, _) in enumerate(cl.members):
                midx.setdefault(n, i)
            for dest, cast, v1, v2 in re.findall(r"this\.(%s) = \((\w+)\)\((%s)End - (%s)Start\);" % (ID, ID, ID), enc):
                if v1 == v2 and var_member.get(v1) in midx and dest in midx:
                    info.stores.append((midx[var_member[v1]], midx[dest], J_PRIM.get(cast)))
            for dest, cast in re.findall(r"this\.(%s) = \((\w+)\) checksumService\.calc\(byteBuf\);" % ID, enc):
                if dest in midx:
                    info.stores.append((midx[dest], midx[dest], J_PRIM.get(cast)))
    return infos


def java_expr_type(txt, env, probs, where):
    """-> (static type, payload) for the expression forms the scaffold uses; None after a problem"""
    txt = txt.strip()
    m = re.fullmatch(r"\((byte|short|int|long|float|double)\)\s*(.+)", txt)
    if m:
        inner = java_expr_type(m.group(2), env, probs, where)
        if inner is None:
            return None
        if inner[0] not in J_PRIM:
            probs.append("build: %s: incompatible types: %s cannot be converted to %s" % (where, inner[0], m.group(1)))
            return None
        return (m.group(1), inner[1])
    m = re.fullmatch(r"(\d+)([LFD]?)", txt)
    if m:
        t = {"": "int", "L": "long", "F": "float", "D": "double"}[m.group(2)]
        n = int(m.group(1))
        if t == "int" and n >= 2 ** 31:
            probs.append("build: %s: integer number too large: %d" % (where, n))
            return None
        return (t, n)
    m = re.fullmatch(r'"((?:[^"\\]|\\.)*)"', txt)
    if m:
        return ("String", unescape(m.group(1)))
    m = re.fullmatch(r"Arrays\.asList\((.*)\)", txt)
    if m:
        items = []
        for it in split_top(m.group(1)):
            v = java_expr_type(it, env, probs, where)
            if v is None:
                return None
            items.append(v)
        return ("asList", items)
    if re.fullmatch(ID, txt):
        o = env.get(txt)
        if o is None:
            probs.append("build: %s: cannot find symbol: variable %s" % (where, txt))
            return None
        o.used = True
        return ("obj", o)
    if txt == "":
        probs.append("build: %s: no value is emitted (syntax error)" % where)
        return None
    probs.append("build: %s: cannot interpret the expression %s" % (where, txt))
    return None


def java_assign(ev, pt, probs, where, boxing=False):
    """method invocation conversion of the typed expression `ev` to the parameter type `pt`"""
    t, pay = ev
    if pt in J_PRIM:
        if t not in J_PRIM:
            probs.append("build: %s: incompatible types: %s cannot be converted to %s" % (where, "List" if t == "asList" else (pay.tname if t == "obj" else t), pt))
            return None
        if J_RANK[t] > J_RANK[pt]:
            probs.append("build: %s: incompatible types: possible lossy conversion from %s to %s" % (where, t, pt))
            return None
        if pt in ("float", "double"):
            return ("I", f_bits(pay, J_PRIM[pt]))
        return ("I", pay % 256 ** J_PRIM[pt])
    if pt in J_BOX:
        if t != J_BOX[pt]:
            probs.append("build: %s: incompatible types: %s cannot be converted to %s" % (where, t, pt))
            return None
        return java_assign(ev, J_BOX[pt], probs, where)
    if pt == "String":
        if t != "String":
            probs.append("build: %s: incompatible types: %s cannot be converted to String" % (where, t))
            return None
        return ("S", pay)
    m = re.fullmatch(r"List<(.*)>", pt)
    if m:
        if t != "asList":
            probs.append("build: %s: incompatible types: %s cannot be converted to %s" % (where, t, pt))
            return None
        vals = [java_assign(x, m.group(1), probs, where) for x in pay]
        if any(v is None for v in vals):
            return None
        if not vals:
            probs.append("cover: %s: list left empty" % where)
        return ("L", vals)
    if pt == "BinaryCodec":
        if t != "obj":
            probs.append("build: %s: incompatible types: %s cannot be converted to BinaryCodec" % (where, t))
            return None
        return ("DYN", pay)
    if t == "obj":
        if pay.tname != pt:
            probs.append("build: %s: incompatible types: %s cannot be converted to %s" % (where, pay.tname, pt))
            return None
        return ("OBJ", pay)
    probs.append("build: %s: incompatible types: %s cannot be converted to %s" % (where, t, pt))
    return None


def extract_tests_java(files, model, names):
    pkgpath = model["config"]["java_package"].replace(".", "/")
    infos = java_scan(files, model)
    # class name based paths -> IR paths (field-name based): walk both trees together
    ir_path = {}
    for p in model["packets"]:
        def walk(q, cpath, ipath):
            ir_path[cpath] = ipath
            for f in q["fields"]:
                a = f["attr"]
                if a and a["kind"] == "object" and a["iner"] and a.get("inline"):
                    walk(a["inline"], cpath + "/" + a["inline"]["name"], ipath + "/" + f["name"])
        walk(p, p["name"], p["name"])
    shared = {"eq_members": {}, "stores": {}}
    eq_problems = {}
    for cpath, info in infos.items():
        ip = ir_path.get(cpath, cpath)
        if info.stores:
            shared["stores"][ip] = info.stores
        names_ = [n for n, _ in info.cl.members]
        if info.eq is not None:
            idxs = []
            for n in info.eq:
                if n in names_:
                    idxs.append(names_.index(n))
                else:
                    eq_problems.setdefault(cpath, []).append("build: class %s: equals compares '%s', which is no member" % (info.cl.name, n))
            shared["eq_members"][ip] = idxs
    out = []
    for p in model["packets"]:
        e = new_entry(p["name"], shared)
        e["compares"] = "members"
        out.append(e)
        probs = e["problems"]
        text = files.get("test/java/%s/%sTest.java" % (pkgpath, p["name"]))
        if text is None:
            e["emitted"] = False
            continue
        lines = [l.strip() for l in text.split("\n") if l.strip()]
        want_head = ["package %s;" % model["config"]["java_package"], "import io.netty.buffer.ByteBuf;", "import io.netty.buffer.Unpooled;",
                     "import org.junit.Test;", "import java.util.Arrays;", "import static org.junit.Assert.*;",
                     "public class %sTest {" % p["name"], "@Test", "public void testEncodeDecode() {"]
        if lines[:len(want_head)] != want_head:
            probs.append("build: unexpected file header %s" % [x for x in lines[:len(want_head)] if x not in want_head])
            if "public void testEncodeDecode() {" not in lines:
                e["emitted"] = False
                continue
        if not model["config"]["java_package"]:
            probs.append("build-env: JavaPackage is not set: the files start with 'package ;'")
        body = lines[lines.index("public void testEncodeDecode() {") + 1:]
        if body[-2:] != ["}", "}"]:
            probs.append("build: test class not terminated")
        else:
            body = body[:-2]

        def resolve(tn):
            """a type name as written in the test class -> class path, or None"""
            parts = tn.split(".")
            if parts[0] not in infos or "/" in parts[0]:
                return None
            cp = parts[0]
            for x in parts[1:]:
                cp = cp + "/" + x
                if cp not in infos:
                    return None
            return cp
        env = {}
        tail = []
        for s in body:
            m = re.fullmatch(r"([\w.]+) (%s) = new ([\w.]+)\(\);" % ID, s)
            if m and "original.encode(buffer);" in tail:
                m = None
            if m:
                t1, var, t2 = m.groups()
                cp = resolve(t1)
                if t1 != t2:
                    probs.append("build: incompatible types in '%s'" % s)
                if cp is None:
                    suffix = "/" + "/".join(t1.split("."))
                    full = sorted(c for c in infos if c.endswith(suffix))
                    if full:
                        why = " (the inline class is %s)" % full[0].replace("/", ".")
                    elif t1.split(".")[-1] in infos:
                        why = " (%s is a top-level class)" % t1.split(".")[-1]
                    else:
                        why = ""
                    probs.append("build: cannot find symbol: class %s%s" % (t1, why))
                    o = Obj(t1.split(".")[-1], "?" + t1, None)
                    o.info = None
                else:
                    info = infos[cp]
                    o = Obj(info.cl.name, ir_path.get(cp, cp), info.cl.members)
                    o.info = info
                    o.cpath = cp
                if var in env or var in J_RESERVED:
                    probs.append("build: variable %s is already defined in method testEncodeDecode()" % var)
                env[var] = o
                continue
            m = re.fullmatch(r"(%s)\.set(%s)\((.*)\);" % (ID, ID), s)
            if m:
                var, sn, vtxt = m.groups()
                o = env.get(var)
                if o is None:
                    probs.append("build: cannot find symbol: variable %s" % var)
                    continue
                if o.info is None:
                    continue
                st = o.info.setters.get(sn)
                where = "%s.set%s" % (o.tname, sn)
                if st is None:
                    probs.append("build: cannot find symbol: method set%s in class %s" % (sn, o.tname))
                    continue
                pt, member = st
                ev = java_expr_type(vtxt, env, probs, where)
                if ev is None:
                    o.fields[member] = None
                    continue
                if not any(n == member for n, _ in o.members):
                    probs.append("build: setter set%s assigns this.%s, which is no member of %s" % (sn, member, o.tname))
                    continue
                o.fields[member] = java_assign(ev, pt, probs, where)
                e["assigned"] += 1
                continue
            tail.append(s)
        want_tail = ["ByteBuf buffer = Unpooled.buffer();", "original.encode(buffer);", "%s decoded = new %s();" % (p["name"], p["name"]),
                     "decoded.decode(buffer);", "assertEquals(original, decoded);"]
        if tail != want_tail:
            probs.append("build: unexpected scaffold statements %s" % [x for x in tail if x not in want_tail])
        orig = env.get("original")
        if orig is None or orig.members is None:
            probs.append("build: 'original' is never declared")
            continue
        for cpath, ps in eq_problems.items():
            probs.extend(ps)

        def zero(mt, where, _o=None):
            if mt in J_PRIM:
                return ("I", 0)
            probs.append("run: %s is null when the test encodes / compares it" % where)
            return None

        def jfinish(o, seen=()):
            if o in seen or o.members is None:
                return None
            computed = set(d for _, d, _ in (o.info.stores if o.info else []))
            vals, ok = [], True
            for i, (n, mt) in enumerate(o.members):
                where = "%s.%s" % (o.tname, n)
                if n is None:
                    probs.append("build: %s: unreadable member declaration %s" % (o.tname, mt))
                    ok = False
                    continue
                if n in o.fields:
                    v = o.fields[n]
                    if v is not None and v[0] in ("OBJ", "DYN"):
                        inner = jfinish(v[1], seen + (o,))
                        v = None if inner is None else (inner if v[0] == "OBJ" else ("D", v[1].path, inner))
                    elif v is not None and v[0] == "L":
                        items = []
                        for x in v[1]:
                            if x[0] in ("OBJ", "DYN"):
                                inner = jfinish(x[1], seen + (o,))
                                x = None if inner is None else (inner if x[0] == "OBJ" else ("D", x[1].path, inner))
                            items.append(x)
                        v = None if any(x is None for x in items) else ("L", items)
                else:
                    v = zero(mt, where)
                    if v is not None and i not in computed:
                        probs.append("cover: %s left at its default" % where)
                if v is None:
                    ok = False
                vals.append(v)
            return ("O", vals) if ok else None
        if orig.path != p["name"]:
            probs.append("build: 'original' is a %s" % orig.tname)
        e["sample"] = jfinish(orig)
    return out


# ---------------------------------------------------------------------------------------- Python

def member_kinds(ir):
    """member index -> kind derived from the encode steps of the observed IR:
    ("num",) ("str",) ("list", kind) ("obj", path) ("dyn",)"""
    def kind(s):
        k = s[0]
        if k in ("EInt", "ECheck"):
            return ("num",)
        if k in ("EFixed", "EStr"):
            return ("str",)
        if k == "EList":
            return ("list", kind(s[4]))
        if k == "EObj":
            return ("obj", s[1])
        if k == "EDyn":
            return ("dyn",)
        if k == "ESpan":
            return kind(s[1])
        return None
    out = {}
    for i, s in ir["enc"]:
        kd = kind(s)
        if kd is not None and s[0] not in ("EMarkZero", "EPatch"):
            out.setdefault(i, kd)
    return out


def py_scan(files, model, names):
    snake = lambda n: names[n][2]
    camel = lambda n: names[n][0]
    fname = snake(model["root"]) + ".py" if model.get("root") else None
    text = files.get(fname) if fname else None
    if text is None:
        return None
    pf = extract_py.PyFile(text)
    prog, _ = extract_py.extract_py(files, model, names)
    irs = dict(prog)
    classes = {}          # class name -> dict
    tree = []
    for p in model["packets"]:
        tree += inline_tree(p, p["name"])
    for path, q in tree:
        cname = camel(q["name"])
        if cname not in pf.classes or cname in classes:
            continue
        init = pf.method(cname, r"def __init__\(self\):")
        members = extract_py.parse_init(init) if init is not None else []
        midx = {}
        for i, (n, _) in enumerate(members):
            midx.setdefault(n, i)
        dec = pf.method(cname, r"def decode\(self, buffer: ByteBuf\):") or []
        floats = {}
        for _, t in dec:
            m = re.fullmatch(r"self\.(%s) = buffer\.read_(f32|f64)(?:_le)?\(\)" % ID, t) or \
                re.fullmatch(r"self\.(%s)\.append\(buffer\.read_(f32|f64)(?:_le)?\(\)\)" % ID, t)
            if m:
                floats[m.group(1)] = 4 if m.group(2) == "f32" else 8
        enc = pf.method(cname, r"def encode\(self, buffer: ByteBuf\):") or []
        stores = []
        for k, (_, t) in enumerate(enc):
            m = re.fullmatch(r"self\.(%s) = (%s)_end - (%s)_start" % (ID, ID, ID), t)
            if m and m.group(1) in midx:
                for j in range(k - 1, -1, -1):
                    mm = re.fullmatch(r"self\.(%s)\.encode\(buffer\)" % ID, enc[j][1])
                    if mm:
                        if mm.group(1) in midx:
                            stores.append((midx[mm.group(1)], midx[m.group(1)], None))
                        break
            m = re.fullmatch(r"self\.(%s) = service\.calc\(buffer\)" % ID, t)
            if m and m.group(1) in midx:
                stores.append((midx[m.group(1)], midx[m.group(1)], None))
        eq = pf.method(cname, r"def __eq__\(self, other\):") or []
        eqm = []
        for _, t in eq:
            m = re.fullmatch(r"self\.(%s) == other\.(%s),?" % (ID, ID), t)
            if m:
                eqm.append(m.group(1) if m.group(1) == m.group(2) else "?" + t)
        classes[cname] = {"path": path, "members": members, "floats": floats, "stores": stores, "eq": eqm,
                          "kinds": member_kinds(irs[path]) if path in irs else {}}
    return classes


def py_value(txt, kind, dflt, fw, env, probs, where):
    txt = txt.strip()
    if txt == "":
        probs.append("build: %s: no value is emitted (syntax error)" % where)
        return None
    if kind is None:
        kind = {"0": ("num",), "''": ("str",), "[]": ("list", None), "None": ("any",)}.get(dflt)
    m = re.fullmatch(r"\[(.*)\]", txt)
    if m:
        if kind is None or kind[0] != "list":
            probs.append("build: %s: a list is assigned to a member that the codec treats as %s" % (where, kind[0] if kind else "unknown"))
            return None
        vals = [py_value(x, kind[1], None, fw, env, probs, where) for x in split_top(m.group(1))]
        if any(v is None for v in vals):
            return None
        if not vals:
            probs.append("cover: %s: list left empty" % where)
        return ("L", vals)
    if kind is not None and kind[0] == "list":
        probs.append("build: %s: %s is assigned to a list member" % (where, txt))
        return None
    if re.fullmatch(r"-?\d+", txt):
        if kind is None or kind[0] != "num":
            probs.append("build: %s: the number %s is assigned to a member that the codec treats as %s" % (where, txt, kind[0] if kind else "unknown"))
            return None
        if fw:
            return ("I", f_bits(int(txt), fw))
        if int(txt) < 0:
            probs.append("build: %s: negative sample %s" % (where, txt))
            return None
        return ("I", int(txt))
    m = re.fullmatch(r'"((?:[^"\\]|\\.)*)"', txt)
    if m:
        if kind is None or kind[0] != "str":
            probs.append("build: %s: the string %s is assigned to a member that the codec treats as %s" % (where, txt, kind[0] if kind else "unknown"))
            return None
        return ("S", unescape(m.group(1)))
    if re.fullmatch(ID, txt):
        o = env.get(txt)
        if o is None:
            probs.append("build: %s: name '%s' is not defined" % (where, txt))
            return None
        o.used = True
        if kind is None or kind[0] not in ("obj", "dyn", "any"):
            probs.append("build: %s: the object %s is assigned to a member that the codec treats as %s" % (where, txt, kind[0] if kind else "unknown"))
            return None
        if kind[0] == "dyn":
            return ("DYN", o)
        if kind[0] == "obj" and kind[1] != o.path:
            probs.append("build: %s: a %s is assigned, the codec constructs %s" % (where, o.tname, kind[1]))
            return None
        return ("OBJ", o)
    probs.append("build: %s: cannot interpret the expression %s" % (where, txt))
    return None


def extract_tests_py(files, model, names):
    snake = lambda n: names[n][2]
    camel = lambda n: names[n][0]
    shared = {"eq_members": {}, "stores": {}}
    classes = py_scan(files, model, names)
    out = [new_entry(p["name"], shared) for p in model["packets"]]
    for e in out:
        e["compares"] = "members"
    tname = snake(model["root"]) + "_test.py" if model.get("root") else None
    text = files.get(tname) if tname else None
    if classes is None or text is None:
        for e in out:
            e["emitted"] = False
        return out
    common = []
    try:
        import ast
        ast.parse(text)
    except SyntaxError as ex:
        common.append("build: %s does not parse: line %s: %s" % (tname, ex.lineno, (ex.text or "").strip()))
    for cname, c in classes.items():
        if c["stores"]:
            shared["stores"][c["path"]] = c["stores"]
        names_ = [n for n, _ in c["members"]]
        idxs = []
        for n in c["eq"]:
            if n in names_:
                idxs.append(names_.index(n))
            else:
                common.append("build: class %s: __eq__ compares '%s', which is no member" % (cname, n))
        shared["eq_members"][c["path"]] = idxs
    lines = text.split("\n")
    head = [l.strip() for l in lines[:6] if l.strip()]
    if head[:3] != ["# Code generated by fin-protoc. DO NOT EDIT.", "import unittest", "from %s import *" % snake(model["root"])]:
        common.append("build: unexpected file header %s" % head[:3])
    # test classes in order
    blocks = {}
    order = []
    cur = None
    for l in lines:
        m = re.fullmatch(r"class Test(%s)\(unittest\.TestCase\):" % ID, l)
        if m:
            cur = m.group(1)
            order.append(cur)
            blocks.setdefault(cur, [])
            if len([x for x in order if x == cur]) > 1:
                blocks[cur] = []          # a later class of the same name replaces the earlier one
            continue
        if l.startswith("if __name__"):
            cur = None
        if cur is not None:
            blocks[cur].append(l)
    for e, p in zip(out, model["packets"]):
        probs = e["problems"]
        probs.extend(common)
        cn = camel(p["name"])
        if cn not in blocks:
            e["emitted"] = False
            continue
        if order.count(cn) > 1:
            probs.append("build: test class Test%s is defined %d times (the last one wins)" % (cn, order.count(cn)))
        blk = [l for l in blocks[cn] if l.strip()]
        if not blk or blk[0] != "    def setUp(self):":
            probs.append("build: no setUp")
            continue
        try:
            k = blk.index("    def test_encode_decode(self):")
        except ValueError:
            probs.append("build: no test_encode_decode")
            continue
        setup = blk[1:k]
        tail = [l.strip() for l in blk[k + 1:]]
        env = {}
        for l in setup:
            if not l.startswith("        ") or l[8:9] == " ":
                probs.append("build: unexpected indentation in '%s'" % l.strip())
                continue
            s = l.strip()
            m = re.fullmatch(r"(self\.packet|%s) = (%s)\(\)" % (ID, ID), s)
            if m:
                var, tn = m.groups()
                c = classes.get(tn)
                if c is None:
                    probs.append("build: name '%s' is not defined" % tn)
                    o = Obj(tn, "?" + tn, None)
                    o.c = None
                else:
                    o = Obj(tn, c["path"], c["members"])
                    o.c = c
                env[var] = o              # rebinding is legal Python: the earlier object stays where it was stored
                continue
            m = re.fullmatch(r"(self\.packet|%s)\.(%s) = (.*)" % (ID, ID), s) or re.fullmatch(r"(self\.packet|%s)\.(%s) =()" % (ID, ID), s)
            if m:
                var, attr, vtxt = m.groups()
                o = env.get(var)
                if o is None:
                    probs.append("build: name '%s' is not defined" % var)
                    continue
                if o.c is None:
                    continue
                names_ = [n for n, _ in o.members]
                if attr not in names_:
                    probs.append("build: %s.%s is assigned, but class %s has no such member (the codec never reads it)" % (var, attr, o.tname))
                    continue
                i = names_.index(attr)
                e["assigned"] += 1
                o.fields[attr] = py_value(vtxt, o.c["kinds"].get(i), o.members[i][1], o.c["floats"].get(attr), env, probs,
                                          "%s.%s" % (o.tname, attr))
                continue
            probs.append("build: cannot interpret the line '%s'" % s)
        want_tail = ["buf = ByteBuf()", "self.packet.encode(buf)", "decoded_packet = %s()" % cn, "decoded_packet.decode(buf)",
                     "self.assertEqual(decoded_packet, self.packet)"]
        if tail != want_tail:
            probs.append("build: unexpected scaffold statements %s" % [x for x in tail if x not in want_tail])
        orig = env.get("self.packet")
        if orig is None or orig.members is None:
            probs.append("build: self.packet is never assigned")
            continue

        def pfinish(o, seen=()):
            if o in seen or o.members is None:
                return None
            computed = set(d for _, d, _ in o.c["stores"])
            vals, ok = [], True
            for i, (n, dflt) in enumerate(o.members):
                where = "%s.%s" % (o.tname, n)
                if n is None:
                    probs.append("build: %s: unreadable member %s" % (o.tname, dflt))
                    ok = False
                    continue
                if n in o.fields:
                    v = lift(o.fields[n], seen + (o,))
                else:
                    v = {"0": ("I", 0), "''": ("S", []), "[]": ("L", [])}.get(dflt)
                    if v is None:
                        probs.append("run: %s is None when the test encodes it" % where)
                    elif i not in computed:
                        probs.append("cover: %s left at its default" % where)
                if v is None:
                    ok = False
                vals.append(v)
            return ("O", vals) if ok else None

        def lift(v, seen):
            if v is None:
                return None
            if v[0] in ("OBJ", "DYN"):
                inner = pfinish(v[1], seen)
                return None if inner is None else (inner if v[0] == "OBJ" else ("D", v[1].path, inner))
            if v[0] == "L":
                items = [lift(x, seen) for x in v[1]]
                return None if any(x is None for x in items) else ("L", items)
            return v
        if orig.path != p["name"]:
            probs.append("build: self.packet is a %s" % orig.tname)
        e["sample"] = pfinish(orig)
    return out


# ---------------------------------------------------------------------------------------- C++

CPP_INT = {"int8_t": 1, "uint8_t": 1, "int16_t": 2, "uint16_t": 2, "int32_t": 4, "uint32_t": 4, "int64_t": 8, "uint64_t": 8}
CPP_FLOAT = {"float": 4, "double": 8}
CPP_RESERVED = {"buf", "decoded"}


class CVal:
    """a C++ variable: a struct by value, or a unique_ptr to one"""

    def __init__(self, tname, path, members, ptr):
        self.tname, self.path, self.members, self.ptr = tname, path, members, ptr
        self.fields = {}
        self.moved = False


def cpp_scan(files, model, names):
    snake = lambda n: names[n][2]
    want = "include/%s.hpp" % snake(model["root"]) if model.get("root") else None
    text = files.get(want) if want else None
    if text is None:
        return None
    structs, factories, order, notes = extract_cpp.parse_header(text)
    types = all_types(model)
    lines = text.split("\n")
    info = {}
    for name, st in structs.items():
        cands = types.get(name, [])
        path = cands[0] if len(cands) == 1 else "?" + name
        # equals: from "bool equals(" to the closing "    }"
        eq, cast, problems = None, None, []
        for k, l in enumerate(lines):
            if l == "struct %s : public codec::BinaryCodec {" % name:
                for j in range(k + 1, len(lines)):
                    if lines[j].rstrip() == "};":
                        break
                    if lines[j].strip() == "bool equals(const BinaryCodec& other) const override {":
                        eq = []
                        b = j + 1
                        while b < len(lines) and lines[b].rstrip() != "    }":
                            s = lines[b].strip()
                            b += 1
                            m = re.fullmatch(r"const auto\* checkType = dynamic_cast<const (%s)\*>\(&other\);" % ID, s)
                            if m:
                                cast = m.group(1)
                                continue
                            if s in ("if(!checkType) return false;", ""):
                                continue
                            s2 = re.sub(r"^(return|&&) ", "", s).rstrip(";")
                            if s2 == "true":
                                continue
                            m = re.fullmatch(r"(%s) == checkType->(%s)" % (ID, ID), s2) or re.fullmatch(r"(%s)->equals\(\*checkType->(%s)\)" % (ID, ID), s2)
                            if m and m.group(1) == m.group(2):
                                eq.append((m.group(1), "->" in s2.split("checkType")[0]))
                            else:
                                eq.append(("?" + s2, False))
                        break
                break
        info[name] = {"path": path, "members": st.members, "eq": eq, "cast": cast}
    return info


def cpp_copyable(tname, info, seen=()):
    if tname in seen or tname not in info:
        return True
    for n, t in info[tname]["members"]:
        if n is None:
            continue
        if "std::unique_ptr" in t:
            return False
        m = re.fullmatch(r"std::vector<(.*)>", t)
        t2 = m.group(1) if m else t
        if t2 in info and not cpp_copyable(t2, info, seen + (tname,)):
            return False
    return True


def cpp_snapshot(v, probs, where, info, seen=()):
    """value of a variable now (copy / move semantics)"""
    if v.members is None:
        return None
    vals, ok = [], True
    for n, t in v.members:
        w = "%s.%s" % (v.tname, n)
        if n is None:
            probs.append("build: %s: unreadable member declaration %s" % (v.tname, t))
            ok = False
            continue
        if n in v.fields:
            x = v.fields[n]
        elif t in CPP_INT or t in CPP_FLOAT:
            probs.append("run: %s is never assigned: its value is indeterminate" % w)
            x = None
        elif t == "std::string":
            probs.append("cover: %s left empty" % w)
            x = ("S", [])
        elif t.startswith("std::vector<"):
            probs.append("cover: %s: list left empty" % w)
            x = ("L", [])
        elif t == extract_cpp.UPTR:
            probs.append("run: %s is a null pointer when encode dereferences it" % w)
            x = None
        elif t in info:
            x = cpp_snapshot(CVal(t, info[t]["path"], info[t]["members"], False), probs, w, info, seen)
        else:
            probs.append("build: %s: unknown type %s" % (w, t))
            x = None
        if x is None:
            ok = False
        vals.append(x)
    return ("O", vals) if ok else None


def cpp_value(txt, mt, env, probs, where, info):
    txt = txt.strip()
    if txt == "":
        probs.append("build: %s: no value is emitted (syntax error)" % where)
        return None
    if txt.startswith("-- unsupport"):
        probs.append("build: %s: marker text '%s'" % (where, txt))
        return None
    if mt is None or mt == "":
        probs.append("build: %s: the member has no type in the emitted struct" % where)
        return None
    moved = False
    m = re.fullmatch(r"std::move\((.*)\)", txt)
    if m:
        moved = True
        txt = m.group(1).strip()
    m = re.fullmatch(r"\{(.*)\}", txt)
    if m:
        mv = re.fullmatch(r"std::vector<(.*)>", mt)
        if not mv:
            probs.append("build: %s: braced list %s assigned to a member of type %s" % (where, txt, mt))
            return None
        items = split_top(m.group(1))
        if m.group(1).strip() and not items:
            probs.append("build: %s: cannot interpret %s" % (where, txt))
            return None
        vals = [cpp_value(x, mv.group(1), env, probs, where, info) for x in items]
        if any(v is None for v in vals):
            return None
        if not vals:
            probs.append("cover: %s: list left empty" % where)
        return ("L", vals)
    if re.fullmatch(r"\d+", txt):
        n = int(txt)
        if mt in CPP_INT:
            return ("I", n % 256 ** CPP_INT[mt])
        if mt in CPP_FLOAT:
            return ("I", f_bits(n, CPP_FLOAT[mt]))
        probs.append("build: %s: integer %s assigned to a member of type %s" % (where, txt, mt))
        return None
    m = re.fullmatch(r'"((?:[^"\\]|\\.)*)"', txt)
    if m:
        if mt != "std::string":
            probs.append("build: %s: string literal %s assigned to a member of type %s" % (where, txt, mt))
            return None
        return ("S", unescape(m.group(1)))
    if re.fullmatch(ID, txt):
        v = env.get(txt)
        if v is None:
            probs.append("build: %s: '%s' was not declared in this scope" % (where, txt))
            return None
        v.used = True
        if v.moved:
            probs.append("run: %s: %s is used after std::move" % (where, txt))
            return None
        if v.ptr:
            if mt != extract_cpp.UPTR:
                probs.append("build: %s: std::unique_ptr<%s> assigned to a member of type %s" % (where, v.tname, mt))
                return None
            if not moved:
                probs.append("build: %s: std::unique_ptr is not copy-assignable (%s)" % (where, txt))
                return None
            inner = cpp_snapshot(v, probs, where, info)
            v.moved = True
            return None if inner is None else ("D", v.path, inner)
        if mt != v.tname:
            probs.append("build: %s: a %s is assigned to a member of type %s" % (where, v.tname, mt))
            return None
        if not moved and not cpp_copyable(v.tname, info):
            probs.append("build: %s: %s holds a std::unique_ptr and is not copy-assignable" % (where, v.tname))
            return None
        return cpp_snapshot(v, probs, where, info)
    probs.append("build: %s: cannot interpret the expression %s" % (where, txt))
    return None


def extract_tests_cpp(files, model, names):
    snake = lambda n: names[n][2]
    camel = lambda n: names[n][0]
    shared = {"eq_members": {}, "stores": {}}
    info = cpp_scan(files, model, names)
    out = [new_entry(p["name"], shared) for p in model["packets"]]
    for e in out:
        e["compares"] = "members"
    tname = "test/%s_test.cpp" % snake(model["root"]) if model.get("root") else None
    text = files.get(tname) if tname else None
    if info is None or text is None:
        for e in out:
            e["emitted"] = False
        return out
    common = []
    for name, c in info.items():
        names_ = [n for n, _ in c["members"]]
        idxs = []
        if c["eq"] is None:
            common.append("build: struct %s has no equals" % name)
            continue
        if c["cast"] is not None and c["cast"] not in info:
            common.append("build: struct %s: equals casts to %s, which is not declared" % (name, c["cast"]))
        elif c["cast"] is not None and c["cast"] != name:
            common.append("build: struct %s: equals casts to %s" % (name, c["cast"]))
        for n, arrow in c["eq"]:
            if n in names_:
                i = names_.index(n)
                if arrow != (c["members"][i][1] == extract_cpp.UPTR):
                    common.append("build: struct %s: equals applies %s to member %s of type %s" % (name, "->" if arrow else "==", n, c["members"][i][1]))
                idxs.append(i)
            else:
                common.append("build: struct %s: equals compares '%s', which is no member" % (name, n))
        if not c["path"].startswith("?"):
            shared["eq_members"][c["path"]] = idxs
    lines = text.split("\n")
    head = [l.strip() for l in lines[:5] if l.strip()]
    if len(head) < 4 or not re.fullmatch(r"// Copyright \d+ xinchentechnote", head[0]) or head[1:4] != [
            "// Code generated by fin-protoc. DO NOT EDIT.", '#include "include/%s.hpp"' % snake(model["root"]), "#include <gtest/gtest.h>"]:
        common.append("build: unexpected file header %s" % head[:4])
    blocks = {}
    cur = None
    for l in lines[4:]:
        m = re.fullmatch(r"TEST\((.*)Test, EncodeAndDeocde\) \{", l)
        if m:
            cur = m.group(1)
            if cur in blocks:
                common.append("build: TEST(%sTest, EncodeAndDeocde) is defined twice" % cur)
            blocks[cur] = []
            continue
        if l == "}":
            cur = None
            continue
        if cur is not None:
            blocks[cur].append(l)
        elif l.strip():
            common.append("build: cannot interpret the line '%s'" % l.strip())
    for e, p in zip(out, model["packets"]):
        probs = e["problems"]
        probs.extend(common)
        if p["name"] not in blocks:
            e["emitted"] = False
            continue
        if not re.fullmatch(ID, p["name"] + "Test"):
            probs.append("build: test suite name %sTest is not an identifier" % p["name"])
        env = {}
        tail = []
        copies = []
        in_tail = False
        for l in blocks[p["name"]]:
            s = l.strip()
            if not s:
                continue
            if s == "ByteBuf buf;":
                in_tail = True
            if in_tail:
                m = re.fullmatch(r"original\.(%s) = decoded\.(%s);" % (ID, ID), s)
                o = env.get("original")
                if m and o is not None and o.members is not None:
                    names_ = [n for n, _ in o.members]
                    if m.group(1) == m.group(2) and m.group(1) in names_:
                        copies.append(names_.index(m.group(1)))
                    else:
                        probs.append("build: no member %s in %s" % (m.group(1), o.tname))
                    continue
                tail.append(s)
                continue
            m = re.fullmatch(r"(%s) (%s);" % (ID, ID), s)
            m2 = re.fullmatch(r"auto (%s) = std::make_unique<(%s)>\(\);" % (ID, ID), s)
            if m or m2:
                tn, var = (m.group(1), m.group(2)) if m else (m2.group(2), m2.group(1))
                c = info.get(tn)
                if c is None:
                    probs.append("build: '%s' was not declared in this scope (the struct of packet %s is declared as %s)" % (
                        tn, next((q for q in info if camel(q) == tn), "?"), next((q for q in info if camel(q) == tn), "nothing")))
                    v = CVal(tn, "?" + tn, None, bool(m2))
                else:
                    v = CVal(tn, c["path"], c["members"], bool(m2))
                v.used = False
                if var in env or var in CPP_RESERVED:
                    probs.append("build: redeclaration of '%s'" % var)
                if var in info:
                    probs.append("build: variable '%s' hides the struct of the same name" % var)
                env[var] = v
                continue
            m = re.fullmatch(r"(%s)(\.|->)(%s) = (.*);" % (ID, ID), s)
            if m:
                var, op, attr, vtxt = m.groups()
                v = env.get(var)
                if v is None:
                    probs.append("build: '%s' was not declared in this scope" % var)
                    continue
                if (op == "->") != v.ptr:
                    probs.append("build: '%s' applied to %s, which is %s" % (op, var, "a unique_ptr" if v.ptr else "not a pointer"))
                    continue
                if v.members is None:
                    continue
                mt = next((t for n, t in v.members if n == attr), None)
                if mt is None:
                    probs.append("build: struct %s has no member named '%s'" % (v.tname, attr))
                    continue
                e["assigned"] += 1
                v.fields[attr] = cpp_value(vtxt, mt, env, probs, "%s.%s" % (v.tname, attr), info)
                if v.fields[attr] is None:
                    v.bad = True
                continue
            probs.append("build: cannot interpret the line '%s'" % s)
        want_tail = ["ByteBuf buf;", "original.encode(buf);", "%s decoded;" % p["name"], "decoded.decode(buf);", "EXPECT_TRUE(original == decoded);"]
        if tail != want_tail:
            probs.append("build: unexpected scaffold statements %s" % [x for x in tail if x not in want_tail])
        if p["name"] not in info:
            probs.append("build: '%s' was not declared in this scope" % p["name"])
        e["post_copies"] = copies
        orig = env.get("original")
        if orig is None or orig.members is None:
            probs.append("build: 'original' is never declared")
            continue
        if orig.path != p["name"]:
            probs.append("build: 'original' is a %s" % orig.tname)
        if getattr(orig, "bad", False):
            continue
        e["sample"] = cpp_snapshot(orig, probs, "original", info)
    return out


EXTRACTORS = {"go": extract_tests_go, "rust": extract_tests_rust, "java": extract_tests_java, "py": extract_tests_py,
              "cpp": extract_tests_cpp}
