"""Inverse of the Python generator's templates: emitted <root>.py -> codec IR.

Strict inside the semantic regions (__init__ member list, encode, decode, the module-level
factory/registration lines): a line no template claims becomes an EJunk/DJunk step and
therefore a mismatch.  Indentation is significant in Python, so the block templates (for
loop, if) check it: a loop body is exactly the run of deeper-indented lines.

Python has no declared member types.  What the text does say:
  * widths and byte order: method names (write_u16_le, read_i32, write_u32_at) and the quoted
    prefix type of write_string/read_string/read_len ('u16');
  * the type a member holds: what decode stores into it ("self.m = T()" -> class T,
    "self.m = xMessageFactory.create(self.k)" -> a registered codec, "_t = T(); ...;
    self.m.append(_t)" -> list of T).  "self.m.encode(buffer)" is EObj(T)/EDyn accordingly and
    ENone (encode called on a non-codec) when decode never constructs the member.
  * the "if self.m is not None:" guard has no counterpart in the IR: guarded and unguarded
    calls give the same step."""
import re
from ir import UNDEF

PY_W = {"i8": 1, "u8": 1, "i16": 2, "u16": 2, "i32": 4, "u32": 4, "f32": 4, "i64": 8, "u64": 8, "f64": 8}
ID = r"[A-Za-z_][A-Za-z_0-9]*"
HEADER = {"from bytebuf import ByteBuf", "from checksum import create_checksum_service",
          "from message_factory import MessageFactory", "from codec import *"}


def inline_tree(p, path):
    """[(path, packet dump)] in the canonical order of IR.md: inline packets first."""
    out = []
    for f in p["fields"]:
        a = f["attr"]
        if a and a["kind"] == "object" and a["iner"] and a.get("inline"):
            out += inline_tree(a["inline"], path + "/" + f["name"])
    out.append((path, p))
    return out


def meth(t, allow_empty=False):
    """type part of a method name -> (width, little endian); None if the runtime table has no such method.
    'u16' (2,F)  'u16_le' (2,T)  'u8' (1,F); '' (the zero PyType) only where the generator can emit it."""
    if t == "":
        return (0, False) if allow_empty else None
    if t in PY_W:
        return (PY_W[t], False)
    if t.endswith("_le") and t[:-3] in PY_W and PY_W[t[:-3]] > 1:
        return (PY_W[t[:-3]], True)
    return None


def indent_of(l):
    return len(l) - len(l.lstrip(" "))


def body_lines(raw):
    """(indent, stripped text) of the non-blank, non-comment lines"""
    out = []
    for l in raw:
        s = l.strip()
        if not s or s.startswith("#"):
            continue
        out.append((indent_of(l), s))
    return out


class PyFile:
    """Module-level structure: codec classes, factory classes/instances/registrations, junk."""

    def __init__(self, text):
        self.lines = text.split("\n")
        self.classes = {}          # class name -> (first body line, end)   (first definition)
        self.class_order = []      # [(name, line)]
        self.fac_classes = {}      # factory class name -> key type text
        self.instances = {}        # instance variable -> factory class
        self.regs = {}             # instance variable -> [(key literal, target name, defined_before)]
        self.junk_before = {}      # class name -> [top-level lines nobody claims, met before that class]
        pending = []
        i = 0
        n = len(self.lines)
        while i < n:
            l = self.lines[i]
            s = l.strip()
            if not s or s.startswith("#"):
                i += 1
                continue
            if indent_of(l) != 0:
                # an indented line outside any class
                pending.append(s)
                i += 1
                continue
            m = re.fullmatch(r"class (%s)\(BinaryCodec\):" % ID, s)
            if m:
                j = i + 1
                while j < n and (not self.lines[j].strip() or indent_of(self.lines[j]) > 0):
                    j += 1
                name = m.group(1)
                if name not in self.classes:
                    self.classes[name] = (i + 1, j)
                self.class_order.append((name, i))
                if pending:
                    self.junk_before.setdefault(name, []).extend(pending)
                    pending = []
                i = j
                continue
            if s in HEADER:
                i += 1
                continue
            m = re.fullmatch(r"class (%s)\(MessageFactory\[(int|str), BinaryCodec\]\): \.\.\." % ID, s)
            if m:
                self.fac_classes[m.group(1)] = m.group(2)
                i += 1
                continue
            m = re.fullmatch(r"(%s) = (%s)\(\)" % (ID, ID), s)
            if m and m.group(2) in self.fac_classes:
                # (re)binding the name: the table is what the NAME has registered in total (IR.md / task
                # convention), although a second "x = X()" creates a new object in Python
                self.instances[m.group(1)] = m.group(2)
                self.regs.setdefault(m.group(1), [])
                i += 1
                continue
            m = re.fullmatch(r"(%s)\.register\((.*), (%s)\)" % (ID, ID), s)
            if m and m.group(1) in self.instances:
                defined = any(nm == m.group(3) for nm, _ in self.class_order)     # evaluated at import time
                self.regs[m.group(1)].append((m.group(2), m.group(3), defined))
                i += 1
                continue
            pending.append(s)
            i += 1
        self.trailing_junk = pending

    def class_shape(self, cname):
        """lines of the class block that belong to no known method: [] when the block is exactly
        __init__, encode, decode, __eq__ (each once, in that order)"""
        a, b = self.classes[cname]
        heads = []
        stray = []
        for i in range(a, b):
            l = self.lines[i]
            if re.match(r"^    def ", l):
                heads.append(l.strip())
            elif not heads and l.strip() and not l.strip().startswith("#"):
                stray.append(l.strip())
        want = ["def __init__(self):", "def encode(self, buffer: ByteBuf):", "def decode(self, buffer: ByteBuf):",
                "def __eq__(self, other):"]
        if heads != want:
            stray.append("methods " + " ; ".join(heads))
        return stray

    def method(self, cname, head_re):
        """body lines of the method of class cname whose def line (stripped) matches head_re"""
        if cname not in self.classes:
            return None
        a, b = self.classes[cname]
        for i in range(a, b):
            l = self.lines[i]
            if indent_of(l) == 4 and re.fullmatch(head_re, l.strip()):
                j = i + 1
                while j < b and not re.match(r"^    def ", self.lines[j]):
                    j += 1
                return body_lines(self.lines[i + 1:j])
        return None


class Ctx:
    def __init__(self, path, members, types):
        self.path = path
        self.members = members            # [(name, default text)]
        self.types = types                # class name -> [paths]
        self.defined = set()              # position variables defined so far
        self.holds = {}                   # member -> ("obj", T) | ("dyn",) | ("objlist", T)   (from decode)

    def midx(self, name):
        for i, (n, _) in enumerate(self.members):
            if n == name:
                return i
        return None

    def idx(self, name):
        i = self.midx(name)
        return UNDEF if i is None else i

    def resolve_type(self, t):
        cands = self.types.get(t, [])
        child = [c for c in cands if c.startswith(self.path + "/") and "/" not in c[len(self.path) + 1:]]
        if len(child) == 1:
            return child[0]
        if len(cands) == 1:
            return cands[0]
        return "?" + t

    def codec_call(self, m):
        h = self.holds.get(m)
        if h and h[0] == "obj":
            return ("EObj", self.resolve_type(h[1]))
        if h and h[0] == "dyn":
            return ("EDyn",)
        return ("ENone",)              # encode called on a member that never holds a codec

    def elem_call(self, m):
        h = self.holds.get(m)
        if h and h[0] == "objlist":
            return ("EObj", self.resolve_type(h[1]))
        return ("ENone",)


MARKER = r"-- unsupported type: .*"


# ---------------------------------------------------------------- encode

def enc_simple(lines, i, c, sub):
    """one generateEncodeField template on self.<m><sub>; returns (consumed, member, step) or None"""
    ind, t = lines[i]
    S = r"self\.(?P<m>%s)%s" % (ID, sub)
    m = re.fullmatch(r"buffer\.write_(?P<t>\w*)\(%s\)" % S, t)
    if m and meth(m["t"]):
        w, le = meth(m["t"])
        return 1, m["m"], ("EInt", w, le)
    m = re.fullmatch(r"write_fixed_string\(buffer, %s, (?P<n>\d+), 'utf-8', (?P<lit>.*), (?P<left>True|False)\)" % S, t)
    if m:
        return 1, m["m"], ("EFixed", int(m["n"]), (m["lit"], m["left"] == "True"))
    m = re.fullmatch(r"write_fixed_string\(buffer, %s, (?P<n>\d+), 'utf-8'\)" % S, t)
    if m:
        return 1, m["m"], ("EFixed", int(m["n"]), None)
    m = re.fullmatch(r"write_string(?P<le>_le)?\(buffer, %s, '(?P<t>\w*)'\)" % S, t)
    if m and m["t"] in PY_W:
        return 1, m["m"], ("EStr", PY_W[m["t"]], bool(m["le"]), bool(m["le"]))
    m = re.fullmatch(r"%s\.encode\(buffer\)" % S, t)
    if m:
        return 1, m["m"], (c.elem_call(m["m"]) if sub else c.codec_call(m["m"]))
    m = re.fullmatch(r"if %s is not None:" % S, t)
    if m and i + 1 < len(lines) and lines[i + 1][0] > ind:
        m2 = re.fullmatch(r"%s\.encode\(buffer\)" % S, lines[i + 1][1])
        if m2 and m2["m"] == m["m"] and (i + 2 >= len(lines) or lines[i + 2][0] <= ind):
            return 2, m["m"], (c.elem_call(m["m"]) if sub else c.codec_call(m["m"]))
    return None


def enc_stmt(lines, i, c):
    """(consumed, [(index, step)]) or None"""
    n = len(lines)
    ind, t = lines[i]

    def at(k, pat, same=True):
        """line i+k at the same indentation matching pat"""
        if i + k >= n:
            return None
        if same and lines[i + k][0] != ind:
            return None
        return re.fullmatch(pat, lines[i + k][1])

    # checksum block
    m = re.fullmatch(r"service = create_checksum_service\((?P<alg>.*)\)", t)
    if m and at(1, r"if service :") and i + 2 < n and lines[i + 2][0] > ind:
        m2 = re.fullmatch(r"self\.(?P<m>%s) = service\.calc\(buffer\)" % ID, lines[i + 2][1])
        if m2 and (i + 3 >= n or lines[i + 3][0] <= ind):
            m3 = at(3, r"buffer\.write_(?P<t>\w*)\(self\.(?P<m>%s)\)" % ID)
            if m3 and m3["m"] == m2["m"] and meth(m3["t"]):
                w, le = meth(m3["t"])
                return 4, [(c.idx(m2["m"]), ("ECheck", m["alg"], w, le))]
            return 3, [(c.idx(m2["m"]), ("ECheck", m["alg"], 0, False))]     # computed, never written
    # length placeholder
    m = re.fullmatch(r"(?P<v>%s)_pos = buffer\.write_index" % ID, t)
    if m:
        m2 = at(1, r"buffer\.write_(?P<t>\w*)\(0\)")
        if m2 and meth(m2["t"], True):
            w, le = meth(m2["t"], True)
            k = c.idx(m["v"])
            c.defined.add(m["v"])
            return 2, [(k, ("EMarkZero", k, w, le))]
    # length-of target
    m = re.fullmatch(r"(?P<v>%s)_start = buffer\.write_index" % ID, t)
    if m:
        v = m["v"]
        m1 = at(1, r"self\.(?P<m>%s)\.encode\(buffer\)" % ID)
        m2 = at(2, r"(?P<v>%s)_end = buffer\.write_index" % ID)
        m3 = at(3, r"self\.(?P<l>%s) = (?P<a>%s)_end - (?P<b>%s)_start" % (ID, ID, ID))
        if m1 and m2 and m3 and m2["v"] == v and m3["a"] == v and m3["b"] == v:
            k = c.idx(m1["m"])
            if not hasattr(c, "spans"):
                c.spans = {}
            c.spans[m3["l"]] = k             # the member the span's size is stored in
            return 4, [(k, ("ESpan", c.codec_call(m1["m"]), k))]
    # the back-patch (normally right after the span; a separate statement)
    m4 = re.fullmatch(r"buffer\.write_(?P<t>\w*?)_at\((?P<p>%s)_pos, self\.(?P<l>%s)\)" % (ID, ID), t)
    if m4 and meth(m4["t"], True):
        w, le = meth(m4["t"], True)
        sid = getattr(c, "spans", {}).get(m4["l"], UNDEF)
        mark = c.idx(m4["p"]) if m4["p"] in c.defined else UNDEF
        # no cast in Python: cast_w = the width of the write; no slice
        return 1, [(sid, ("EPatch", mark, sid, w, le, w, None))]
    # list loop
    m = re.fullmatch(r"size = len\(self\.(?P<m>%s)\)" % ID, t)
    if m:
        m1 = at(1, r"buffer\.write_(?P<t>\w*)\(size\)")
        m2 = at(2, r"for i in range\(size\):")
        if m1 and m2 and meth(m1["t"], True):
            pw, ple = meth(m1["t"], True)
            j = i + 3
            while j < n and lines[j][0] > ind:
                j += 1
            body = lines[i + 3:j]
            k = c.idx(m["m"])
            if not body:
                elem = ("ENone",)                    # empty loop body (not even valid Python)
            elif len(body) == 1 and re.fullmatch(MARKER, body[0][1]):
                elem = ("EMarker",)
            else:
                r = enc_simple(body, 0, c, r"\[i\]")
                if r and r[0] == len(body) and r[1] == m["m"]:
                    elem = r[2]
                else:
                    elem = ("EJunk", " / ".join(b[1] for b in body))
            return j - i, [(k, ("EList", pw, ple, ple, elem))]
    r = enc_simple(lines, i, c, "")
    if r:
        return r[0], [(c.idx(r[1]), r[2])]
    if re.fullmatch(MARKER, t):
        return 1, [(UNDEF, ("EMarker",))]
    return None


def parse_enc(lines, c):
    if len(lines) == 1 and lines[0][1] == "pass":
        return []
    out = []
    i = 0
    while i < len(lines):
        r = enc_stmt(lines, i, c)
        if r is None:
            out.append((UNDEF, ("EJunk", lines[i][1])))
            i += 1
        else:
            out += r[1]
            i += r[0]
    return out


# ---------------------------------------------------------------- decode

def dec_value(t, target_re):
    """the right-hand sides shared by 'self.m = <rhs>' and 'self.m.append(<rhs>)'"""
    m = re.fullmatch(target_re % r"buffer\.read_(?P<t>\w*)\(\)", t)
    if m and meth(m["t"]):
        w, le = meth(m["t"])
        return m["m"], ("DInt", w, le)
    m = re.fullmatch(target_re % r"read_fixed_string\(buffer,\s*(?P<n>\d+), 'utf-8', (?P<lit>.*), (?P<left>True|False)\)", t)
    if m:
        return m["m"], ("DFixed", int(m["n"]), (m["lit"], m["left"] == "True"))
    m = re.fullmatch(target_re % r"read_fixed_string\(buffer,\s*(?P<n>\d+), 'utf-8'\)", t)
    if m:
        return m["m"], ("DFixed", int(m["n"]), None)
    m = re.fullmatch(target_re % r"read_string(?P<le>_le)?\(buffer,\s*'(?P<t>\w*)'\)", t)
    if m and m["t"] in PY_W:
        return m["m"], ("DStr", PY_W[m["t"]], bool(m["le"]), False)
    return None


ASSIGN = r"self\.(?P<m>" + ID + r") = %s"
APPEND = r"self\.(?P<m>" + ID + r")\.append\(%s\)"


def dec_stmt(lines, i, c, tables):
    n = len(lines)
    ind, t = lines[i]

    def at(k, pat):
        if i + k >= n or lines[i + k][0] != ind:
            return None
        return re.fullmatch(pat, lines[i + k][1])

    # list loop
    m = re.fullmatch(r"size = read_len(?P<le>_le)?\(buffer,\s*'(?P<t>\w*)'\)", t)
    if m and m["t"] in PY_W and at(1, r"for i in range\(size\):"):
        pw, ple = PY_W[m["t"]], bool(m["le"])
        j = i + 2
        while j < n and lines[j][0] > ind:
            j += 1
        body = lines[i + 2:j]
        member, elem = None, None
        if not body:
            elem = ("DNone",)                        # empty loop body: names no member
        elif len(body) == 1 and re.fullmatch(MARKER, body[0][1]):
            elem = ("DMarker",)
        elif len(body) == 1:
            r = dec_value(body[0][1], APPEND)
            if r:
                member, elem = r
        elif len(body) == 3 and body[0][0] == body[1][0] == body[2][0]:
            a = re.fullmatch(r"_(?P<v>%s) = (?P<T>%s)\(\)" % (ID, ID), body[0][1])
            b = re.fullmatch(r"_(?P<v>%s)\.decode\(buffer\)" % ID, body[1][1])
            d = re.fullmatch(r"self\.(?P<m>%s)\.append\(_(?P<v>%s)\)" % (ID, ID), body[2][1])
            if a and b and d and a["v"] == b["v"] == d["v"]:
                member, elem = d["m"], ("DObj", c.resolve_type(a["T"]))
                c.holds[member] = ("objlist", a["T"])
        if elem is None:
            elem = ("DJunk", " / ".join(b[1] for b in body))
        return j - i, [(UNDEF if member is None else c.idx(member), ("DList", pw, ple, False, elem))]
    # object
    m = re.fullmatch(r"self\.(?P<m>%s) = (?P<T>%s)\(\)" % (ID, ID), t)
    if m:
        m1 = at(1, r"self\.(?P<m>%s)\.decode\(buffer\)" % ID)
        if m1 and m1["m"] == m["m"]:
            c.holds[m["m"]] = ("obj", m["T"])
            return 2, [(c.idx(m["m"]), ("DObj", c.resolve_type(m["T"])))]
    # match
    m = re.fullmatch(r"self\.(?P<m>%s) = (?P<f>%s)\.create\(self\.(?P<k>%s)\)" % (ID, ID, ID), t)
    if m:
        m1 = at(1, r"self\.(?P<m>%s)\.decode\(buffer\)" % ID)
        if m1 and m1["m"] == m["m"]:
            c.holds[m["m"]] = ("dyn",)
            # a factory the module never binds is a NameError: the empty table (every key is an error)
            table = tables.get(m["f"], [])
            return 2, [(c.idx(m["m"]), ("DDispatch", table, False, c.idx(m["k"]), True))]
    r = dec_value(t, ASSIGN)
    if r:
        return 1, [(c.idx(r[0]), r[1])]
    if re.fullmatch(MARKER, t):
        return 1, [(UNDEF, ("DMarker",))]
    return None


def parse_dec(lines, c, tables):
    if len(lines) == 1 and lines[0][1] == "pass":
        return []
    out = []
    i = 0
    while i < len(lines):
        r = dec_stmt(lines, i, c, tables)
        if r is None:
            out.append((UNDEF, ("DJunk", lines[i][1])))
            i += 1
        else:
            out += r[1]
            i += r[0]
    return out


def parse_init(lines):
    """[(member name or None, default text)]"""
    if len(lines) == 1 and lines[0][1] == "pass":
        return []
    members = []
    for ind, t in lines:
        m = re.fullmatch(r"self\.(%s) = (0|''|\[\]|None)" % ID, t)
        if m:
            members.append((m.group(1), m.group(2)))
        else:
            members.append((None, t))
    return members


def extract_py(files, model, names):
    """files: {name: text}; returns [(path, ir)] in the order of Coq's gen_py, plus a list of notes."""
    snake = lambda n: names[n][2]
    camel = lambda n: names[n][0]
    notes = []
    tree = []
    for p in model["packets"]:
        tree += inline_tree(p, p["name"])
    fname = snake(model["root"]) + ".py" if model.get("root") else None
    text = files.get(fname) if fname else None
    if text is None:
        notes.append("missing file %s" % fname)
        return [], notes
    pf = PyFile(text)
    # emitted classes and the packets they come from
    types = {}
    for path, q in tree:
        if camel(q["name"]) in pf.classes:
            types.setdefault(camel(q["name"]), []).append(path)
    for cname, _ in pf.class_order:
        if cname not in types:
            notes.append("class %s belongs to no packet" % cname)
    prog = []
    for path, q in tree:
        cname = camel(q["name"])
        if cname not in pf.classes:
            notes.append("no class %s" % cname)
            prog.append((path, {"members": len(q["fields"]), "enc": [(UNDEF, ("EJunk", "no class"))],
                                "dec": [(UNDEF, ("DJunk", "no class"))]}))
            continue
        init = pf.method(cname, r"def __init__\(self\):")
        members = parse_init(init) if init is not None else [(None, "no __init__")]
        ctx = Ctx(path, members, types)
        tables = {}
        for var, regs in pf.regs.items():
            tables[var] = [(k, ctx.resolve_type(v) if d else "?" + v) for k, v, d in regs]
        dec_lines = pf.method(cname, r"def decode\(self, buffer: ByteBuf\):")
        enc_lines = pf.method(cname, r"def encode\(self, buffer: ByteBuf\):")
        # decode first: it says what the members hold
        dec = parse_dec(dec_lines, ctx, tables) if dec_lines is not None else [(UNDEF, ("DJunk", "no decode"))]
        enc = parse_enc(enc_lines, ctx) if enc_lines is not None else [(UNDEF, ("EJunk", "no encode"))]
        for s in pf.junk_before.get(cname, []) + pf.class_shape(cname):
            dec.append((UNDEF, ("DJunk", s)))
        # members must be the declared fields, in order, under their converted names
        want = [snake(f["name"]) for f in q["fields"]]
        got = [m[0] for m in members]
        it = iter(want)
        omitted_only = all(any(g == w for w in it) for g in got)     # got is a subsequence of want
        if want != got and not omitted_only:
            enc.append((UNDEF, ("EJunk", "members %s expected %s" % (got, want))))
        prog.append((path, {"members": len(members), "enc": enc, "dec": dec}))
    if pf.trailing_junk and prog:
        prog[-1][1]["dec"].extend((UNDEF, ("DJunk", s)) for s in pf.trailing_junk)
    return prog, notes
