"""Writes /verif/MANIFEST.json from the table below (kept here so that texts stay consistent)."""
import json
import os

VERIF = os.path.dirname(os.path.dirname(os.path.abspath(__file__)))
CODEC_NOTE = ("Trusted: Coq 8.16.1 kernel + vm_compute; coq/IR/Sem.v (the runtime contract: what each runtime API call of the emitted code means) and "
              "coq/Wire/Layout.v (the wire specification); harness/extract_<lang>.py (emitted text -> IR, strict in encode/decode/member/factory regions); "
              "the verif hook. No axioms (Print Assumptions: closed under the global context). The codec runtimes themselves are absent from the sandbox: "
              "the property is relative to a runtime that honours the API, as its statement says.")
CHECKS = {
 "C01": ("proof", "Theorems (coq/Props/C01.v): for EVERY model, packet, message, prefix and fuel the reference compilation of the model writes exactly the bytes of the wire specification (induction over fields, lists and reference depth); the boolean IR equivalence is sound; hence every IR program the validator accepts encodes exactly the specified bytes. On each run the IR extracted from the REAL output of all five generators is (i) compared with the Coq generator models (tie) and (ii) validated, per packet, against the reference by that proved-sound validator, so each validated (program, language) is proved correct for all messages; any unvalidated difference must match a recorded finding or is a violation, with a failing message searched by evaluating the IR semantics against the specification.", "4, 6 C01", "machine-checked proof (Coq) + proved-sound translation validation of the real generator output; differential correspondence of generator models"),
 "C02": ("proof", "Theorems (coq/Props/C02.v): the reference decoder, fed the canonical encoding of any message of the value domain followed by any bytes, returns the message (computed members with their wire values), consumes exactly the message, and the returned message re-encodes to the same bytes; decoder equivalence is sound; hence every validated decoder does the same. Tie and validation of the real decoders of all five languages as for C01.", "6 C02", "machine-checked proof (Coq) + proved-sound translation validation of the real decoders"),
 "C03": ("proof", "Corollaries (coq/Props/C03.v): two validated encoders write identical bytes for every declared message; two validated decoders return identical results on every input; a validated decoder recovers the message from a validated encoder's bytes. All five languages are validated against one reference on every run; every language-specific deviation is a finding or a violation.", "6 C03", "machine-checked proof (Coq), corollaries of C01/C02 through one reference compilation"),
 "C04": ("proof", "Theorems (coq/Props/C04.v): the specification (and therefore every validated encoder) is independent of the value stored in a length-of member; the reference encoder patches the size of the target's encoding at the placeholder (part of C01's proof: ESpan/EPatch against the specification's patch), decoders return the wire value (C02). The run validates the placeholder/span/patch steps of the real output in all five languages on the length cells (every width x spelling x target kind x byte order).", "6 C04", "machine-checked proof (Coq) + validation of the emitted back-patch steps"),
 "C05": ("proof", "Theorems (coq/Props/C05.v): a match payload is laid out as the message of its own packet; the reference decoder dispatches through exactly the DSL's table and reports unknown keys; dispatch semantics (known key -> the table's packet, unknown key -> reported error) and irrelevance of registration order for distinct keys. The run validates the dispatch tables extracted from the real output (registries, enums, factories, match arms) against the DSL table for integer keys of each width, string keys, key lists and several keys per packet.", "6 C05", "machine-checked proof (Coq) + validation of emitted dispatch tables"),
 "C06": ("proof", "Theorems (coq/Props/C06.v): the specification's checksum clause (registered: algorithm over the whole buffer so far; unregistered: the caller's value; declared width, configured byte order) and that validated encoders implement the specification. The run validates the checksum steps of the real output for every integer width, both spellings and both byte orders.", "6 C06", "machine-checked proof (Coq) + validation of emitted checksum steps"),
 "C13": ("proof", "Theorems (coq/Props/C13.v), with Go map iteration as an explicit oracle (a range over a map is a fold over ANY permutation of its entries): a loop that only stores under pairwise distinct keys yields the same map in every order; a loop that only collects keys that are then sorted yields the same list in every order (for any total order); and every map range of the CURRENT source is of one of these shapes - a table regenerated from /repo by a go/types scan on every run (translator T1), so a new order-dependent iteration breaks the obligation. Dynamically every corpus program (several packets, several match fields per packet, shared line numbers, cross references) is compiled repeatedly by all six generators and compared byte for byte.", "6 C13", "machine-checked proof (Coq) over a site table regenerated from source + repeated real compilations"),
 "C14": ("proof", "Theorems (coq/Props/C14.v): if generating never alters the model then, whichever generators ran before and in whatever order, a generator returns exactly what it returns alone (induction over the sequence), and the model after any sequence is the parsed model; the premise holds on the CURRENT source: the table of statements in generator/cmd sources that write model memory (go/types scan with local alias tracking: assignments through model pointers, index assignments, pointer-receiver model methods, in-place sort/copy/delete of model slices and maps), regenerated on every run, is empty. Dynamically: every generator alone versus inside sequences over one parsed model (CLI order, reverse, random orders and subsets), files compared and the model dumped before/after each step with pointer-identity classes.", "6 C14", "machine-checked proof (Coq) over a mutation-site table regenerated from source + reordered real generator runs"),
 "C15": ("proof", "PARTIAL. Model: coq/Lua/LuaIR.v (IR of what the emitted Lua does with offsets and its semantics = the Wireshark Lua API contract incl. local-function scoping), coq/Gen/Lua.v (generator model), coq/Lua/Ranges.v (true ranges, derived from the wire specification). Theorem (coq/Props/C15.v): for root packets of non-repeated scalars and fixed strings the dissector attributes exactly the true ranges and ends at the end of the message, for every message. The larger fragment lua_frag (strings, lists, empty match payloads) is checked by evaluation on every run; outside it the property is refuted by recorded findings. Tie: emitted Lua extracted to the IR and compared with gen_lua on every run (extractor self-tested by ~10^4 text mutations); regenerated scalar size table compared with the model's.", "6 C15", "machine-checked proof (Coq) on the fixed-width fragment + differential correspondence and evaluation of the Lua IR semantics"),
 "C16": ("proof", "Theorems (coq/Props/C16.v), for ALL library functions F (formatter), P (ParseFile) and G (generators): format -d prints exactly F's text plus a newline and nothing else, format -f leaves exactly that text in the file and touches no other path, on error both exit 1 with the file system unchanged; the C export returns the text (truncated at NUL as char* implies) or 'Error:'+message; compile with or without the word writes exactly {dir_L/name -> data} of the requested generators, in generator order, nothing else, and nothing on syntax errors/diagnostics; map iteration order in the file writer is irrelevant. PARTIAL with respect to OS effects. Tie: the real binary and the real c-shared library (ctypes) on ~300 cases (entry points x flag spellings x all 64 output-flag subsets x valid/invalid/empty texts) compared with the model instantiated with the real library results.", "6 C16", "machine-checked proof (Coq) of the wrapper model for all library functions + differential correspondence with the real binary and .so")
}


def main():
    checks = []
    for pid, (cat, text, ref, tech) in sorted(CHECKS.items()):
        checks.append({
            "property_id": pid,
            "quick_cmd": "cd /verif && ./check %s --tier quick" % pid,
            "thorough_cmd": "cd /verif && ./check %s --tier thorough" % pid,
            "evidence_file": "/verif/evidence/%s.json" % pid,
            "replay_cmd_template": "cd /verif && ./check %s --replay {path}" % pid,
            "engine": "coq+harness",
            "level_claimed": {"category": cat, "text": text, "design_ref": "DESIGN.md section " + ref},
            "level_note": NOTES.get(pid, CODEC_NOTE),
            "technique": tech,
        })
    claimed = set(CHECKS)
    na = [{"property_id": p, "reason": r} for p, r in sorted(NOT_YET.items()) if p not in claimed]
    m = {
        "version": 1,
        "setup_cmd": "cd /verif && ./setup.sh",
        "hooks": {
            "guard": "verif",
            "enable": "Go build tag: go build -tags verif -o /verif/.build/verifhook ./internal/verifhook (add-only files internal/verifhook/main.go, internal/parser/verif_export.go, internal/model/verif_export.go)",
            "baseline_off_cmd": "cd /repo && GOFLAGS=-mod=mod GOPROXY=off go test -json -vet=off -count=1 -timeout 25m ./...",
            "source_commits": ["04292c4", "9140fdd"],
            "add_only": True,
        },
        "engines": [{"name": "coq+harness", "path": "/verif/check", "serves_properties": sorted(claimed),
                     "kind_free_text": "Coq 8.16.1 development (models, theorems) + Python correspondence harness + Go hook (tag verif)"}],
        "checks": checks,
        "notes": "See DESIGN.md. Known findings (genuine defects recorded, not repaired) and fixed defects: known_findings.json.",
        "not_applicable": na,
    }
    json.dump(m, open(os.path.join(VERIF, "MANIFEST.json"), "w"), indent=1)


NOTES = {
 "C13": "Trusted: Coq kernel; tools/sites (go/types scan, ~350 lines) that regenerates the site tables; the classification of a loop body as keyed-insert / collect-then-sort is syntactic; Go's sort.Strings is a total order (theorem is parametric in the order). The C++ copyright year (clock) is a parameter.",
 "C14": "Trusted: Coq kernel; tools/sites (go/types scan with flow-insensitive alias tracking) that regenerates the mutation-site table; the hook's model dump (pointer-identity classes) used for the dynamic before/after comparison.",
 "C15": "Trusted: Coq kernel; coq/Lua/LuaIR.v as the Wireshark Lua API contract (no Lua interpreter or tshark in the sandbox); harness/extract_lua.py. Only the fixed-width fragment is proved; the rest of lua_frag is evaluated, not proved.",
 "C16": "Trusted: Coq kernel; coq/Cli/Cli.v as the model of cobra/pflag argument handling for the modelled flag forms; OS effects (permissions, partial writes, symlinks) and stderr are outside the model; harness/cli.py.",
}
NOT_YET = {}

if __name__ == "__main__":
    main()
