"""Writes /verif/MANIFEST.json from the table below (kept here so that texts stay consistent)."""
import json
import os

VERIF = os.path.dirname(os.path.dirname(os.path.abspath(__file__)))
CODEC_NOTE = ("Trusted: Coq 8.16.1 kernel + vm_compute; coq/IR/Sem.v (the runtime contract: what each runtime API call of the emitted code means) and "
              "coq/Wire/Layout.v (the wire specification); harness/extract_<lang>.py (emitted text -> IR, strict in encode/decode/member/factory regions); "
              "the verif hook. No axioms (Print Assumptions: closed under the global context). The codec runtimes themselves are absent from the sandbox: "
              "the property is relative to a runtime that honours the API, as its statement says.")
CHECKS = {
 "C01": ("proof", "Theorems (coq/Props/C01.v): for EVERY model, packet, message, prefix and fuel the reference compilation of the model writes exactly the bytes of the wire specification (induction over fields, lists and reference depth); the boolean IR equivalence is sound; hence every IR program the validator accepts encodes exactly the specified bytes. On each run the IR extracted from the REAL output of all five generators is (i) compared with the Coq generator models (tie) and (ii) validated, per packet, against the reference by that proved-sound validator, so each validated (program, language) is proved correct for all messages; any unvalidated difference must match a recorded finding or is a violation, with a failing message searched by evaluating the IR semantics against the specification.", "4, 6 C01", "machine-checked proof (Coq) + proved-sound translation validation of the real generator output; differential correspondence of generator models"),
 "C02": ("proof", "Theorems (coq/Props/C02.v): the reference decoder, fed the canonical encoding of any message of the value domain followed by any bytes, returns the message (computed members with their wire values), consumes exactly the message, and the returned message re-encodes to the same bytes; decoder equivalence is sound; hence every validated decoder does the same. Tie and validation of the real decoders of all five languages as for C01.", "6 C02", "machine-checked proof (Coq) + proved-sound translation validation of the real decoders"),
 "C03": ("proof", "Corollaries (coq/Props/C03.v): two validated encoders write identical bytes for every declared message; two validated decoders return identical results on every input; a validated decoder recovers the message from a validated encoder's bytes. All five languages are validated against one reference on every run; every language-specific deviation is a finding or a violation.", "6 C03", "machine-checked proof (Coq), corollaries of C01/C02 through one reference compilation"),
 "C04": ("proof", "Theorems (coq/Props/C04.v): the specification (and therefore every validated encoder) is independent of the value stored in a length-of member; the reference encoder patches the size of the target's encoding at the placeholder (part of C01's proof: ESpan/EPatch against the specification's patch), decoders return the wire value (C02). The run validates the placeholder/span/patch steps of the real output in all five languages on the length cells (every width x spelling x target kind x byte order).", "6 C04", "machine-checked proof (Coq) + validation of the emitted back-patch steps"),
 "C05": ("proof", "Theorems (coq/Props/C05.v): a match payload is laid out as the message of its own packet; the reference decoder dispatches through exactly the DSL's table and reports unknown keys; dispatch semantics (known key -> the table's packet, unknown key -> reported error) and irrelevance of registration order for distinct keys. The run validates the dispatch tables extracted from the real output (registries, enums, factories, match arms) against the DSL table for integer keys of each width, string keys, key lists and several keys per packet.", "6 C05", "machine-checked proof (Coq) + validation of emitted dispatch tables"),
 "C06": ("proof", "Theorems (coq/Props/C06.v): the specification's checksum clause (registered: algorithm over the whole buffer so far; unregistered: the caller's value; declared width, configured byte order) and that validated encoders implement the specification. The run validates the checksum steps of the real output for every integer width, both spellings and both byte orders.", "6 C06", "machine-checked proof (Coq) + validation of emitted checksum steps"),
}


def main():
    checks = []
    for pid, (cat, text, ref, tech) in sorted(CHECKS.items()):
        checks.append({
            "property_id": pid,
            "quick_cmd": "cd /verif && ./check %s --tier quick" % pid,
            "thorough_cmd": "cd /verif && ./check %s --tier thorough" % pid,
            "evidence_file": "/verif/evidence/%s.json" % pid,
            "replay_cmd_template": "cd /verif && ./check %s --replay {path}" % pid,
            "engine": "coq+harness",
            "level_claimed": {"category": cat, "text": text, "design_ref": "DESIGN.md section " + ref},
            "level_note": NOTES.get(pid, CODEC_NOTE),
            "technique": tech,
        })
    claimed = set(CHECKS)
    na = [{"property_id": p, "reason": r} for p, r in sorted(NOT_YET.items()) if p not in claimed]
    m = {
        "version": 1,
        "setup_cmd": "cd /verif && ./setup.sh",
        "hooks": {
            "guard": "verif",
            "enable": "Go build tag: go build -tags verif -o /verif/.build/verifhook ./internal/verifhook (add-only files internal/verifhook/main.go, internal/parser/verif_export.go, internal/model/verif_export.go)",
            "baseline_off_cmd": "cd /repo && GOFLAGS=-mod=mod GOPROXY=off go test -json -vet=off -count=1 -timeout 25m ./...",
            "source_commits": ["04292c4", "9140fdd"],
            "add_only": True,
        },
        "engines": [{"name": "coq+harness", "path": "/verif/check", "serves_properties": sorted(claimed),
                     "kind_free_text": "Coq 8.16.1 development (models, theorems) + Python correspondence harness + Go hook (tag verif)"}],
        "checks": checks,
        "notes": "See DESIGN.md. Known findings (genuine defects recorded, not repaired) and fixed defects: known_findings.json.",
        "not_applicable": na,
    }
    json.dump(m, open(os.path.join(VERIF, "MANIFEST.json"), "w"), indent=1)


NOTES = {}
NOT_YET = {}

if __name__ == "__main__":
    main()
