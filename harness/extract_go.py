"""Inverse of the Go generator's templates: emitted .go files -> codec IR.

Strict inside the semantic regions (struct members, Encode, Decode, init registrations):
a line no template claims becomes an EJunk/DJunk step and therefore a mismatch."""
import re
from ir import UNDEF

GO_W = {"int8": 1, "uint8": 1, "int16": 2, "uint16": 2, "int32": 4, "uint32": 4, "float32": 4,
        "int64": 8, "uint64": 8, "float64": 8}
PUT_W = {"Uint8": 1, "Uint16": 2, "Uint32": 4, "Uint64": 8, "Int8": 1, "Int16": 2, "Int32": 4, "Int64": 8,
         "Float32": 4, "Float64": 8}
ID = r"[A-Za-z_][A-Za-z_0-9]*"


def inline_tree(p, path):
    """[(path, packet dump)] in the generator's emission order: inline packets first."""
    out = []
    for f in p["fields"]:
        a = f["attr"]
        if a and a["kind"] == "object" and a["iner"] and a.get("inline"):
            out += inline_tree(a["inline"], path + "/" + f["name"])
    out.append((path, p))
    return out


class GoFile:
    def __init__(self, text):
        self.lines = text.split("\n")

    def block(self, start_re, end_pred):
        """lines strictly between the first line matching start_re and the first later line satisfying end_pred"""
        for i, l in enumerate(self.lines):
            if re.match(start_re, l):
                for j in range(i + 1, len(self.lines)):
                    if end_pred(self.lines[j]):
                        return self.lines[i + 1:j], i
                return None, i
        return None, None


def parse_struct(gf, tname):
    body, _ = gf.block(r"^type %s struct \{$" % re.escape(tname), lambda l: l == "}")
    if body is None:
        return None
    members = []
    for l in body:
        m = re.match(r"^    (%s) (\S.*?) `json:\"[^\"]*\"`$" % ID, l)
        if m:
            members.append((m.group(1), m.group(2)))
        else:
            m = re.match(r"^    (%s)  `json:\"[^\"]*\"`$" % ID, l)      # member with an empty type
            if m:
                members.append((m.group(1), ""))
            else:
                members.append((None, l))
    return members


def func_body(gf, tname, fname):
    start = None
    pat = re.compile(r"^func \(p \*%s\) %s\(buf \*bytes\.Buffer\) error \{$" % (re.escape(tname), fname))
    for i, l in enumerate(gf.lines):
        if pat.match(l):
            start = i
            break
    if start is None:
        return None
    # the body ends with "    return nil" followed by "}" (blocks inside are not always indented)
    end = None
    for j in range(start + 1, len(gf.lines) - 1):
        if gf.lines[j] == "    return nil" and gf.lines[j + 1] == "}":
            end = j
            break
        if gf.lines[j].startswith("func "):
            break
    if end is None:
        return ["<<unterminated function>>"]
    return [l for l in gf.lines[start + 1:end] if l.strip() and not l.strip().startswith("//")]


class Ctx:
    def __init__(self, path, members, types, lcamel_to_idx):
        self.path = path
        self.members = members            # [(Name, type text)]
        self.types = types                # type name -> [paths]
        self.lc = lcamel_to_idx           # lowerCamel(field name) -> member index

    def midx(self, name):
        for i, (n, _) in enumerate(self.members):
            if n == name:
                return i
        return None

    def mtype(self, name):
        i = self.midx(name)
        return None if i is None else self.members[i][1]

    def resolve_type(self, t):
        cands = self.types.get(t, [])
        child = [c for c in cands if c.startswith(self.path + "/") and "/" not in c[len(self.path) + 1:]]
        if len(child) == 1:
            return child[0]
        if len(cands) == 1:
            return cands[0]
        return "?" + t


def lit_of(tok):
    return tok


def enc_templates():
    T = []

    def add(pats, fn):
        T.append(([re.compile("^" + p + "$") for p in pats], fn))

    ERRF = r'\s*return fmt\.Errorf\("failed to encode %s: %w", "[^"]*", err\)'
    # checksum (before the plain scalar write, which it contains)
    add([r'if checksumService, ok := codec\.Get\((?P<alg>.*)\); ok \{',
         r'\s*p\.(?P<m>%s) = checksumService\.\(codec\.ChecksumService\[\*bytes\.Buffer, (?P<t>\w*)\]\)\.Calc\(buf\)' % ID,
         r'\}',
         r'\s*if err :=codec\.WriteBasicType(?P<le>LE)?\(buf, p\.(?P<m2>%s)\); err != nil \{' % ID, ERRF, r'\s*\}'],
        lambda g, c: e_check(g, c))
    # length placeholder
    add([r'\s*(?P<v>%s)Pos := buf\.Len\(\)' % ID,
         r'\s*if err :=codec\.WriteBasicType(?P<le>LE)?\(buf, (?P<t>\w*)\(0\)\); err != nil \{', ERRF, r'\s*\}'],
        lambda g, c: e_markzero(g, c))
    add([r'\s*if err :=codec\.WriteBasicType(?P<le>LE)?\(buf, p\.(?P<m>%s)\); err != nil \{' % ID, ERRF, r'\s*\}'],
        lambda g, c: e_int(g, c))
    # length-of target
    add([r'(?P<v>%s)Start := buf\.Len\(\)' % ID,
         r'if p\.(?P<m>%s) != nil \{' % ID,
         r'\s*if err := p\.(?P<m2>%s)\.Encode\(buf\); err != nil \{' % ID, r'\s*return err', r'\s*\}', r'\}',
         r'(?P<v2>%s)End := buf\.Len\(\)' % ID,
         r'p\.(?P<l>%s) = (?P<t>\w*)\((?P<v3>%s)End - (?P<v4>%s)Start\)' % (ID, ID, ID),
         r'binary\.(?P<ord>Big|Little)Endian\.Put(?P<put>\w*)\(buf\.Bytes\(\)\[(?P<p1>%s)Pos:(?P<p2>%s)Pos \+ (?P<k>\d+)\], p\.(?P<l2>%s)\)' % (ID, ID, ID)],
        lambda g, c: e_target(g, c))
    add([r'\s*if err := codec\.WriteFixedStringWithPadding\(buf, p\.(?P<m>%s), (?P<n>\d+), (?P<lit>.*), (?P<left>true|false)\); err != nil \{' % ID,
         r'\s*return err', r'\s*\}'], lambda g, c: [(c.midx(g["m"]), ("EFixed", int(g["n"]), (g["lit"], g["left"] == "true")))])
    add([r'\s*if err := codec\.WriteFixedString\(buf, p\.(?P<m>%s), (?P<n>\d+)\); err != nil \{' % ID,
         r'\s*return err', r'\s*\}'], lambda g, c: [(c.midx(g["m"]), ("EFixed", int(g["n"]), None))])
    add([r'\s*if err := codec\.WriteString(?P<le>LE)?\[(?P<t>\w*)\]\(buf, p\.(?P<m>%s)\); err != nil \{' % ID,
         r'\s*return err', r'\s*\}'],
        lambda g, c: [(c.midx(g["m"]), ("EStr", GO_W.get(g["t"], 0), bool(g["le"]), bool(g["le"])))])
    # match
    add([r'if p\.(?P<m>%s) == nil \{' % ID,
         r'\s*if val, err :=New(?P<f>%s)\(p\.(?P<k>%s)\); err != nil \{' % (ID, ID), r'\s*return err', r'\s*\} else \{',
         r'\s*p\.(?P<m2>%s) = val' % ID, r'\s*\}', r'\}',
         r'\s*if err := p\.(?P<m3>%s)\.Encode\(buf\); err != nil \{' % ID, r'\s*return err', r'\s*\}'],
        lambda g, c: e_dyn(g, c))
    add([r'\s*if err := p\.(?P<m>%s)\.Encode\(buf\); err != nil \{' % ID, r'\s*return err', r'\s*\}'],
        lambda g, c: [(c.midx(g["m"]), codec_call(c, g["m"]))])
    # lists
    add([r'\s*if err := codec\.WriteBasicTypeList(?P<le>LE)?\[(?P<t>\w*)\]\(buf, p\.(?P<m>%s)\); err != nil \{' % ID, ERRF, r'\s*\}'],
        lambda g, c: e_list(g, c, ("EInt", elem_w(c, g["m"]), bool(g["le"]))))
    add([r'\s*if err := codec\.WriteStringList(?P<le>LE)?\[(?P<t>\w*),(?P<s>\w*)\]\(buf, p\.(?P<m>%s)\); err != nil \{' % ID,
         r'\s*return err', r'\s*\}'],
        lambda g, c: e_list(g, c, ("EStr", GO_W.get(g["s"], 0), bool(g["le"]), bool(g["le"]))))
    add([r'\s*if err := codec\.WriteFixedStringListWithPadding(?P<le>LE)?\[(?P<t>\w*)\]\(buf, p\.(?P<m>%s), (?P<n>\d+), (?P<lit>.*), (?P<left>true|false)\); err != nil \{' % ID,
         r'\s*return err', r'\s*\}'],
        lambda g, c: e_list(g, c, ("EFixed", int(g["n"]), (g["lit"], g["left"] == "true"))))
    add([r'\s*if err := codec\.WriteFixedStringList(?P<le>LE)?\[(?P<t>\w*)\]\(buf, p\.(?P<m>%s), (?P<n>\d+)\); err != nil \{' % ID,
         r'\s*return err', r'\s*\}'],
        lambda g, c: e_list(g, c, ("EFixed", int(g["n"]), None)))
    add([r'\s*if err := codec\.WriteObjectList(?P<le>LE)?\[(?P<t>\w*)\]\(buf, p\.(?P<m>%s)\); err != nil \{' % ID,
         r'\s*return err', r'\s*\}'],
        lambda g, c: e_list(g, c, elem_obj(c, g["m"])))
    add([r'--.*is not supported for encoding--'], lambda g, c: [(UNDEF, ("EMarker",))])
    return T


def scalar_w(c, m):
    return GO_W.get(c.mtype(m) or "", 0)


def elem_w(c, m):
    t = c.mtype(m) or ""
    return GO_W.get(t[2:], 0) if t.startswith("[]") else 0


def elem_obj(c, m):
    t = c.mtype(m) or ""
    if t.startswith("[]*"):
        return ("EObj", c.resolve_type(t[3:]))
    return ("EJunk", "object list of " + t)


def codec_call(c, m):
    t = c.mtype(m)
    if t == "codec.BinaryCodec":
        return ("EDyn",)
    if t and t.startswith("*"):
        return ("EObj", c.resolve_type(t[1:]))
    return ("ENone",)        # Encode called on a member that is not a codec


def e_int(g, c):
    return [(c.midx(g["m"]), ("EInt", scalar_w(c, g["m"]), bool(g["le"])))]


def e_check(g, c):
    if g["m"] != g["m2"]:
        return [(UNDEF, ("EJunk", "checksum assigns %s writes %s" % (g["m"], g["m2"])))]
    return [(c.midx(g["m"]), ("ECheck", g["alg"], scalar_w(c, g["m"]), bool(g["le"])))]


def e_markzero(g, c):
    i = c.lc.get(g["v"], UNDEF)
    c.defined.add(g["v"])
    return [(i, ("EMarkZero", i, GO_W.get(g["t"], 0), bool(g["le"])))]


def e_target(g, c):
    if not (g["v"] == g["v2"] == g["v3"] == g["v4"] and g["m"] == g["m2"] and g["l"] == g["l2"] and g["p1"] == g["p2"]):
        return [(UNDEF, ("EJunk", "inconsistent length-of block"))]
    i = c.midx(g["m"])
    if c.midx(g["l"]) is None:
        return [(UNDEF, ("EJunk", "length member %s not declared" % g["l"]))]
    mark = c.lc.get(g["p1"], UNDEF) if g["p1"] in c.defined else UNDEF
    return [(i, ("ESpan", codec_call(c, g["m"]), i)),
            (i, ("EPatch", mark, i, PUT_W.get(g["put"], 0), g["ord"] == "Little", GO_W.get(g["t"], 0), int(g["k"])))]


def e_dyn(g, c):
    if not (g["m"] == g["m2"] == g["m3"]):
        return [(UNDEF, ("EJunk", "inconsistent match block"))]
    return [(c.midx(g["m"]), codec_call(c, g["m"]))]


def e_list(g, c, elem):
    return [(c.midx(g["m"]), ("EList", GO_W.get(g["t"], 0), bool(g["le"]), bool(g["le"]), elem))]


def dec_templates(regs):
    T = []

    def add(pats, fn):
        T.append(([re.compile("^" + p + "$") for p in pats], fn))

    def tail(kind):
        return [r'\s*return err', r'\s*\}\s+else \{', r'\s*p\.(?P<m>%s) = val' % ID, r'\s*\}']

    add([r'\s*if val,err := codec\.ReadFixedStringTrimPadding\(buf, (?P<n>\d+), (?P<lit>.*), (?P<left>true|false)\); err != nil \{'] + tail(0),
        lambda g, c: [(c.midx(g["m"]), ("DFixed", int(g["n"]), (g["lit"], g["left"] == "true")))])
    add([r'\s*if val,err := codec\.ReadFixedString\(buf, (?P<n>\d+)\); err != nil \{'] + tail(0),
        lambda g, c: [(c.midx(g["m"]), ("DFixed", int(g["n"]), None))])
    add([r'\s*if val, err := codec\.ReadString(?P<le>LE)?\[(?P<t>\w*)\]\(buf\); err != nil \{'] + tail(0),
        lambda g, c: [(c.midx(g["m"]), ("DStr", GO_W.get(g["t"], 0), bool(g["le"]), False))])
    add([r'\s*if val, err := codec\.ReadBasicType(?P<le>LE)?\[(?P<t>\w*)\]\(buf\); err != nil \{'] + tail(0),
        lambda g, c: [(c.midx(g["m"]), ("DInt", GO_W.get(g["t"], 0), bool(g["le"])))
                      if c.mtype(g["m"]) == g["t"] else (UNDEF, ("DJunk", "read %s into %s" % (g["t"], c.mtype(g["m"]))))])
    add([r'\s*if p\.(?P<a>%s) == nil \{' % ID, r'\s*p\.(?P<b>%s) = &(?P<t>%s)\{\}' % (ID, ID), r'\s*\}',
         r'\s*if err := p\.(?P<m>%s)\.Decode\(buf\); err != nil \{' % ID, r'\s*return err', r'\s*\}'],
        lambda g, c: d_obj(g, c))
    add([r'\s*if val, err :=New(?P<f>%s)\(p\.(?P<k>%s)\); err != nil \{' % (ID, ID)] + tail(0) +
        [r'\s*if err := p\.(?P<m2>%s)\.Decode\(buf\); err != nil \{' % ID, r'\s*return err', r'\s*\}'],
        lambda g, c: d_dispatch(g, c, regs))
    add([r'\s*if val, err := codec\.ReadBasicTypeList(?P<le>LE)?\[(?P<t>\w*),(?P<e>\w*)\]\(buf\); err != nil \{'] + tail(0),
        lambda g, c: d_list(g, c, ("DInt", GO_W.get(g["e"], 0), bool(g["le"]))) if c.mtype(g["m"]) == "[]" + g["e"]
        else [(UNDEF, ("DJunk", "list elem type"))])
    add([r'\s*if val,err := codec\.ReadFixedStringListTrimPadding(?P<le>LE)?\[(?P<t>\w*)\]\(buf, (?P<n>\d+), (?P<lit>.*), (?P<left>true|false)\); err != nil \{'] + tail(0),
        lambda g, c: d_list(g, c, ("DFixed", int(g["n"]), (g["lit"], g["left"] == "true"))))
    add([r'\s*if val,err := codec\.ReadFixedStringList(?P<le>LE)?\[(?P<t>\w*)\]\(buf, (?P<n>\d+)\); err != nil \{'] + tail(0),
        lambda g, c: d_list(g, c, ("DFixed", int(g["n"]), None)))
    add([r'\s*if val, err := codec\.ReadStringList(?P<le>LE)?\[(?P<t>\w*),(?P<s>\w*)\]\(buf\); err != nil \{'] + tail(0),
        lambda g, c: d_list(g, c, ("DStr", GO_W.get(g["s"], 0), bool(g["le"]), False)))
    add([r'\s*if val, err := codec\.ReadObjectList(?P<le>LE)?\[(?P<t>\w*)\]\(buf,  func\(\) \*(?P<o>%s) \{ return &(?P<o2>%s)\{\} \}\); err != nil \{' % (ID, ID)] + tail(0),
        lambda g, c: d_objlist(g, c))
    add([r'--.*is not supported for encoding--'], lambda g, c: [(UNDEF, ("DMarker",))])
    return T


def d_obj(g, c):
    if g["a"] != g["b"]:
        return [(UNDEF, ("DJunk", "nil check on %s assigns %s" % (g["a"], g["b"])))]
    i = c.midx(g["m"])
    if c.midx(g["a"]) != i or i is None:
        return [(i if i is not None else UNDEF, ("DNone",))]       # the member decoded into is never initialised
    ty = c.resolve_type(g["t"])
    if c.mtype(g["m"]) != "*" + g["t"]:
        return [(i, ("DJunk", "member type %s initialised with %s" % (c.mtype(g["m"]), g["t"])))]
    return [(i, ("DObj", ty))]


def d_dispatch(g, c, regs):
    if g["m"] != g["m2"]:
        return [(UNDEF, ("DJunk", "inconsistent match decode"))]
    fac = g["f"]          # <P>MessageBy<K>
    table = regs.get(fac)
    ki = c.midx(g["k"])
    if table is None or ki is None:
        return [(c.midx(g["m"]) if c.midx(g["m"]) is not None else UNDEF, ("DNone",))]
    return [(c.midx(g["m"]), ("DDispatch", table, False, ki, True))]


def d_list(g, c, elem):
    return [(c.midx(g["m"]), ("DList", GO_W.get(g["t"], 0), bool(g["le"]), False, elem))]


def d_objlist(g, c):
    if g["o"] != g["o2"]:
        return [(UNDEF, ("DJunk", "factory types differ"))]
    ty = c.resolve_type(g["o"])
    i = c.midx(g["m"])
    if ty.startswith("?") or c.mtype(g["m"]) != "[]*" + g["o"]:
        return [(i if i is not None else UNDEF, ("DNone",))]
    return d_list(g, c, ("DObj", ty))


def run_templates(lines, templates, ctx, junk):
    out = []
    i = 0
    lines = [l.strip() for l in lines]
    while i < len(lines):
        for pats, fn in templates:
            if i + len(pats) > len(lines):
                continue
            groups = {}
            ok = True
            for k, p in enumerate(pats):
                m = p.match(lines[i + k])
                if not m:
                    ok = False
                    break
                for gk, gv in m.groupdict().items():
                    if gk == "m" and gk in groups and groups[gk] != gv:
                        ok = False
                    groups.setdefault(gk, gv)
                if not ok:
                    break
            if ok:
                for idx, step in fn(groups, ctx):
                    out.append((UNDEF if idx is None else idx, step))
                i += len(pats)
                break
        else:
            out.append((UNDEF, (junk, lines[i].strip())))
            i += 1
    return out


def extract_go(files, model, names):
    """files: {name: text}; returns [(path, ir)] in the order of Coq's gen_go, plus a list of notes."""
    snake = lambda n: names[n][2]
    lcamel = lambda n: names[n][1]
    camel = lambda n: names[n][0]
    # every emitted struct type and where it comes from
    types = {}
    for p in model["packets"]:
        for path, q in inline_tree(p, p["name"]):
            types.setdefault(q["name"], []).append(path)
    prog = []
    notes = []
    for p in model["packets"]:
        fname = snake(p["name"]) + ".go"
        text = files.get(fname)
        if text is None:
            notes.append("missing file " + fname)
            continue
        gf = GoFile(text)
        # registrations of this file: factory name -> [(key, path)]
        regs = {}
        for l in gf.lines:
            m = re.match(r"^Registry(%s)Factory\((.*), func\(\) codec\.BinaryCodec \{return &(%s)\{\}\}\)$" % (ID, ID), l)
            if m:
                fac = m.group(1)          # <P><K>
                regs.setdefault(fac, []).append((m.group(2), m.group(3)))
        # factory function names New<P>MessageBy<K> -> registry <P><K>: read the emitted functions
        newfn = {}
        for l in gf.lines:
            m = re.match(r"^func New(%s)MessageBy(%s)\(key .*\) \(codec\.BinaryCodec, error\) \{$" % (ID, ID), l)
            if m:
                newfn[m.group(1) + "MessageBy" + m.group(2)] = m.group(1) + m.group(2)
        for path, q in inline_tree(p, p["name"]):
            members = parse_struct(gf, q["name"])
            if members is None:
                notes.append("no struct %s in %s" % (q["name"], fname))
                prog.append((path, {"members": len(q["fields"]), "enc": [(UNDEF, ("EJunk", "no struct"))], "dec": [(UNDEF, ("DJunk", "no struct"))]}))
                continue
            lc = {}
            for i, f in enumerate(q["fields"]):
                lc.setdefault(lcamel(f["name"]), i)
            ctx = Ctx(path, members, types, lc)
            ctx.defined = set()
            tables = {}
            for fn, reg in newfn.items():
                pairs = regs.get(reg, [])
                tables[fn] = [(k, Ctx(path, members, types, lc).resolve_type(v)) for k, v in pairs]
            enc_lines = func_body(gf, q["name"], "Encode")
            dec_lines = func_body(gf, q["name"], "Decode")
            enc = run_templates(enc_lines, enc_templates(), ctx, "EJunk") if enc_lines is not None else [(UNDEF, ("EJunk", "no Encode"))]
            dec = run_templates(dec_lines, dec_templates(tables), ctx, "DJunk") if dec_lines is not None else [(UNDEF, ("DJunk", "no Decode"))]
            # struct members must be the declared fields, in order, under their converted names
            want = [camel(f["name"]) for f in q["fields"]]
            got = [m[0] for m in members]
            if want != got:
                enc.append((UNDEF, ("EJunk", "struct members %s expected %s" % (got, want))))
            prog.append((path, {"members": len(members), "enc": enc, "dec": dec}))
    return prog, notes
