"""Translators between the verifhook dumps (ops "lex" and "parse") and the Coq side
(coq/Syntax): Gallina terms of `list tok` and `pt`, and the canonical text form that
Syntax/ShowPT.v prints (show_toks / show_pt), so that model and reality compare as strings.

Input texts are RUNE LISTS: antlr.NewInputStream does []rune(text), so the lexer sees code
points (an invalid UTF-8 byte is U+FFFD); go_runes() is that conversion, runes_text() the
valid UTF-8 string that is sent to the hook (it decodes to the same runes).

Derived here because the hook does not dump it (see DERIVED below):
  * the EOF token (opLex stops before it; its line/column are the lexer's final position),
  * the column of a tree terminal (dumpTree prints type/text/line/index only): taken from the
    "lex" dump by token index, after checking type, text and line agree,
  * start/stop of a rule context: first/last terminal below the node (every rule but `packet`
    consumes a token); `packet`: first default-channel token or EOF / last default token or nil.
"""
import json

T_EOF = 0
EOF_TEXT = "<EOF>"
T_LINE_COMMENT = 44
T_DIGITS, T_STRING, T_PADDING_CHAR, T_COMMA, T_IDENT, T_DOC = 30, 31, 33, 40, 42, 43
BASIC = set(range(19, 30))

# ------------------------------------------------------------------ runes


def go_runes(data):
    """[]rune(string(data)) as Go does it: utf8.DecodeRune semantics, one U+FFFD per bad byte."""
    out = []
    i, n = 0, len(data)
    while i < n:
        b0 = data[i]
        if b0 < 0x80:
            out.append(b0)
            i += 1
            continue
        need, lo, hi, cp = 0, 0x80, 0xBF, 0
        if 0xC2 <= b0 <= 0xDF:
            need, cp = 1, b0 & 0x1F
        elif 0xE0 <= b0 <= 0xEF:
            need, cp = 2, b0 & 0x0F
            if b0 == 0xE0:
                lo = 0xA0
            elif b0 == 0xED:
                hi = 0x9F
        elif 0xF0 <= b0 <= 0xF4:
            need, cp = 3, b0 & 0x07
            if b0 == 0xF0:
                lo = 0x90
            elif b0 == 0xF4:
                hi = 0x8F
        else:
            out.append(0xFFFD)
            i += 1
            continue
        ok = i + need <= n - 1
        if ok:
            b1 = data[i + 1]
            ok = lo <= b1 <= hi
            cp = (cp << 6) | (b1 & 0x3F)
            for k in range(2, need + 1):
                if not ok:
                    break
                bk = data[i + k]
                ok = 0x80 <= bk <= 0xBF
                cp = (cp << 6) | (bk & 0x3F)
        if ok:
            out.append(cp)
            i += need + 1
        else:
            out.append(0xFFFD)
            i += 1
    return out


def runes_text(runes):
    return "".join(chr(r) for r in runes)


def utf8(runes):
    return runes_text(runes).encode("utf-8")


SAFE = set(range(32, 127)) | {9, 10, 13}


def g_runes(runes):
    """Gallina term of type list rune: ASCII runs as string literals (coqc reads them much faster
    than number lists), everything else as numbers."""
    parts, i, n = [], 0, len(runes)
    while i < n:
        j = i
        if runes[i] in SAFE:
            while j < n and runes[j] in SAFE:
                j += 1
            parts.append('runes_of_ascii "%s"' % runes_text(runes[i:j]).replace('"', '""'))
        else:
            while j < n and runes[j] not in SAFE:
                j += 1
            parts.append("[%s]%%N" % "; ".join(str(r) for r in runes[i:j]))
        i = j
    if not parts:
        return "(@nil rune)"
    return "(" + " ++ ".join(parts) + ")"


def digest(s):
    """Syntax/Digest.v digest of a canonical string."""
    b = s.encode("latin-1")
    h1, h2 = 7, 11
    for c in b:
        h1 = (h1 * 1000003 + c + 1) & 0x7FFFFFFFFFFFFFFF
        h2 = (h2 * 31415927 + c + 1) & 0x7FFFFFFFFFFFFFFF
    return "%d:%d:%d" % (len(b), h1, h2)


# ------------------------------------------------------------------ canonical text (ShowPT.v)

def esc(b):
    if isinstance(b, str):
        b = b.encode("utf-8")
    out = []
    for c in b:
        if 32 <= c <= 126 and c not in (34, 92):
            out.append(chr(c))
        else:
            out.append("\\x%02x" % c)
    return '"' + "".join(out) + '"'


def g_text(s):
    b = s.encode("utf-8") if isinstance(s, str) else s
    if all(32 <= c <= 126 for c in b):
        return '"%s"' % b.decode("ascii").replace('"', '""')
    return "(string_of_bytes [%s]%%N)" % "; ".join(str(c) for c in b)


# ------------------------------------------------------------------ lexer dump

def eof_position(runes):
    """DERIVED: where the lexer stands at the end (LexerATNSimulator.Consume: only \\n breaks a line)."""
    line, col = 1, 0
    for r in runes:
        if r == 10:
            line, col = line + 1, 0
        else:
            col += 1
    return line, col


def lex_tokens(resp, runes):
    """The hook's "lex" answer as a list of (type, text, line, col, hidden), EOF token appended."""
    toks = [(t[0], t[1], t[2], t[3], t[4] != 0) for t in (resp.get("tokens") or [])]
    line, col = eof_position(runes)
    toks.append((T_EOF, EOF_TEXT, line, col, False))
    return toks


def show_toks(toks):
    if toks is None:
        return "ERR"
    return "[" + " ".join("<%d,%d,%d,%s,%s>" % (t[0], t[2], t[3], "h" if t[4] else "d", esc(t[1])) for t in toks) + "]"


def g_toks(toks):
    return "[" + "; ".join("mkTok %d %s %d %d %s" % (t[0], g_text(t[1]), t[2], t[3], "true" if t[4] else "false")
                           for t in toks) + "]"


# ------------------------------------------------------------------ parse tree dump

class Shape(Exception):
    """The dumped tree does not have the shape of an error-free parse."""


class Tok:
    def __init__(self, ty, idx, line, col, text):
        self.ty, self.idx, self.line, self.col, self.text = ty, idx, line, col, text

    def show(self):
        return "<%d,%d,%d,%d,%s>" % (self.ty, self.idx, self.line, self.col, esc(self.text))

    def gallina(self):
        return "(mkPtok %d %s %d %d %d)" % (self.ty, g_text(self.text), self.line, self.col, self.idx)

    def first(self):
        return self

    def last(self):
        return self


class Node:
    """A rule context. name: canonical name; ctor: Gallina constructor; kids: Tok | Node | Wrap | None | list | Pair."""

    def __init__(self, name, ctor, kids):
        self.name, self.ctor, self.kids = name, ctor, kids

    def first(self):
        for k in flat(self.kids):
            return k.first()
        raise Shape("empty rule " + self.name)

    def last(self):
        f = flat(self.kids)
        if not f:
            raise Shape("empty rule " + self.name)
        return f[-1].last()

    def span(self):
        return self.first(), self.last()

    def show(self):
        a, b = self.span()
        return "(%s @%s..%s %s)" % (self.name, a.show(), b.show(), " ".join(show(k) for k in self.kids))

    def gallina(self):
        a, b = self.span()
        return "(%s (mkSpan %s %s) %s)" % (self.ctor, a.gallina(), b.gallina(), " ".join(gallina(k) for k in self.kids))


class Wrap:
    """A constructor of the model that is not a rule context of its own (MKDigits, MIDecl, DPacket ...)."""

    def __init__(self, ctor, kid):
        self.ctor, self.kid = ctor, kid

    def first(self):
        return self.kid.first()

    def last(self):
        return self.kid.last()

    def show(self):
        return show(self.kid)

    def gallina(self):
        return "(%s %s)" % (self.ctor, gallina(self.kid))


class Pair:
    def __init__(self, a, b):
        self.a, self.b = a, b

    def first(self):
        return self.a.first()

    def last(self):
        return self.b.last()

    def show(self):
        return self.a.show() + " " + self.b.show()

    def gallina(self):
        return "(%s, %s)" % (self.a.gallina(), self.b.gallina())


def flat(kids):
    out = []
    for k in kids:
        if k is None:
            continue
        if isinstance(k, list):
            out.extend(flat(k))
        else:
            out.append(k)
    return out


def show(k):
    if k is None:
        return "-"
    if isinstance(k, list):
        return "[" + " ".join(show(x) for x in k) + "]"
    return k.show()


def gallina(k):
    if k is None:
        return "None"
    if isinstance(k, list):
        return "[" + "; ".join(gallina(x) for x in k) + "]"
    if isinstance(k, Opt):
        return "(Some %s)" % gallina(k.kid)
    return k.gallina()


class Opt:
    """A present optional element (prints as the element, Gallina: Some)."""

    def __init__(self, kid):
        self.kid = kid

    def first(self):
        return self.kid.first()

    def last(self):
        return self.kid.last()

    def show(self):
        return show(self.kid)

    def gallina(self):
        return "(Some %s)" % gallina(self.kid)


class Cur:
    """Strict cursor over the children of a dumped rule node."""

    def __init__(self, node, rule, cols):
        if node.get("r") != rule:
            raise Shape("expected rule %s, got %s" % (rule, json.dumps(node)[:80]))
        self.rule, self.kids, self.i, self.cols = rule, node["c"], 0, cols
        self.alt = node["a"]

    def peek(self):
        return self.kids[self.i] if self.i < len(self.kids) else None

    def peek_type(self):
        k = self.peek()
        return k.get("t") if k is not None and "t" in k else None

    def peek_rule(self):
        k = self.peek()
        return k.get("r") if k is not None else None

    def tok(self, *types):
        k = self.peek()
        if k is None or "t" not in k or k["t"] not in types:
            raise Shape("%s: expected token %s at child %d, got %s" % (self.rule, types, self.i, json.dumps(k)[:80]))
        self.i += 1
        return mk_tok(k, self.cols)

    def opt_tok(self, ty):
        if self.peek_type() == ty:
            return Opt(self.tok(ty))
        return None

    def sub(self, rule):
        k = self.peek()
        if k is None or k.get("r") != rule:
            raise Shape("%s: expected rule %s at child %d, got %s" % (self.rule, rule, self.i, json.dumps(k)[:80]))
        self.i += 1
        return k

    def end(self):
        if self.i != len(self.kids):
            raise Shape("%s: %d children left over" % (self.rule, len(self.kids) - self.i))


def mk_tok(k, cols):
    if "e" in k:
        raise Shape("error node")
    idx = k["i"]
    ref = cols.get(idx)
    if ref is None or ref[0] != k["t"] or ref[1] != k["x"] or ref[2] != k["l"]:
        raise Shape("terminal %s does not agree with token %s of the lex dump" % (json.dumps(k), ref))
    return Tok(k["t"], idx, k["l"], ref[3], k["x"])


def alt_name(c):
    return c.alt.replace("*gen.", "").replace("*grammar.", "").replace("Context", "")


def t_basic_type(n, cols):
    c = Cur(n, "basicType", cols)
    t = c.tok(*BASIC)
    c.end()
    return Node("basicType", "mkBasicType", [t])


def t_fixed_string(n, cols):
    c = Cur(n, "fixedString", cols)
    o = c.tok(12, 14)
    d = c.tok(T_DIGITS)
    r = c.tok(13)
    c.end()
    return Node("fixedString", "mkFixedString", [o, d, r])


def t_dynamic_string(n, cols):
    c = Cur(n, "dynamicString", cols)
    t = c.tok(15, 16)
    c.end()
    return Node("dynamicString", "mkDynamicString", [t])


def t_type(n, cols):
    c = Cur(n, "type", cols)
    r = c.peek_rule()
    if r == "basicType":
        out = Node("type", "TyBasic", [t_basic_type(c.sub(r), cols)])
    elif r == "fixedString":
        out = Node("type", "TyFixed", [t_fixed_string(c.sub(r), cols)])
    elif r == "dynamicString":
        out = Node("type", "TyDynamic", [t_dynamic_string(c.sub(r), cols)])
    else:
        raise Shape("type: unexpected child")
    c.end()
    return out


def t_value(n, cols):
    c = Cur(n, "value", cols)
    if c.peek_rule() == "type":
        out = Node("value.type", "VType", [t_type(c.sub("type"), cols)])
    else:
        ty = c.peek_type()
        names = {T_STRING: ("value.string", "VString"), T_DIGITS: ("value.digits", "VDigits"),
                 T_PADDING_CHAR: ("value.paddingChar", "VPaddingChar"), 10: ("value.true", "VTrue"), 11: ("value.false", "VFalse")}
        if ty not in names:
            raise Shape("value: unexpected child")
        out = Node(names[ty][0], names[ty][1], [c.tok(ty)])
    c.end()
    return out


def t_three(n, cols, rule, ctor, t0, t1, t2):
    c = Cur(n, rule, cols)
    a, b, d = c.tok(t0), c.tok(t1), c.tok(t2)
    c.end()
    return Node(rule, ctor, [a, b, d])


def t_calculated_from(n, cols):
    return t_three(n, cols, "calculatedFromAttribute", "mkCalculatedFrom", 5, T_STRING, 6)


def t_length_of(n, cols):
    return t_three(n, cols, "lengthOfAttribute", "mkLengthOf", 7, T_IDENT, 6)


def t_tag_attr(n, cols):
    return t_three(n, cols, "tagAttribute", "mkTagAttr", 9, T_DIGITS, 6)


def t_padding_attr(n, cols):
    c = Cur(n, "paddingAttribute", cols)
    a, o = c.tok(32), c.tok(8)
    p = c.opt_tok(T_PADDING_CHAR)
    r = c.tok(6)
    c.end()
    return Node("paddingAttribute", "mkPaddingAttr", [a, o, p, r])


def t_field_attribute(n, cols):
    c = Cur(n, "fieldAttribute", cols)
    r = c.peek_rule()
    table = {"lengthOfAttribute": ("FALengthOf", t_length_of), "calculatedFromAttribute": ("FACalculatedFrom", t_calculated_from),
             "tagAttribute": ("FATag", t_tag_attr), "paddingAttribute": ("FAPadding", t_padding_attr)}
    if r not in table:
        raise Shape("fieldAttribute: unexpected child")
    out = Node("fieldAttribute", table[r][0], [table[r][1](c.sub(r), cols)])
    c.end()
    return out


def t_meta_decl(n, cols):
    c = Cur(n, "metaDataDeclaration", cols)
    ty = t_type(c.sub("type"), cols)
    name = c.tok(T_IDENT)
    doc = c.opt_tok(T_DOC)
    comma = c.tok(T_COMMA)
    c.end()
    return Node("metaDataDeclaration", "mkMetaDecl", [ty, name, doc, comma])


def t_ref_meta_decl(n, cols):
    c = Cur(n, "refMetaDataDeclaration", cols)
    ty = c.tok(T_IDENT)
    name = c.tok(T_IDENT)
    doc = c.opt_tok(T_DOC)
    comma = c.tok(T_COMMA)
    c.end()
    return Node("refMetaDataDeclaration", "mkRefMetaDecl", [ty, name, doc, comma])


def t_len_or_sum(n, cols, rule, ctor, attr_rule, attr_fn):
    c = Cur(n, rule, cols)
    ty = Opt(t_type(c.sub("type"), cols)) if c.peek_rule() == "type" else None
    name = c.tok(T_IDENT)
    attr = attr_fn(c.sub(attr_rule), cols)
    doc = c.opt_tok(T_DOC)
    comma = c.tok(T_COMMA)
    c.end()
    return Node(rule, ctor, [ty, name, attr, doc, comma])


def t_length_field_decl(n, cols):
    return t_len_or_sum(n, cols, "lengthFieldDeclaration", "mkLengthFieldDecl", "lengthOfAttribute", t_length_of)


def t_checksum_field_decl(n, cols):
    return t_len_or_sum(n, cols, "checkSumFieldDeclaration", "mkChecksumFieldDecl", "calculatedFromAttribute", t_calculated_from)


def t_key_list(n, cols):
    c = Cur(n, "list", cols)
    o = c.tok(18)
    first = c.tok(T_DIGITS, T_STRING)
    rest = []
    while c.peek_type() == T_COMMA:
        comma = c.tok(T_COMMA)
        rest.append(Pair(comma, c.tok(T_DIGITS, T_STRING)))
    r = c.tok(13)
    c.end()
    return Node("list", "mkKeyList", [o, first, rest, r])


def t_match_pair(n, cols):
    c = Cur(n, "matchPair", cols)
    if c.peek_rule() == "list":
        key = Wrap("MKList", t_key_list(c.sub("list"), cols))
    elif c.peek_type() == T_DIGITS:
        key = Wrap("MKDigits", c.tok(T_DIGITS))
    elif c.peek_type() == T_STRING:
        key = Wrap("MKString", c.tok(T_STRING))
    else:
        raise Shape("matchPair: unexpected key")
    colon = c.tok(39)
    ident = c.tok(T_IDENT)
    comma = c.opt_tok(T_COMMA)
    c.end()
    return Node("matchPair", "mkMatchPair", [key, colon, ident, comma])


def t_match_field_decl(n, cols):
    c = Cur(n, "matchFieldDeclaration", cols)
    m, k, a, nm, o = c.tok(38), c.tok(T_IDENT), c.tok(17), c.tok(T_IDENT), c.tok(2)
    pairs = []
    while c.peek_rule() == "matchPair":
        pairs.append(t_match_pair(c.sub("matchPair"), cols))
    if not pairs:
        raise Shape("matchFieldDeclaration: no pair")
    r = c.tok(3)
    c.end()
    return Node("matchFieldDeclaration", "mkMatchFieldDecl", [m, k, a, nm, o, pairs, r])


def t_iner_object_decl(n, cols):
    c = Cur(n, "inerObjectDeclaration", cols)
    name, o = c.tok(T_IDENT), c.tok(2)
    fields = []
    while c.peek_rule() == "fieldDefinition":
        fields.append(t_field_def(c.sub("fieldDefinition"), cols))
    if not fields:
        raise Shape("inerObjectDeclaration: no field")
    r = c.tok(3)
    c.end()
    return Node("inerObjectDeclaration", "InerObjectDecl", [name, o, fields, r])


def t_field_def(n, cols):
    c = Cur(n, "fieldDefinition", cols)
    alt = alt_name(c)
    if alt == "InerObjectField":
        rep = c.opt_tok(36)
        d = t_iner_object_decl(c.sub("inerObjectDeclaration"), cols)
        kids = [rep, d, c.tok(T_COMMA)]
    elif alt == "MetaField":
        rep = c.opt_tok(36)
        kids = [rep, t_meta_decl(c.sub("metaDataDeclaration"), cols)]
    elif alt == "ObjectField":
        rep = c.opt_tok(36)
        ft = c.tok(T_IDENT)
        fn = c.opt_tok(T_IDENT)
        doc = c.opt_tok(T_DOC)
        kids = [rep, ft, fn, doc, c.tok(T_COMMA)]
    elif alt == "LengthField":
        kids = [t_length_field_decl(c.sub("lengthFieldDeclaration"), cols)]
    elif alt == "CheckSumField":
        kids = [t_checksum_field_decl(c.sub("checkSumFieldDeclaration"), cols)]
    elif alt == "MatchField":
        kids = [t_match_field_decl(c.sub("matchFieldDeclaration"), cols), c.tok(T_COMMA)]
    else:
        raise Shape("fieldDefinition: context class " + alt)
    c.end()
    return Node("fieldDefinition." + alt, alt, kids)


def t_field_with_attr(n, cols):
    c = Cur(n, "fieldDefinitionWithAttribute", cols)
    attrs = []
    while c.peek_rule() == "fieldAttribute":
        attrs.append(t_field_attribute(c.sub("fieldAttribute"), cols))
    d = t_field_def(c.sub("fieldDefinition"), cols)
    c.end()
    return Node("fieldDefinitionWithAttribute", "mkFieldWithAttr", [attrs, d])


def t_packet_def(n, cols):
    c = Cur(n, "packetDefinition", cols)
    root = c.opt_tok(34)
    kw, name, o = c.tok(35), c.tok(T_IDENT), c.tok(2)
    fields = []
    while c.peek_rule() == "fieldDefinitionWithAttribute":
        fields.append(t_field_with_attr(c.sub("fieldDefinitionWithAttribute"), cols))
    r = c.tok(3)
    c.end()
    return Node("packetDefinition", "mkPacketDef", [root, kw, name, o, fields, r])


def t_meta_def(n, cols):
    c = Cur(n, "metaDataDefinition", cols)
    kw, name, o = c.tok(37), c.tok(T_IDENT), c.tok(2)
    items = []
    while c.peek_rule() in ("metaDataDeclaration", "refMetaDataDeclaration"):
        if c.peek_rule() == "metaDataDeclaration":
            items.append(Wrap("MIDecl", t_meta_decl(c.sub("metaDataDeclaration"), cols)))
        else:
            items.append(Wrap("MIRef", t_ref_meta_decl(c.sub("refMetaDataDeclaration"), cols)))
    r = c.tok(3)
    c.end()
    return Node("metaDataDefinition", "mkMetaDef", [kw, name, o, items, r])


def t_option_decl(n, cols):
    c = Cur(n, "optionDeclaration", cols)
    name, eq = c.tok(T_IDENT), c.tok(4)
    v = t_value(c.sub("value"), cols)
    semi = c.opt_tok(41)
    c.end()
    return Node("optionDeclaration", "mkOptionDecl", [name, eq, v, semi])


def t_option_def(n, cols):
    c = Cur(n, "optionDefinition", cols)
    kw, o = c.tok(1), c.tok(2)
    decls = []
    while c.peek_rule() == "optionDeclaration":
        decls.append(t_option_decl(c.sub("optionDeclaration"), cols))
    r = c.tok(3)
    c.end()
    return Node("optionDefinition", "mkOptionDef", [kw, o, decls, r])


class Packet:
    def __init__(self, start, stop, defs):
        self.start, self.stop, self.defs = start, stop, defs

    def show(self):
        return "(packet %s %s %s)" % (self.start.show(), show(self.stop), show(self.defs))

    def gallina(self):
        return "(mkPacket %s %s %s)" % (self.start.gallina(), gallina(self.stop), gallina(self.defs))


def translate(parse_resp, toks):
    """The hook's "parse" answer (errors == 0) as a Packet; toks: lex_tokens() of the same text."""
    cols = {i: t for i, t in enumerate(toks)}
    c = Cur(parse_resp["tree"], "packet", cols)
    defs = []
    table = {"packetDefinition": ("DPacket", t_packet_def), "metaDataDefinition": ("DMeta", t_meta_def),
             "optionDefinition": ("DOption", t_option_def)}
    while c.peek() is not None:
        r = c.peek_rule()
        if r not in table:
            raise Shape("packet: unexpected child")
        defs.append(Wrap(table[r][0], table[r][1](c.sub(r), cols)))
    c.end()
    # DERIVED: GetStart() = LT(1) on entry, GetStop() = LT(-1) on exit
    default = [Tok(t[0], i, t[2], t[3], t[1]) for i, t in enumerate(toks) if not t[4]]
    start = default[0]
    stop = Opt(defs[-1].last()) if defs else None
    if defs and defs[0].first().idx != start.idx:
        raise Shape("packet: first child does not start at the first token")
    nt = parse_resp.get("ntokens")
    if nt is not None and nt != len(toks):
        raise Shape("parse dump has %s tokens, lex dump (plus EOF) %d" % (nt, len(toks)))
    return Packet(start, stop, defs)


def show_pt(p):
    return "ERR" if p is None else p.show()
