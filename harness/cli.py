"""C16 correspondence: coq/Cli/Cli.v (exec, lib_format) against the real entry points.

For every case the real binary (.build/fin-protoc) is run in a fresh scratch directory under
.build/cli_scratch/ and the real c-shared library (.build/libpacketdsl.so) is called through ctypes
(in a worker process); the model is evaluated by vm_compute inside coqc with its parameters F, P, G
instantiated by tables holding the real library results obtained through the hook (ops "format",
"visit", "gen").  Compared: exit status, standard output bytes, and the resulting directory tree
(paths and contents), resp. the returned C string.

Canonicalisation (only where the real behaviour is not a function of the input):
  * WriteCodeToFile ranges over a Go map: the "Generated code for packet:" lines of ONE generator
    come in any order, so within each generator's block the lines are sorted on both sides;
    everything else on stdout is compared byte for byte, in order.
  * paths are compared after os.path.normpath ("out/j/main/java//A.java" is the file
    out/j/main/java/A.java); the model's writes are replayed oldest first, so later writes win.
Exit status 0 iff no mismatch.
"""
import collections
import ctypes
import itertools
import json
import os
import shutil
import subprocess
import sys

sys.path.insert(0, os.path.dirname(os.path.abspath(__file__)))
import core

LANGS = ["lua", "rust", "go", "java", "python", "cpp"]          # compile.go's generator order
COQ_LANG = {"lua": "Lua", "rust": "Rust", "go": "Go", "java": "Java", "python": "Python", "cpp": "Cpp"}
SHORT = {"lua": "l", "rust": "r", "go": "g", "java": "j", "python": "p", "cpp": "c"}
LONG = {"lua": "lua_output", "rust": "rs_output", "go": "go_output", "java": "java_output", "python": "py_output",
        "cpp": "cpp_output"}
SCRATCH = os.path.join(core.BUILD, "cli_scratch")
GEN_PREFIX = b"Generated code for packet: "


def u8(s):
    return s.encode("utf-8", "surrogateescape")


# ------------------------------------------------------------------ corpus

def texts():
    sample = open(os.path.join(core.REPO, "internal/parser/testdata/sample_binary.dsl"), encoding="utf-8").read()
    chat = open(os.path.join(core.REPO, "chat/proto/chat.dsl"), encoding="utf-8").read()
    return collections.OrderedDict([
        # valid, every generator works (has a root packet)
        ("opts", "options {\n    LittleEndian = true;\n    StringPrefixLenType = u16;\n}\n\nroot packet R {\n    u16 t,\n"
                 "    u32 len @lengthOf(Body),\n    match t as Body {\n        1 : A,\n    },\n}\n"
                 "packet A { u8 x, string s, char[4] c, repeat u16 xs, }"),
        ("cjk", chat),
        # valid, but without a root packet: the Lua, Python and C++ generators panic
        ("small", "packet A {\n    u8 x,\n}\n"),
        ("ugly", "packet   A{u8 x,string s,}"),
        ("comment", "// leading comment\npacket A {\n  u8 x, // trailing\n}\n"),
        # characters that are special to printf-style formatting, shells and C strings
        ("percent", "// 100% of %s %d %v\npacket Fee {\n    u32 rate `fee rate in % of notional %!`, // 50%\n    u8 side,\n}\n"),
        # valid and empty
        ("empty", ""),
        ("blank", "  \n\n"),
        # parse, but the visitor reports diagnostics
        ("sample", sample),
        ("badopt", "options { Foo = 1; }\npacket A { u8 x, }"),
        ("dupopt", "options { LittleEndian = true; LittleEndian = false; }\npacket A { u8 x, }"),
        ("undef", "packet A { B b, }"),
        # syntax errors
        ("syn1", "packet A {u8 x"),
        ("syn2", "packet { }"),
        ("dash", "-x"),
        ("eqs", "=a=b"),
    ])


def cstr(b):
    i = b.find(b"\0")
    return b if i < 0 else b[:i]


Case = collections.namedtuple("Case", "id kind group args files text")
# kind "cli": args = argv[1:], files = {path: bytes} present before the run
# kind "lib": text = bytes handed to FormatPacketDslExport


def build_cases(T):
    cases = []

    def cli(group, args, files=None):
        cases.append(Case("c%03d" % len(cases), "cli", group, list(args), dict(files or {}), None))

    def lib(group, b):
        cases.append(Case("c%03d" % len(cases), "lib", group, None, None, b))

    keep = {"keep.txt": b"untouched\n"}

    def withfile(name, **more):
        d = dict(keep)
        d["in.dsl"] = u8(T[name])
        d.update(more)
        return d

    # ---- format -d, the four spellings
    for name, t in T.items():
        if t == "":
            continue
        forms = [["-d", t], ["--dsl", t], ["--dsl=" + t], ["-d" + t]]
        for i, f in enumerate(forms):
            # two spellings for every text, all four for some
            if i < 2 or name in ("opts", "syn1", "dash", "eqs", "blank"):
                cli("format -d", ["format"] + f, keep)
    cli("format -d (empty)", ["format", "-d", ""], keep)
    cli("format -d (empty)", ["format", "--dsl="], keep)
    # ---- format -f
    for name in T:
        forms = [["-f", "in.dsl"], ["--file", "in.dsl"], ["--file=in.dsl"], ["-fin.dsl"], ["-f=in.dsl"]]
        for i, f in enumerate(forms):
            if i < 2 or name in ("opts", "syn1", "empty"):
                cli("format -f", ["format"] + f, withfile(name))
    cli("format -f (missing file)", ["format", "-f", "nofile.dsl"], keep)
    cli("format -f (file in a subdirectory)", ["format", "-f", "sub/dir/x.dsl"],
        dict(keep, **{"sub/dir/x.dsl": u8(T["ugly"])}))
    cli("format -f (NUL byte in the file)", ["format", "-f", "in.dsl"], dict(keep, **{"in.dsl": b"packet A {u8 x,}\0junk"}))
    # ---- format -d together with -f
    for name in ("ugly", "syn1", "opts"):
        cli("format -d X -f file", ["format", "-d", T[name], "-f", "in.dsl"], withfile("small"))
        cli("format -d X -f file", ["format", "-f", "in.dsl", "--dsl", T[name]], withfile("syn2"))
        cli("format -d X -f newfile", ["format", "-d", T[name], "-f", "new.dsl"], keep)
    cli("format -d '' -f file", ["format", "-d", "", "-f", "in.dsl"], withfile("ugly"))
    # ---- format, other command lines
    for a in (["format"], ["format", "x"], ["format", "-d", "packet A {}", "extra"], ["format", "--", "-d", "x"],
              ["format", "--help"], ["format", "-h"], ["format", "-hd", "x"], ["format", "-dh", "x"],
              ["format", "-h=false", "-d", T["ugly"]], ["format", "--help=false", "-d", T["ugly"]],
              ["format", "--help=zz"], ["format", "-h=maybe"], ["format", "-d"], ["format", "--dsl"], ["format", "-f"],
              ["format", "--=x"], ["format", "---x"], ["format", "--zzz"], ["format", "--zzz=1"], ["format", "-x"],
              ["format", "-dx", "-z"], ["format", "-test.v", "-d", T["ugly"]], ["format", "-l", "out"],
              ["format", "--lua_output", "o"], ["format", "-d", T["ugly"], "-d", T["small"]],
              ["format", "-f", "a", "-f", "in.dsl"], ["format", "-", "-d", "x"], ["format", "", "-d", "x"]):
        cli("format (other)", a, withfile("small"))
    # ---- the root command and argument rewriting
    for a in ([], ["help"], ["help", "format"], ["--help"], ["-h"], ["completion", "bash"], ["--version"], ["-x"],
              ["frmat", "-d", "x"], ["compile"], ["compile", "--help"], ["compile", "-h"], ["compile", "help"],
              ["in.dsl"], ["--", "format", "-d", "x"], ["-d", "x"], ["--dsl", "x"]):
        cli("root / rewriting", a, withfile("opts"))
    # ---- compile: every subset of the output flags, alternating with/without the word "compile"
    n = 0
    for k in range(0, 7):
        for sub in itertools.combinations(LANGS, k):
            flags = []
            for l in sub:
                flags += ["-" + SHORT[l], "out/" + l]
            args = (["compile"] if n % 2 == 0 else []) + ["-f", "in.dsl"] + flags
            cli("compile (subset of %d)" % k, args, withfile("opts"))
            n += 1
    # the other word-form for some subsets
    for sub in ((), ("lua",), ("go", "cpp"), tuple(LANGS)):
        flags = []
        for l in sub:
            flags += ["-" + SHORT[l], "out/" + l]
        for word in ([], ["compile"]):
            cli("compile (both word forms)", word + ["-f", "in.dsl"] + flags, withfile("cjk"))
    # spellings of the flags, flag order, repeated flags, shared and odd directories
    all_long = ["--file", "in.dsl"] + sum((["--" + LONG[l], "o_" + l] for l in LANGS), [])
    all_eq = ["--file=in.dsl"] + ["--%s=o_%s" % (LONG[l], l) for l in LANGS]
    all_att = ["-fin.dsl"] + ["-%so_%s" % (SHORT[l], l) for l in LANGS]
    all_seq = ["-f=in.dsl"] + ["-%s=o_%s" % (SHORT[l], l) for l in LANGS]
    rev = sum((["-" + SHORT[l], "o_" + l] for l in reversed(LANGS)), []) + ["-f", "in.dsl"]
    for a in (all_long, ["compile"] + all_eq, all_att, ["compile"] + all_seq, rev,
              ["-f", "in.dsl", "-l", "a", "-l", "b"], ["compile", "-f", "x.dsl", "-f", "in.dsl", "-g", "g"],
              ["-f", "in.dsl", "-l", "same", "-r", "same", "-g", "same", "-j", "same", "-p", "same", "-c", "same"],
              ["-f", "in.dsl", "-l", "out/", "-g", "./o2", "-r", "a/./c"], ["-f", "in.dsl", "-g", "."],
              ["compile", "-f", "in.dsl", "-l", "", "-g", "g"], ["compile", "pos1", "-f", "in.dsl", "pos2", "-p", "py"],
              ["-f", "in.dsl", "--", "-g", "g"], ["-hf", "in.dsl", "-g", "g"], ["-f", "in.dsl", "-g"],
              ["-f", "in.dsl", "--go_output"], ["-f", "in.dsl", "-d", "x"], ["-f", "in.dsl", "--dsl=x"],
              ["-f", "in.dsl", "-gl", "x"], ["-test.run", "-f", "in.dsl", "-g", "g"]):
            cli("compile (flag spellings)", a, withfile("opts"))
    # output over existing files, input file inside the output directory
    cli("compile (overwrites existing)", ["-f", "in.dsl", "-l", "out"],
        dict(withfile("opts"), **{"out/r.lua": b"old content", "out/other.lua": b"stays"}))
    cli("compile (overwrites existing)", ["-f", "out/in.dsl", "-g", "out"],
        dict(keep, **{"out/in.dsl": u8(T["opts"])}))
    # ... over existing files that are LONGER than what is written (a stale tail must not survive), in every target's
    # directory, next to files of other names that must stay
    stale = b"stale content of an earlier, longer run\n" * 125
    names = {"lua": ["r.lua"], "rust": ["r.rs", "a.rs", "lib.rs"], "go": ["r.go", "a.go", "r_test.go", "a_test.go"],
             "java": ["main/java/R.java", "main/java/A.java", "test/java/RTest.java"], "python": ["r.py", "r_test.py"],
             "cpp": ["include/r.hpp", "test/r_test.cpp"]}
    pre = {}
    for l in LANGS:
        for nm in names[l]:
            pre["o_%s/%s" % (l, nm)] = stale
        pre["o_%s/unrelated.txt" % l] = b"stays\n"
    cli("compile (overwrites longer existing files)", ["-f", "in.dsl"] + sum((["-" + SHORT[l], "o_" + l] for l in LANGS), []),
        dict(withfile("opts"), **pre))
    # the other texts: panicking generators, diagnostics, syntax errors, empty, missing
    for name in ("small", "ugly", "comment", "empty", "blank"):
        for sub in (("rust",), ("go", "java"), ("rust", "go", "java"), ("lua",), ("rust", "python"), ("rust", "cpp", ),
                    ("go", "python", "cpp"), tuple(LANGS)):
            if name in ("ugly", "comment", "blank") and len(sub) not in (2, 6):
                continue
            flags = sum((["-" + SHORT[l], "o/" + l] for l in sub), [])
            cli("compile (no root packet: %s)" % name, ["-f", "in.dsl"] + flags, withfile(name))
    for name in ("sample", "badopt", "dupopt", "undef", "syn1", "syn2", "dash"):
        for sub, word in (((), []), (("lua", "go"), ["compile"]), (tuple(LANGS), [])):
            flags = sum((["-" + SHORT[l], "o/" + l] for l in sub), [])
            cli("compile (rejected input: %s)" % ("diagnostics" if name in ("sample", "badopt", "dupopt", "undef") else "syntax"),
                word + ["-f", "in.dsl"] + flags, withfile(name))
    cli("compile (missing file)", ["-f", "nofile.dsl", "-g", "g"], keep)
    cli("compile (missing file)", ["compile", "-g", "g"], keep)
    # ---- the library
    for name, t in T.items():
        lib("lib", u8(t))
    for b in (b"packet A {u8 x,}\0junk that is not DSL", b"\0packet A {}", b"packet A {u8 x\0,}", b"packet\0", b"\0",
              u8(T["opts"]) + b"\0" + u8(T["syn1"]), u8(T["syn1"]) + b"\0" + u8(T["opts"])):
        lib("lib (NUL byte)", b)
    return cases


# ------------------------------------------------------------------ real runs

def tree(root):
    out = {}
    for d, _, fs in os.walk(root):
        for f in fs:
            p = os.path.join(d, f)
            out[os.path.relpath(p, root)] = open(p, "rb").read()
    return out


def run_cli(case):
    d = os.path.join(SCRATCH, case.id)
    shutil.rmtree(d, ignore_errors=True)
    os.makedirs(d)
    for p, b in case.files.items():
        fp = os.path.join(d, p)
        os.makedirs(os.path.dirname(fp), exist_ok=True)
        with open(fp, "wb") as fh:
            fh.write(b)
    env = {k: v for k, v in os.environ.items() if k not in ("GOTRACEBACK",)}
    r = subprocess.run([os.path.join(core.BUILD, "fin-protoc")] + case.args, cwd=d, stdout=subprocess.PIPE,
                       stderr=subprocess.PIPE, env=env, timeout=120)
    return {"exit": r.returncode, "stdout": r.stdout, "tree": tree(d), "stderr": r.stderr}


def lib_worker():
    """Child process: one line of JSON (list of latin-1 strings) in, one line out."""
    lib = ctypes.CDLL(os.path.join(core.BUILD, "libpacketdsl.so"))
    lib.FormatPacketDslExport.argtypes = [ctypes.c_char_p]
    lib.FormatPacketDslExport.restype = ctypes.c_void_p
    libc = ctypes.CDLL(None)
    libc.free.argtypes = [ctypes.c_void_p]
    out = []
    for s in json.loads(sys.stdin.readline()):
        buf = ctypes.create_string_buffer(s.encode("latin-1"))       # the bytes and a terminating NUL
        p = lib.FormatPacketDslExport(buf)
        out.append(ctypes.string_at(p).decode("latin-1"))
        libc.free(p)
    sys.stdout.write(json.dumps(out) + "\n")
    sys.stdout.flush()
    os._exit(0)


def run_lib(byte_inputs):
    r = subprocess.run([sys.executable, os.path.abspath(__file__), "--lib-worker"],
                       input=json.dumps([b.decode("latin-1") for b in byte_inputs]) + "\n", stdout=subprocess.PIPE,
                       stderr=subprocess.PIPE, text=True, timeout=300)
    if r.returncode != 0:
        raise RuntimeError("library worker failed: " + r.stderr[-2000:])
    return [s.encode("latin-1") for s in json.loads(r.stdout.strip().splitlines()[-1])]


# ------------------------------------------------------------------ library results through the hook

class Lib:
    def __init__(self):
        self.hook = core.Hook()
        self.F = {}      # bytes -> (bytes, None | bytes)
        self.P = {}      # bytes -> ("syntax", msg) | ("model", noise, [(line, col, msg)])
        self.G = {}      # (bytes, hist tuple, lang) -> ("files", [(name, content)]) | ("error", msg) | ("panic",)

    def text_of(self, b):
        return b.decode("utf-8", "surrogateescape")

    def need_F(self, b):
        if b in self.F:
            return
        r = self.hook.ask({"op": "format", "text": self.text_of(b)})
        if "result" not in r:
            raise RuntimeError("hook format: %r" % r)
        self.F[b] = (u8(r["result"]), None if r["ok"] else u8(r["err"]))

    def need_P(self, b):
        if b in self.P:
            return
        r = self.hook.ask({"op": "visit", "text": self.text_of(b)})
        if r.get("syntax_error"):
            self.P[b] = ("syntax", u8(r["err"]))
            return
        if "model" not in r:
            raise RuntimeError("hook visit: %r" % r)
        m = r["model"]
        # packet_dsl_parser.go:111 fmt.Println("Options:", map[string]string): keys sorted, "k:v" separated by spaces
        noise = "Options: map[" + " ".join("%s:%s" % (k, m["options"][k]) for k in sorted(m["options"])) + "]\n"
        self.P[b] = ("model", u8(noise), [(e["line"], e["col"], u8(e["msg"])) for e in m["errors"]])

    def need_G(self, b, seq):
        """The generators of [seq], in that order, on one model of text b."""
        if not seq or all((b, tuple(seq[:i]), seq[i]) in self.G for i in range(len(seq))):
            return
        r = self.hook.ask({"op": "gen", "text": self.text_of(b), "langs": list(seq)})
        if "steps" not in r:
            raise RuntimeError("hook gen: %r" % {k: v for k, v in r.items() if k != "model"})
        for i, st in enumerate(r["steps"]):
            if "files" in st:
                v = ("files", sorted((u8(k), u8(c)) for k, c in st["files"].items()))
            elif "panic" in st:
                v = ("panic",)
            elif "error" in st:
                v = ("error", u8(st["error"]))
            else:
                raise RuntimeError("hook gen step: %r" % st)
            key = (b, tuple(seq[:i]), seq[i])
            if key in self.G and self.G[key] != v:
                raise RuntimeError("generator result is not a function of (text, history): %r" % (key[1:],))
            self.G[key] = v
            if v[0] != "files":
                break        # the real process is gone after a panic / Compile returns after an error


# ------------------------------------------------------------------ a Python replica of the argument handling,
# used ONLY to find out which library results a case can ask for (so that the tables are complete);
# a wrong guess shows up as an "<<undefined>>" marker in the model's output, i.e. as a mismatch.

def replica(args):
    """(file, {lang: dir}) as a rough reading of a compile command line."""
    req = {}
    file = ""
    rest = args[1:] if args[:1] == ["compile"] else args
    names = [("-f", "--file", "file")] + [("-" + SHORT[l], "--" + LONG[l], l) for l in LANGS]
    i = 0
    while i < len(rest):
        a = rest[i]
        if a == "--":
            break
        hit = None
        for sh, lg, key in names:
            if a == sh or a == lg:
                if i + 1 < len(rest):
                    hit = (key, rest[i + 1])
                    i += 1
                break
            if a.startswith(lg + "="):
                hit = (key, a[len(lg) + 1:])
                break
            if a.startswith(sh) and not a.startswith("--"):
                v = a[2:]
                hit = (key, v[1:] if v.startswith("=") and len(v) > 1 else v)
                break
        else:
            if a in ("-d", "--dsl"):
                i += 1
        if hit:
            if hit[0] == "file":
                file = hit[1]
            else:
                req[hit[0]] = hit[1]
        i += 1
    return file, req


def guess_queries(case, L):
    """Fill the tables with every library result the case can ask for; returns, for compile cases, the
    sizes of the file maps of the generators that run (in order), used to canonicalise stdout."""
    if case.kind == "lib":
        L.need_F(cstr(case.text))
        return []
    args = case.args
    files = case.files
    # every value that could be taken as -d, and every file content
    cands = set()
    for a in args:
        cands.add(a)
        for pre in ("--dsl=", "-d=", "-d"):
            if a.startswith(pre):
                cands.add(a[len(pre):])
    for c in cands:
        if c != "" and "\0" not in c:
            L.need_F(u8(c))
    for b in files.values():
        L.need_F(b)
    if args[:1] == ["format"]:
        return []
    file, req = replica(args)
    seq = [l for l in LANGS if req.get(l, "") != ""]
    blocks = []
    for p, b in files.items():
        L.need_P(b)
        pr = L.P[b]
        if pr[0] == "model" and not pr[2]:
            L.need_G(b, seq)
            if p == file:
                for i, l in enumerate(seq):
                    v = L.G.get((b, tuple(seq[:i]), l))
                    if not v or v[0] != "files":
                        break
                    blocks.append(len(v[1]))
    return blocks


# ------------------------------------------------------------------ Gallina

def g_bytes(b):
    """A Coq term of type string for arbitrary bytes."""
    if not b:
        return '""'
    parts = []
    cur = bytearray()
    raw = []

    def flush_cur():
        if cur:
            parts.append('"%s"' % cur.decode("latin-1").replace('"', '""'))
            cur.clear()

    def flush_raw():
        if raw:
            parts.append("bs [%s]%%N" % ";".join(str(x) for x in raw))
            raw.clear()

    for x in b:
        if 32 <= x < 127 or x == 10:
            flush_raw()
            cur.append(x)
        else:
            flush_cur()
            raw.append(x)
    flush_cur()
    flush_raw()
    return parts[0] if len(parts) == 1 and parts[0].startswith('"') else "(" + " ++ ".join(parts) + ")"


PRELUDE = """From FP Require Import Cli CliShow.
From Coq Require Import String Ascii List NArith ZArith Bool.
Import ListNotations.
Open Scope string_scope.
Set Printing Width 100000000.
Set Printing Depth 100000000.
Fixpoint bs (l : list N) : string := match l with [] => EmptyString | n :: r => String (ascii_of_N n) (bs r) end.
Fixpoint assoc {A : Type} (k : string) (l : list (string * A)) : option A :=
  match l with [] => None | (q, a) :: r => if String.eqb k q then Some a else assoc k r end.
Definition langs_eqb (a b : list lang) : bool :=
  Nat.eqb (length a) (length b) && forallb (fun p => lang_eqb (fst p) (snd p)) (combine a b).
Fixpoint gassoc (h : list lang) (l : lang) (t : list (list lang * lang * gen_result)) : option gen_result :=
  match t with [] => None | (h', l', r) :: rest => if langs_eqb h h' && lang_eqb l l' then Some r else gassoc h l rest end.
"""


def coq_source(cases, L, shards=1):
    out = []
    consts = {}

    def const(b):
        """Long strings are named once."""
        if len(b) < 40:
            return g_bytes(b)
        if b not in consts:
            consts[b] = "s%d" % len(consts)
            out.append("Definition %s : string := %s." % (consts[b], g_bytes(b)))
        return consts[b]

    def opt(x):
        return "None" if x is None else "(Some %s)" % const(x)

    frows = ["(%s, (%s, %s))" % (const(k), const(v[0]), opt(v[1])) for k, v in L.F.items()]
    prows = []
    for k, v in L.P.items():
        if v[0] == "syntax":
            prows.append("(%s, PSyntax %s)" % (const(k), const(v[1])))
        else:
            ds = "[" + "; ".join("((%d)%%Z, (%d)%%Z, %s)" % (a, c, const(m)) for a, c, m in v[2]) + "]"
            prows.append("(%s, PModel %s %s)" % (const(k), const(v[1]), ds))
    gby = collections.OrderedDict()
    for (b, hist, l), v in L.G.items():
        if v[0] == "files":
            r = "GFiles [" + "; ".join("(%s, %s)" % (const(n), const(c)) for n, c in v[1]) + "]"
        elif v[0] == "error":
            r = "GError %s" % const(v[1])
        else:
            r = "GPanic"
        gby.setdefault(b, []).append("([%s], %s, %s)" % ("; ".join(COQ_LANG[h] for h in hist), COQ_LANG[l], r))
    grows = ["(%s, [%s])" % (const(b), ";\n    ".join(rows)) for b, rows in gby.items()]
    # the rows reference constants, so emit the tables after them
    body = []
    body.append("Definition Ftab : list (string * (string * option string)) :=\n  [%s]." % ";\n   ".join(frows))
    body.append("Definition Ptab : list (string * parse_result) :=\n  [%s]." % ";\n   ".join(prows))
    body.append("Definition Gtab : list (string * list (list lang * lang * gen_result)) :=\n  [%s]." % ";\n   ".join(grows))
    body.append('Definition F (x : string) : string * option string := match assoc x Ftab with Some r => r | None => ("<<undefined F>>", None) end.')
    body.append('Definition P (x : string) : parse_result := match assoc x Ptab with Some r => r | None => PSyntax "<<undefined P>>" end.')
    body.append('Definition G (h : list lang) (l : lang) (x : string) : gen_result :=\n'
                '  match assoc x Gtab with Some t => match gassoc h l t with Some r => r | None => GError "<<undefined G>>" end\n'
                '  | None => GError "<<undefined G>>" end.')
    evals = []
    for c in cases:
        if c.kind == "lib":
            evals.append('Eval vm_compute in ("<<<%s>>>" ++ esc (lib_format F %s)).' % (c.id, const(c.text)))
        else:
            fsl = "[" + "; ".join("(%s, %s)" % (g_bytes(u8(p)), const(b)) for p, b in c.files.items()) + "]"
            argl = "[" + "; ".join(const(u8(a)) for a in c.args) + "]"
            evals.append('Eval vm_compute in ("<<<%s>>>" ++ show_result (exec F P G %s %s)).' % (c.id, argl, fsl))
    if shards <= 1:
        return "\n".join(out + body + evals) + "\n"
    # the same tables in every shard, the evaluations dealt round-robin
    return ["\n".join(out + body + evals[k::shards]) + "\n" for k in range(shards)]


def unesc(s):
    out = bytearray()
    i = 0
    while i < len(s):
        if s[i] == "\\" and s[i + 1] == "x":
            out.append(int(s[i + 2:i + 4], 16))
            i += 4
        else:
            out.append(ord(s[i]))
            i += 1
    return bytes(out)


def parse_world(s):
    if s == "NONE":
        return None
    parts = s.split("\\;")
    assert parts[0] == "W", s[:50]
    files = []
    for f in parts[3:]:
        p, c = f.split("\\,")
        files.append((unesc(p), unesc(c)))
    return {"exit": int(parts[1]), "stdout": unesc(parts[2]), "files": files}


# ------------------------------------------------------------------ comparison

def canon_stdout(b, blocks):
    """Sort the 'Generated code' lines inside each generator's block (sizes in [blocks])."""
    lines = b.split(b"\n")
    i = 0
    while i < len(lines) and not lines[i].startswith(GEN_PREFIX):
        i += 1
    out = lines[:i]
    for n in blocks:
        chunk = lines[i:i + n]
        if len(chunk) < n or not all(l.startswith(GEN_PREFIX) for l in chunk):
            break
        out += sorted(chunk)
        i += n
    return out + lines[i:]


def model_tree(files):
    t = {}
    for p, c in reversed(files):            # oldest write first: later writes win
        t[os.path.normpath(p.decode("utf-8", "surrogateescape"))] = c
    return t


def main():
    if "--lib-worker" in sys.argv:
        lib_worker()
        return
    t = core.Timer()
    core.build_binaries(want_cli=True, want_lib=True)
    ok, out = core.coq_make()
    if not ok:
        print(out[-3000:])
        print("coq build failed")
        sys.exit(2)
    T = texts()
    cases = build_cases(T)
    L = Lib()
    blocks_of = {}
    for c in cases:
        blocks_of[c.id] = guess_queries(c, L)
    if L.hook.crashes:
        print("hook crashed %d times" % L.hook.crashes)
        sys.exit(2)
    core.log("library results: F %d, P %d, G %d (%.1fs)" % (len(L.F), len(L.P), len(L.G), t.s()))
    # real runs
    shutil.rmtree(SCRATCH, ignore_errors=True)
    os.makedirs(SCRATCH)
    real = {}
    for c in cases:
        if c.kind == "cli":
            real[c.id] = run_cli(c)
    libcases = [c for c in cases if c.kind == "lib"]
    for c, r in zip(libcases, run_lib([c.text for c in libcases])):
        real[c.id] = r
    core.log("real runs done (%.1fs)" % t.s())
    # model
    srcs = coq_source(cases, L, shards=8)
    from concurrent.futures import ThreadPoolExecutor
    with ThreadPoolExecutor(max_workers=8) as ex:
        outs = list(ex.map(lambda kv: core.coq_eval("cases_cli_%d" % kv[0], kv[1], prelude=PRELUDE, timeout=1500), list(enumerate(srcs))))
    res = {}
    for rc, cout, cerr in outs:
        if rc != 0:
            print(cerr[-3000:])
            print("coqc failed on Run/cases_cli_*.v")
            sys.exit(2)
        res.update(core.parse_results(cout))
    core.log("model evaluated: %d results (%.1fs)" % (len(res), t.s()))
    mism = []
    dist = collections.Counter()
    outcome = collections.Counter()
    for c in cases:
        dist[c.group] += 1
        if c.id not in res:
            mism.append((c, "no model result"))
            continue
        if c.kind == "lib":
            m = unesc(res[c.id])
            outcome["lib: " + ("Error:-prefixed" if real[c.id].startswith(b"Error:") else "formatted text")] += 1
            if m != real[c.id]:
                mism.append((c, "returned string: model %r real %r" % (m[:200], real[c.id][:200])))
            continue
        w = parse_world(res[c.id])
        r = real[c.id]
        if w is None:
            mism.append((c, "model: not modelled; real exit %d stdout %r" % (r["exit"], r["stdout"][:200])))
            continue
        outcome["cli: exit %d" % r["exit"]] += 1
        why = []
        if w["exit"] != r["exit"]:
            why.append("exit: model %d real %d" % (w["exit"], r["exit"]))
        blocks = blocks_of[c.id]
        ms, rs = canon_stdout(w["stdout"], blocks), canon_stdout(r["stdout"], blocks)
        if ms != rs:
            k = next((i for i in range(min(len(ms), len(rs))) if ms[i] != rs[i]), min(len(ms), len(rs)))
            why.append("stdout differs at line %d: model %r real %r" % (k, ms[k:k + 2], rs[k:k + 2]))
        mt = model_tree(w["files"])
        if mt != r["tree"]:
            only_m = sorted(set(mt) - set(r["tree"]))
            only_r = sorted(set(r["tree"]) - set(mt))
            diff = sorted(p for p in set(mt) & set(r["tree"]) if mt[p] != r["tree"][p])
            why.append("tree: only model %s, only real %s, different content %s" % (only_m[:5], only_r[:5], diff[:5]))
        if b"<<undefined" in w["stdout"] or any(b"<<undefined" in c2 for _, c2 in w["files"]):
            why.append("model asked for a library result that is not in the tables")
        if why:
            mism.append((c, "; ".join(why)))
    print("cases: %d" % len(cases))
    for g, n in sorted(dist.items()):
        print("  %-45s %d" % (g, n))
    print("outcomes of the real runs:")
    for g, n in sorted(outcome.items()):
        print("  %-45s %d" % (g, n))
    subsets = set()
    for c in cases:
        if c.kind == "cli" and c.group.startswith("compile (subset"):
            subsets.add(tuple(l for l in LANGS if ("-" + SHORT[l]) in c.args))
    print("distinct output-flag subsets exercised: %d of 64" % len(subsets))
    print("mismatches: %d" % len(mism))
    for c, why in mism[:40]:
        print("  MISMATCH %s [%s] %r: %s" % (c.id, c.group, c.args if c.kind == "cli" else c.text[:60], why))
    json.dump({"cases": len(cases), "distribution": dist, "outcomes": outcome, "mismatches": len(mism),
               "fingerprint": core.repo_fingerprint()},
              open(os.path.join(core.BUILD, "cli_report.json"), "w"), indent=1)
    L.hook.close()
    sys.exit(0 if not mism else 1)


if __name__ == "__main__":
    main()
