"""C15: the Lua (Wireshark) dissector generator.

  python3 harness/lua.py [nconfigs] [--model] [--show N]

1. T1   : luaBasicTypeMap (dumped by the hook) against coq/Gen/Lua.v's lua_type_table.
2. corr : show_lprog (gen_lua M) (Coq, vm_compute) against the IR extracted from the text the
          real generator emits (extract_lua.py), part by part (fields table, every function, main).
3. oracle: sem_lua (observed IR) (layout bytes) against ranges, for the boundary messages of the
          root packet (samples.Sampler): once with the load check (strict) and once without (run),
          so that what the load-time defect hides stays visible.  --model runs gen_lua M instead.
4. frag : lua_frag M => every message agrees (run), lua_frag_strict M => agrees (strict).
"""
import collections
import json
import os
import re
import sys

sys.path.insert(0, os.path.dirname(os.path.abspath(__file__)))
import core
import codec
import corpus
import samples
import lua_ir as LI
from extract_lua import extract_lua
from core import g_model

PRELUDE = """From FP Require Import LuaOracle Lua LuaFrag LuaFrag2.
From Coq Require Import String List NArith.
Import ListNotations.
Open Scope string_scope.
Set Printing Width 100000000.
Set Printing Depth 100000000.
Fixpoint bs (l : list N) : string := match l with [] => EmptyString | n :: r => String (Ascii.ascii_of_N n) (bs r) end.
"""


# ---------------------------------------------------------------- shape catalogue

def shape_programs():
    """(id, text): one program per shape of the dissector, for the oracle's verdict table."""
    P = []
    # two packets that each declare a nested object of the same name with different layouts
    P.append(("same-inline-name", "packet NewOrder {\n    repeat Leg {\n        char[8] Symbol,\n        u32 Qty,\n    },\n}\n"
              "packet Cancel {\n    repeat Leg {\n        u64 OrderId,\n    },\n}\n"
              "root packet Msg {\n    u8 MsgType,\n    match MsgType as Body {\n        1 : NewOrder,\n        2 : Cancel,\n    },\n}\n"))
    flat = """root packet Flat {
    u8 a,
    u16 b,
    u32 c,
    u64 d,
    f32 e,
    f64 f,
    char g,
    char[4] h,
    @leftPad('0') char[3] h2,
    string s,
    char[] s2,
    repeat u16 ru,
    repeat u64 ru64,
    repeat string rs,
    repeat char[3] rf,
    u8 tail,
}
"""
    P.append(("flat-unsigned", flat))
    P.append(("flat-unsigned-le", "options {\n    LittleEndian = true;\n}\n" + flat))
    for pfx in ("u8", "u32", "u64"):          # the only values the front end accepts besides u16
        P.append(("flat-prefix-%s" % pfx,
                  "options {\n    StringPrefixLenType = %s;\n    ArrayPrefixLenType = %s;\n}\n" % (pfx, pfx) + flat))
    # string prefix and list prefix of DIFFERENT widths (which of the two a step uses is then visible)
    for sp, lp in (("u8", "u32"), ("u32", "u8"), ("u16", "u8"), ("u8", "u16")):
        P.append(("flat-prefix-%s-%s" % (sp, lp),
                  "options {\n    StringPrefixLenType = %s;\n    ArrayPrefixLenType = %s;\n}\n" % (sp, lp) + flat))
    # a match field INSIDE an inline object (its packet has no MatchFields table of its own), reached through a root match
    P.append(("inline-match", "packet LegA {\n    u32 Px,\n}\npacket LegB {\n    u16 Qty,\n}\npacket Order {\n    u32 Id,\n    Leg {\n        u8 Kind,\n"
              "        match Kind as Detail {\n            1 : LegA,\n            2 : LegB,\n        },\n    },\n}\n"
              "root packet Msg {\n    u16 MsgType,\n    match MsgType as Body {\n        1 : Order,\n    },\n}\n"))
    # computed fields (length-of, checksum) in both attribute positions and both type spellings, in a flat root packet
    P.append(("flat-computed-spellings", "root packet Frame {\n    uint16 MsgType,\n    uint32 HeaderCheck @calculatedFrom(\"CRC32\"),\n    u32 SeqNum,\n"
              "    @calculatedFrom(\"CRC16\") uint16 c2,\n    u16 c3 @calculatedFrom(\"CRC16\"),\n    uint16 len @lengthOf(body),\n    string body,\n"
              "    char[8] Sender,\n    int64 tail @calculatedFrom(\"X\"),\n    u8 last,\n}\n"))
    P.append(("flat-signed", """root packet Flat {
    i8 a,
    i16 b,
    i32 c,
    i64 d,
    repeat i16 r,
    u8 tail,
}
"""))
    P.append(("flat-len-cks", """packet Empty {
}
root packet Flat {
    u16 k,
    u16 BodyLen @lengthOf(Body),
    match k as Body {
        1 : Empty,
    },
    u32 Sum @calculatedFrom("CRC32"),
}
"""))
    P.append(("flat-only-fixed", "root packet Flat {\n    char[4] h,\n    char[0] z,\n}\n"))
    P.append(("empty-root", "root packet Flat {\n}\n"))
    inner = "packet Inner {\n    u8 a,\n    string c,\n}\n"
    P.append(("root-object-ref", inner + "root packet R {\n    u8 x,\n    Inner o,\n    u8 tail,\n}\n"))
    P.append(("root-object-inline", "root packet R {\n    u8 x,\n    Sub {\n        u8 q,\n    },\n    u8 tail,\n}\n"))
    P.append(("root-repeat-ref", inner + "root packet R {\n    u8 x,\n    repeat Inner os,\n    u8 tail,\n}\n"))
    P.append(("root-repeat-inline", "root packet R {\n    u8 x,\n    repeat Grp {\n        u8 q,\n    },\n    u8 tail,\n}\n"))
    pk = "packet A {\n    u8 x,\n    string y,\n}\npacket B {\n    u16 z,\n}\npacket Empty {\n}\n"
    P.append(("match-empty-mid", "packet Empty {\n}\nroot packet R {\n    u16 k,\n    match k as Body {\n        1 : Empty,\n        2 : Empty,\n    },\n    u8 tail,\n}\n"))
    P.append(("match-empty-end", "packet Empty {\n}\nroot packet R {\n    u16 k,\n    match k as Body {\n        1 : Empty,\n    },\n}\n"))
    P.append(("match-mid", pk + "root packet R {\n    u16 k,\n    match k as Body {\n        1 : A,\n        2 : B,\n        3 : Empty,\n    },\n    u8 tail,\n}\n"))
    P.append(("match-end", pk + "root packet R {\n    u16 k,\n    match k as Body {\n        1 : A,\n        2 : B,\n    },\n}\n"))
    for kt in ("u64", "i64", "i16", "string", "char[4]", "f32"):
        lit = ('"AAAA"', '"BB"') if kt in ("string", "char[4]") else ("1", "2")
        P.append(("match-key-%s" % kt.replace("[", "").replace("]", ""),
                  pk + "root packet R {\n    %s k,\n    match k as Body {\n        %s : A,\n        %s : B,\n    },\n}\n" % (kt, lit[0], lit[1])))
    P.append(("sub-object-ref", "packet Inner {\n    u8 a,\n}\npacket A {\n    u8 x,\n    Inner o,\n    u8 y,\n}\nroot packet R {\n    u16 k,\n    match k as Body {\n        1 : A,\n    },\n}\n"))
    P.append(("sub-repeat-inline", "packet A {\n    u8 x,\n    repeat Grp {\n        u8 q,\n        string w,\n    },\n    u8 y,\n}\nroot packet R {\n    u16 k,\n    match k as Body {\n        1 : A,\n    },\n}\n"))
    P.append(("sub-repeat-ref", "packet Inner {\n    u8 a,\n}\npacket A {\n    u8 x,\n    repeat Inner os,\n    u8 y,\n}\nroot packet R {\n    u16 k,\n    match k as Body {\n        1 : A,\n    },\n}\n"))
    P.append(("forward-ref", "packet A {\n    u8 x,\n    B o,\n}\npacket B {\n    u8 a,\n}\nroot packet R {\n    u16 k,\n    match k as Body {\n        1 : A,\n    },\n}\n"))
    P.append(("forward-match", "packet A {\n    u8 kk,\n    match kk as Inner {\n        1 : B,\n    },\n}\npacket B {\n    u8 a,\n}\nroot packet R {\n    u16 k,\n    match k as Body {\n        1 : A,\n    },\n}\n"))
    P.append(("root-before-sub", "root packet R {\n    u16 k,\n    match k as Body {\n        1 : A,\n    },\n}\npacket A {\n    u8 x,\n}\n"))
    P.append(("match-to-root", "packet A {\n    u8 x,\n}\nroot packet R {\n    u16 k,\n    match k as Body {\n        1 : A,\n        2 : R,\n    },\n}\n"))
    P.append(("key-reserved-word", "packet A {\n    u8 x,\n}\nroot packet R {\n    u16 End,\n    match End as Body {\n        1 : A,\n    },\n}\n"))
    P.append(("key-named-offset", "packet Empty {\n}\nroot packet R {\n    u32 pre,\n    u16 Offset,\n    match Offset as Body {\n        1 : Empty,\n    },\n    u8 tail,\n}\n"))
    P.append(("no-root", "packet A {\n    u8 x,\n}\n"))
    return P


# programs exercising the rarely taken branches of the generator (markers, odd keys, name conversions)
ODD = [
 ("odd-lenfixed", "packet Empty {\n}\nroot packet R {\n    u16 k,\n    char[4] L @lengthOf(Body),\n    match k as Body {\n        1 : Empty,\n    },\n    u8 t,\n}\n"),
 ("odd-lennotype", "packet Empty {\n}\nroot packet R {\n    u16 k,\n    L @lengthOf(Body),\n    match k as Body {\n        1 : Empty,\n    },\n    u8 t,\n}\n"),
 ("odd-char", "root packet R {\n    char c,\n    repeat char cs,\n    char k,\n    u8 t,\n}\n"),
 ("odd-bytes-bool", "packet bytes {\n    u8 a,\n}\npacket bool {\n    u8 b,\n}\nroot packet R {\n    bytes x,\n    bool y,\n    repeat bytes zs,\n}\n"),
 ("odd-meta", "MetaData Meta {\n    u32 SeqNum `n`,\n    char[8] Symbol,\n    string Note,\n    Symbol Alt,\n    i16 Px,\n}\nroot packet R {\n    SeqNum,\n    Symbol,\n    Alt a2,\n    Note,\n    repeat Px pxs,\n    repeat Note notes,\n}\n"),
 ("odd-keyobj", "packet A {\n    u8 x,\n}\npacket K {\n    u8 kk,\n}\nroot packet R {\n    K k,\n    match k as Body {\n        1 : A,\n    },\n}\n"),
 ("odd-keyrepeat", "packet A {\n    u8 x,\n}\nroot packet R {\n    repeat u8 k,\n    match k as Body {\n        1 : A,\n        \"s t then -- x\" : A,\n    },\n}\n"),
 ("odd-keydyn-cfg", "options {\n    StringPrefixLenType = u64;\n    LittleEndian = true;\n}\npacket A {\n    u8 x,\n}\nroot packet R {\n    string k,\n    match k as Body {\n        \"a\" : A,\n    },\n}\n"),
 ("odd-keylen", "packet A {\n    u8 x,\n}\nroot packet R {\n    u16 k @lengthOf(Body),\n    match k as Body {\n        1 : A,\n    },\n}\n"),
 ("odd-keycks", "packet A {\n    u8 x,\n}\nroot packet R {\n    u16 k @calculatedFrom(\"CRC16\"),\n    match k as Body {\n        1 : A,\n    },\n}\n"),
 ("odd-snake", "packet HTTPReq {\n    u8 aB,\n    u8 a_b,\n    u8 ID2x,\n}\npacket Http_req {\n    u8 x,\n}\nroot packet MyRoot9 {\n    u16 MsgType,\n    match MsgType as Body {\n        1 : HTTPReq,\n        2 : Http_req,\n    },\n}\n"),
 ("odd-deep", "root packet R {\n    A {\n        B {\n            C {\n                u8 x,\n            },\n            repeat D {\n                string s,\n            },\n        },\n        u8 y,\n    },\n    repeat E {\n        F {\n            u8 z,\n        },\n    },\n}\n"),
 ("odd-two-matches", "packet A {\n    u8 x,\n    u8 k2,\n    match k2 as In {\n        1 : B,\n    },\n    match x as In2 {\n        5 : B,\n    },\n}\npacket B {\n}\nroot packet R {\n    u16 k,\n    match k as Body {\n        1 : A,\n    },\n    match k as Body2 {\n        [1, 2] : B,\n    },\n}\n"),
 ("odd-empty-inline", "root packet R {\n    u8 x,\n    repeat u8 tail,\n}\npacket Z {\n    R r,\n}\n"),
 ("odd-le-all", "options {\n    LittleEndian = true;\n    StringPrefixLenType = u32;\n    ArrayPrefixLenType = u8;\n}\npacket A {\n    i64 x,\n    f32 y,\n    repeat f64 z,\n    string s,\n}\nroot packet R {\n    i32 k,\n    match k as Body {\n        1 : A,\n    },\n    repeat A as2,\n    A a,\n}\n"),
]


# ---------------------------------------------------------------- running

def mname_of(pid):
    return "M_" + "".join(c if c.isalnum() else "_" for c in pid)


def t1_table(hook):
    got = hook.ask({"op": "tables"})["types"]["lua"]
    rows = sorted("%s:%s:%s:%s:%d" % (k, v["LuaType"], v["Be"], v["Le"], v["Size"]) for k, v in got.items())
    bad = [k for k, v in got.items() if v["Name"] != k]
    body = ('Eval vm_compute in ("<<<table>>>" ++ join "," (map (fun \'(k, t) => k ++ ":" ++ lt_ctor t ++ ":" ++ lt_be t '
            '++ ":" ++ lt_le t ++ ":" ++ show_nat (lt_size t)) lua_type_table)).\n')
    rc, out, err = core.coq_eval("cases_lua_t1", body, prelude=PRELUDE)
    if rc != 0:
        return False, err[-2000:]
    mine = sorted(core.parse_results(out).get("table", "").split(","))
    return (mine == rows and not bad), {"model_only": [r for r in mine if r not in rows], "real_only": [r for r in rows if r not in mine]}


def observe(programs, hook):
    """Compile every program with the real front end and the real Lua generator."""
    observed = collections.OrderedDict()
    stats = collections.Counter()
    for pid, text in programs:
        resp, names = codec.compile_program(hook, text, ["lua"])
        if names is None:
            stats["rejected"] += 1
            observed[pid] = {"skipped": {k: v for k, v in resp.items() if k not in ("model", "steps")}}
            continue
        ok, why = codec.modelled(resp["model"])
        # two nested objects of one name are ordinary input for the dissector generator (each local
        # function shadows the previous one): only unresolved references are outside the model
        why = [w for w in why if not w.startswith("type name ")]
        ok = not why
        if not ok:
            stats["outside_model"] += 1
            observed[pid] = {"skipped": {"outside_model": why}}
            continue
        step = resp["steps"][0]
        o = {"model": resp["model"], "names": names, "text": text}
        if "error" in step:
            stats["refused with an error"] += 1
            observed[pid] = {"skipped": {"generator_error": step["error"]}}
            continue
        if "panic" in step:
            stats["panics"] += 1
            o["panic"] = step["panic"]
            o["frames"] = step.get("frames")
        else:
            prog, notes = extract_lua(step["files"], resp["model"], names)
            o["prog"] = prog
            o["notes"] = notes
            o["files"] = step["files"]
            stats["generated"] += 1
        stats["programs"] += 1
        observed[pid] = o
    return observed, stats


def correspondence(observed, tag="lua_corr"):
    body = []
    cases = []
    for pid, o in observed.items():
        if "skipped" in o:
            continue
        mn = mname_of(pid)
        body.append("Definition %s : bmodel := %s." % (mn, g_model(o["model"], o["names"])))
        body.append('Eval vm_compute in ("<<<%s>>>" ++ match gen_lua_opt %s with Some P => show_lprog P | None => "PANIC" end).' % (pid, mn))
        cases.append(pid)
    rc, out, err = core.coq_eval("cases_" + tag, "\n".join(body) + "\n", prelude=PRELUDE)
    if rc != 0:
        return {"coq_error": err[-3000:]}
    got = core.parse_results(out)
    mismatches = []
    panics_agree = 0
    for pid in cases:
        o = observed[pid]
        model_txt = got.get(pid)
        if "panic" in o:
            if model_txt == "PANIC":
                panics_agree += 1
            else:
                mismatches.append({"program": pid, "part": "(whole)", "model": (model_txt or "")[:200], "observed": "PANIC " + o["panic"][:100]})
            continue
        exp = (model_txt or "").split("#")
        obs = LI.show_parts(o["prog"])
        for k in range(max(len(exp), len(obs))):
            a = exp[k] if k < len(exp) else None
            b = obs[k] if k < len(obs) else None
            if a != b:
                mismatches.append({"program": pid, "part": k, "model": a, "observed": b})
        if o["notes"]:
            mismatches.append({"program": pid, "part": "boilerplate", "model": "", "observed": "; ".join(o["notes"])})
    return {"cases": cases, "mismatches": mismatches, "panics_agree": panics_agree}


def root_of(model):
    for p in model["packets"]:
        if p["name"] == model["root"]:
            return p
    return None


def oracle(observed, use_model=False, seed=0, tag="lua_oracle", chunk=10):
    """[(program, label, strict, class, detail)] and {program: (frag, frag_strict)}; one coqc run per chunk of programs"""
    pids = [pid for pid, o in observed.items() if "skipped" not in o and "prog" in o]
    results = []
    frags = {}
    proved = {}
    jobs = []
    for c0 in range(0, len(pids), chunk):
        body = []
        index = []
        for pid in pids[c0:c0 + chunk]:
            o = observed[pid]
            mn = mname_of(pid)
            body.append("Definition %s : bmodel := %s." % (mn, g_model(o["model"], o["names"])))
            if use_model:
                body.append("Definition P_%s : lprog := gen_lua %s." % (mn, mn))
            else:
                body.append("Definition P_%s : lprog := %s." % (mn, LI.g_lprog(o["prog"])))
            body.append('Eval vm_compute in ("<<<frag|%s>>>" ++ show_bool (lua_frag %s) ++ show_bool (lua_frag_strict %s) ++ show_bool (lua_frag2 %s) ++ show_bool (lua_frag4 %s)).' % (pid, mn, mn, mn, mn))
            root = root_of(o["model"])
            if root is None:
                continue
            smp = samples.Sampler(o["model"], seed)
            for k, (label, v) in enumerate(smp.messages(root)):
                body.append("Definition %s_v%d : value := %s." % (mn, k, samples.g_value(v)))
                for strict in (True, False):
                    cid = "%s|%s|%s" % (pid, label, "strict" if strict else "run")
                    body.append('Eval vm_compute in ("<<<%s>>>" ++ show_lverdict (lua_check %s %s P_%s %s_v%d)).'
                                % (cid, core.g_bool(strict), mn, mn, mn, k))
                    index.append((pid, label, strict, cid))
        jobs.append((c0 // chunk, "\n".join(body) + "\n", index))
    from concurrent.futures import ThreadPoolExecutor
    with ThreadPoolExecutor(max_workers=16) as ex:
        outs = list(ex.map(lambda j: core.coq_eval("cases_%s_%d" % (tag, j[0]), j[1], prelude=PRELUDE, timeout=3000), jobs))
    for (k, _, index), (rc, out, err) in zip(jobs, outs):
        if rc != 0:
            return {"coq_error": "coqc exit code %d (chunk %d)\n%s" % (rc, k, err[-3000:])}
        got = core.parse_results(out)
        for pid, label, strict, cid in index:
            r = got.get(cid, "NoResult:")
            cls, _, detail = r.partition(":")
            results.append((pid, label, strict, cls, detail))
        for k2, v in got.items():
            if k2.startswith("frag|"):
                frags[k2[5:]] = (v[0] == "T", v[1] == "T")
                proved[k2[5:]] = (v[2:3] == "T", v[3:4] == "T")
    return {"results": results, "frags": frags, "proved": proved}


def err_class(detail):
    return detail.split("(")[0]


def selftest(observed):
    """The extractor must notice every change of a code line of the emitted script: delete each
    non-blank line in turn, bump the first number of each line, flip add/le_add, drop "offset = "."""
    tried = missed = 0
    examples = []
    for pid, o in observed.items():
        if "files" not in o or pid.startswith("cells-c") and pid != "cells-c0":
            continue
        (fname, text), = o["files"].items()
        base = LI.show_parts(o["prog"])
        lines = text.split("\n")
        for i, line in enumerate(lines):
            if not line.strip() or re.match(r"^    -- (Field from|Unsupported type:) ", line):      # comments of the fields table
                continue
            muts = [lines[:i] + lines[i + 1:]]
            m = re.search(r"\d+", line)
            if m and "ProtoField" not in line:
                muts.append(lines[:i] + [line[:m.start()] + str(int(m.group(0)) + 1) + line[m.end():]] + lines[i + 1:])
            if ":add(fields." in line:
                muts.append(lines[:i] + [line.replace(":add(fields.", ":le_add(fields.")] + lines[i + 1:])
            if "offset = dissect_" in line:
                muts.append(lines[:i] + [line.replace("offset = dissect_", "dissect_")] + lines[i + 1:])
            if ", subtree, offset)" in line:
                muts.append(lines[:i] + [line.replace(", subtree, offset)", ", tree, offset)")] + lines[i + 1:])
            for mt in muts:
                tried += 1
                prog, notes = extract_lua({fname: "\n".join(mt)})
                if LI.show_parts(prog) == base and not notes:
                    missed += 1
                    if len(examples) < 5:
                        examples.append((pid, i, line))
    return tried, missed, examples


def main():
    args = [a for a in sys.argv[1:] if not a.startswith("--")]
    ncfg = int(args[0]) if args else 40
    use_model = "--model" in sys.argv
    show = 8
    if "--show" in sys.argv:
        show = int(sys.argv[sys.argv.index("--show") + 1])
    core.build_binaries()
    ok, out = core.coq_make()
    if not ok:
        print(out[-3000:])
        sys.exit(2)
    hook = core.Hook()
    ok, diff = t1_table(hook)
    print("T1 luaBasicTypeMap == lua_type_table:", ok, "" if ok else diff)
    t1_ok = ok
    progs = corpus.cell_programs(corpus.pairwise_configs()[:ncfg]) + shape_programs() + ODD
    t = core.Timer()
    observed, stats = observe(progs, hook)
    hook.close()
    print("programs", dict(stats), t.s(), "s")
    for pid, o in observed.items():
        if "skipped" in o:
            print("  SKIPPED", pid, json.dumps(o["skipped"])[:200])
        elif "panic" in o:
            print("  PANIC  ", pid, o["panic"][:100], (o.get("frames") or [])[:2])
    tried, missed, ex = selftest(observed)
    print("extractor self-test: mutations", tried, "unnoticed", missed, ex)
    t = core.Timer()
    res = correspondence(observed)
    if "coq_error" in res:
        print(res["coq_error"])
        sys.exit(2)
    print("correspondence: cases", len(res["cases"]), "panics modelled", res["panics_agree"],
          "mismatches", len(res["mismatches"]), t.s(), "s")
    for m in res["mismatches"][:show]:
        print("  ----", m["program"], "part", m["part"])
        a, b = m["model"] or "", m["observed"] or ""
        ea, eb = a.split(";"), b.split(";")
        shown = 0
        for x, y in zip(ea, eb):
            if x != y and shown < 3:
                print("     model   :", x[:300])
                print("     observed:", y[:300])
                shown += 1
        if len(ea) != len(eb):
            print("     lengths differ", len(ea), len(eb))
            print("     model   :", a[:600])
            print("     observed:", b[:600])
    t = core.Timer()
    orc = oracle(observed, use_model=use_model)
    if "coq_error" in orc:
        print(orc["coq_error"])
        sys.exit(2)
    print("oracle (%s IR)" % ("model" if use_model else "observed"), t.s(), "s")
    for strict in (True, False):
        cnt = collections.Counter()
        for pid, label, st, cls, detail in orc["results"]:
            if st == strict:
                cnt[cls if cls != "Fails" else "Fails:" + err_class(detail)] += 1
        print("  verdicts (%s):" % ("strict: load + run" if strict else "run only"), dict(cnt))
    # where the emitted Lua is not the generator model's (tie broken): a recorded finding is behaviour the
    # model REPRODUCES; search the programs concerned for messages on which the observed dissector is wrong
    # in a way the model is not
    newdev = []
    mm_pids = sorted(set(m["program"] for m in res["mismatches"]))
    if mm_pids and not use_model:
        sub = collections.OrderedDict((pid, observed[pid]) for pid in mm_pids if pid in observed)
        orc_m = oracle(sub, use_model=True, tag="lua_oracle_m")
        if "results" in orc_m:
            model_v = {(pid, label, st): (cls, detail) for pid, label, st, cls, detail in orc_m["results"]}
            for pid, label, st, cls, detail in orc["results"]:
                if pid in sub and not st and cls not in ("Agree", "NotAMessage") and model_v.get((pid, label, st)) != (cls, detail):
                    newdev.append((pid, label, cls, detail, model_v.get((pid, label, st))))
    for pid, label, cls, detail, mv in newdev[:6]:
        print("NEW-DEVIATION %s [%s] observed %s: %s | model %s" % (pid, label, cls, detail[:200], mv))
    print("new deviations (observed dissector wrong where the generator model is not): %d" % len(newdev))
    # per program
    per = collections.OrderedDict()
    for pid, label, st, cls, detail in orc["results"]:
        per.setdefault(pid, {True: collections.Counter(), False: collections.Counter(), "ex": {}})
        key = cls if cls != "Fails" else "Fails:" + err_class(detail)
        per[pid][st][key] += 1
        per[pid]["ex"].setdefault((st, key), (label, detail))
    groups = collections.OrderedDict()
    for pid, d in per.items():
        fam = pid.split("-")[0] if re.match(r"^(cells-c|len-|cks-|key-)\d+$", pid) else pid
        sig = (fam, tuple(sorted(d[True].items())), tuple(sorted(d[False].items())), orc["frags"].get(pid))
        groups.setdefault(sig, []).append(pid)
    print("  per program (family | strict | run | (lua_frag, lua_frag_strict)):")
    for (fam, s, r, fr), pids in groups.items():
        print("   %-22s x%-3d strict %s | run %s | frag %s" % (fam, len(pids), dict(s), dict(r), fr))
        d = per[pids[0]]
        for (st, key), (label, detail) in d["ex"].items():
            if not st and key != "Agree":
                print("        e.g. [%s] %s: %s" % (label, key, detail[:160]))
    # frag soundness on this corpus
    bad = []
    tight = []
    for pid, d in per.items():
        fr = orc["frags"].get(pid, (False, False))
        all_run = set(d[False]) <= {"Agree", "NotAMessage"} and d[False]["Agree"] > 0
        all_strict = set(d[True]) <= {"Agree", "NotAMessage"} and d[True]["Agree"] > 0
        if fr[0] and not all_run:
            bad.append((pid, "lua_frag but run disagrees"))
        if fr[1] and not all_strict:
            bad.append((pid, "lua_frag_strict but strict disagrees"))
        if all_run and not fr[0]:
            tight.append(pid)
    # the PROVED fragments (Proofs/LuaFrag2.v: lua_frag2_correct, lua_frag4_correct): inside them every
    # typed sample message must agree - anything else contradicts a theorem (= an error of this harness)
    pr = orc.get("proved", {})
    n2 = sum(1 for pid in per if pr.get(pid, (False, False))[0])
    n4 = sum(1 for pid in per if pr.get(pid, (False, False))[1])
    for pid, d in per.items():
        if pr.get(pid, (False, False))[1] and not (set(d[False]) <= {"Agree", "NotAMessage"}):
            bad.append((pid, "inside lua_frag4 (PROVED correct) but a sample message disagrees: theorem contradicted"))
    print("  programs inside the proved fragments: lua_frag2 %d, lua_frag4 %d (of %d)" % (n2, n4, len(per)))
    print("  frag violated:", bad)
    print("  all sampled messages agree (run) but lua_frag false:", tight)
    ok_all = not res["mismatches"] and not bad and missed == 0 and t1_ok and not newdev
    print("RESULT", "OK" if ok_all else "FAIL")
    sys.exit(0 if ok_all else 1)


if __name__ == "__main__":
    main()
