"""Codec IR on the Python side: tuples mirroring coq/IR/Sem.v, the canonical text form of
coq/IR/Show.v, and Gallina printers."""
from core import g_str, g_bool, g_nat, g_opt, g_list

# steps are tuples: ("EInt", w, le) ("EFixed", n, pad) ("EStr", pw, ple, ele) ("EList", pw, ple, ele, elem)
# ("EObj", path) ("EDyn",) ("EMarkZero", m, w, le) ("ESpan", inner, sid) ("EPatch", m, sid, w, le, cw, slice)
# ("ECheck", alg, w, le) ("ENone",) ("EMarker",) ("EJunk", text)
# ("DInt", w, le) ("DFixed", n, pad) ("DStr", pw, ple, sg) ("DList", pw, ple, sg, elem) ("DObj", path)
# ("DDispatch", [(key, path)], first_wins, keyidx, unk_err) ("DNone",) ("DMarker",) ("DJunk", text)
# pad: None | (literal text, left)

UNDEF = 999


def codes(s):
    return ".".join(str(ord(c)) for c in s)


def sb(b):
    return "T" if b else "F"


def spad(p):
    return "-" if p is None else "%s:%s" % (codes(p[0]), "L" if p[1] else "R")


def _san(t):
    return "".join(c if (c.isalnum() or c in "._-=:,") else "_" for c in t)[:120]


def show_e(s):
    k = s[0]
    if k == "EInt":
        return "EInt(%d,%s)" % (s[1], sb(s[2]))
    if k == "EFixed":
        return "EFixed(%d,%s)" % (s[1], spad(s[2]))
    if k == "EStr":
        return "EStr(%d,%s,%s)" % (s[1], sb(s[2]), sb(s[3]))
    if k == "EList":
        return "EList(%d,%s,%s,%s)" % (s[1], sb(s[2]), sb(s[3]), show_e(s[4]))
    if k == "EObj":
        return "EObj(%s)" % s[1]
    if k == "EDyn":
        return "EDyn"
    if k == "EMarkZero":
        return "EMarkZero(%d,%d,%s)" % (s[1], s[2], sb(s[3]))
    if k == "ESpan":
        return "ESpan(%s,%d)" % (show_e(s[1]), s[2])
    if k == "EPatch":
        return "EPatch(%d,%d,%d,%s,%d,%s)" % (s[1], s[2], s[3], sb(s[4]), s[5], "-" if s[6] is None else str(s[6]))
    if k == "ECheck":
        return "ECheck(%s,%d,%s)" % (codes(s[1]), s[2], sb(s[3]))
    if k == "ENone":
        return "ENone"
    if k == "EMarker":
        return "EMarker"
    return "EJunk<%s>" % _san(s[1])


def show_d(s):
    k = s[0]
    if k == "DInt":
        return "DInt(%d,%s)" % (s[1], sb(s[2]))
    if k == "DFixed":
        return "DFixed(%d,%s)" % (s[1], spad(s[2]))
    if k == "DStr":
        return "DStr(%d,%s,%s)" % (s[1], sb(s[2]), sb(s[3]))
    if k == "DList":
        return "DList(%d,%s,%s,%s)" % (s[1], sb(s[2]), sb(s[3]), show_d(s[4]))
    if k == "DObj":
        return "DObj(%s)" % s[1]
    if k == "DDispatch":
        return "DDispatch([%s],%s,%d,%s)" % (";".join("%s>%s" % (codes(a), b) for a, b in s[1]), sb(s[2]), s[3], sb(s[4]))
    if k == "DNone":
        return "DNone"
    if k == "DMarker":
        return "DMarker"
    return "DJunk<%s>" % _san(s[1])


def show_pkt(path, ir):
    enc = " ".join("%d:%s" % (i, show_e(s)) for i, s in ir["enc"] if s[0] != "ENone")
    dec = " ".join("%d:%s" % (i, show_d(s)) for i, s in ir["dec"] if s[0] != "DNone")
    return "%s{%d|%s|%s}" % (path, ir["members"], enc, dec)


def parse_show_prog(s):
    """Split the text printed by Coq's show_prog into {path: text}; keeps order."""
    out = {}
    if not s:
        return out
    for part in s.split("#"):
        path = part[:part.index("{")]
        out[path] = part
    return out


# ---------------------------------------------------------------- Gallina

def g_pad(p):
    return "None" if p is None else "(Some (%s, %s))" % (g_str(p[0]), g_bool(p[1]))


def g_e(s):
    k = s[0]
    if k == "EInt":
        return "(EInt %s %s)" % (g_nat(s[1]), g_bool(s[2]))
    if k == "EFixed":
        return "(EFixed %s %s)" % (g_nat(s[1]), g_pad(s[2]))
    if k == "EStr":
        return "(EStr %s %s %s)" % (g_nat(s[1]), g_bool(s[2]), g_bool(s[3]))
    if k == "EList":
        return "(EList %s %s %s %s)" % (g_nat(s[1]), g_bool(s[2]), g_bool(s[3]), g_e(s[4]))
    if k == "EObj":
        return "(EObj %s)" % g_str(s[1])
    if k == "EDyn":
        return "EDyn"
    if k == "EMarkZero":
        return "(EMarkZero %s %s %s)" % (g_nat(s[1]), g_nat(s[2]), g_bool(s[3]))
    if k == "ESpan":
        return "(ESpan %s %s)" % (g_e(s[1]), g_nat(s[2]))
    if k == "EPatch":
        return "(EPatch %s %s %s %s %s %s)" % (g_nat(s[1]), g_nat(s[2]), g_nat(s[3]), g_bool(s[4]), g_nat(s[5]), g_opt(s[6], g_nat))
    if k == "ECheck":
        return "(ECheck %s %s %s)" % (g_str(s[1]), g_nat(s[2]), g_bool(s[3]))
    if k == "ENone":
        return '(ENone "")'
    if k == "EMarker":
        return '(ENone "marker")'
    return '(ENone "junk")'


def g_d(s):
    k = s[0]
    if k == "DInt":
        return "(DInt %s %s)" % (g_nat(s[1]), g_bool(s[2]))
    if k == "DFixed":
        return "(DFixed %s %s)" % (g_nat(s[1]), g_pad(s[2]))
    if k == "DStr":
        return "(DStr %s %s %s)" % (g_nat(s[1]), g_bool(s[2]), g_bool(s[3]))
    if k == "DList":
        return "(DList %s %s %s %s)" % (g_nat(s[1]), g_bool(s[2]), g_bool(s[3]), g_d(s[4]))
    if k == "DObj":
        return "(DObj %s)" % g_str(s[1])
    if k == "DDispatch":
        return "(DDispatch %s %s %s %s)" % (g_list(s[1], lambda kv: "(%s, %s)" % (g_str(kv[0]), g_str(kv[1]))), g_bool(s[2]),
                                          g_nat(s[3]), g_bool(s[4]))
    if k == "DNone":
        return '(DNone "")'
    if k == "DMarker":
        return '(DNone "marker")'
    return '(DNone "junk")'


def g_prog(prog):
    """prog: list of (path, ir)"""
    return g_list(prog, lambda e: "(%s, mkPkt %s %s %s)" % (
        g_str(e[0]), g_nat(e[1]["members"]),
        g_list(e[1]["enc"], lambda t: "(%s, %s)" % (g_nat(t[0]), g_e(t[1]))),
        g_list(e[1]["dec"], lambda t: "(%s, %s)" % (g_nat(t[0]), g_d(t[1])))))
