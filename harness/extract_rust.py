"""Inverse of the Rust generator's templates: emitted .rs files -> codec IR.

Strict inside the semantic regions (enum declarations, struct members, encode, decode): a line
no template claims becomes an EJunk/DJunk step and therefore a mismatch.

Everything is read off the emitted text:
* widths and byte orders from method names / turbofish types (`put_u16_le`, `::<i32,u8>`);
* member indices from the emitted `pub struct` member list (a `self.x` / `let x` / `x_pos`
  denotes the first member declared as `x`);
* type names through the emitted declarations: `pub struct` of every file of the crate
  (k-th struct of `<snake(P)>.rs` = k-th packet of P's inline tree), `pub enum` of the same file;
  a name that is declared nowhere (or more than once) resolves to `?Name`.
Imports (`use crate::...`), derives and the `#[cfg(test)]` modules are boilerplate and skipped."""
import re
from ir import UNDEF

RUST_W = {"u8": 1, "i8": 1, "u16": 2, "i16": 2, "u32": 4, "i32": 4, "f32": 4, "u64": 8, "i64": 8, "f64": 8}
ID = r"[A-Za-z_][A-Za-z_0-9]*"
LIT_RE = re.compile(r'"(?:[^"\\]|\\.)*"|\'(?:[^\'\\]|\\.)\'')


def w_of(t):
    return RUST_W.get(t, 0)


def inline_tree(p, path):
    """[(path, packet dump)] in the generator's emission order: inline packets first."""
    out = []
    for f in p["fields"]:
        a = f["attr"]
        if a and a["kind"] == "object" and a["iner"] and a.get("inline"):
            out += inline_tree(a["inline"], path + "/" + f["name"])
    out.append((path, p))
    return out


# ---------------------------------------------------------------- file structure

def brace_delta(line):
    s = LIT_RE.sub("", line)
    if s.startswith("//"):
        return 0
    return s.count("{") - s.count("}")


def block_end(lines, i):
    """index of the line that closes the block opened on line i (len(lines) if unterminated)"""
    depth = 0
    for j in range(i, len(lines)):
        depth += brace_delta(lines[j])
        if depth <= 0 and j > i:
            return j
        if depth <= 0 and j == i:
            return j
    return len(lines)


ENUM_RE = re.compile(r"^(?:#\[derive\([^\]]*\)\])?\s*pub enum (%s) \{$" % ID)
STRUCT_RE = re.compile(r"^pub struct (%s) \{$" % ID)
IMPL_RE = re.compile(r"^impl BinaryCodec for (%s) \{$" % ID)
ENC_RE = re.compile(r"^fn encode\(&self, _?buf: &mut BytesMut\) \{$")
DEC_RE = re.compile(r"^fn decode\(_?buf: &mut Bytes\) -> Option<(%s)> \{$" % ID)


def is_comment(l):
    return l.startswith("//")


def scan_file(text):
    """-> (enums {name: [variants [(V, T)] per declaration]}, structs [(name, members)], impls [(name, enc, dec, ret, junk)])"""
    lines = [l.strip() for l in text.split("\n")]
    enums, structs, impls = {}, [], []
    i = 0
    n = len(lines)
    while i < n:
        l = lines[i]
        if l == "#[cfg(test)]":
            j = i + 1
            while j < n and not lines[j]:
                j += 1
            if j < n and re.match(r"^mod %s \{$" % ID, lines[j]):
                i = block_end(lines, j) + 1
                continue
        m = ENUM_RE.match(l)
        if m:
            e = block_end(lines, i)
            vs = []
            for x in lines[i + 1:e]:
                if not x or is_comment(x):
                    continue
                mv = re.match(r"^(%s)\((%s)\),$" % (ID, ID), x)
                vs.append((mv.group(1), mv.group(2)) if mv else (None, x))
            enums.setdefault(m.group(1), []).append(vs)
            i = e + 1
            continue
        m = STRUCT_RE.match(l)
        if m:
            e = block_end(lines, i)
            members = []
            for x in lines[i + 1:e]:
                if not x or is_comment(x):
                    continue
                mm = re.match(r"^pub (%s): (\S.*),$" % ID, x)
                members.append((mm.group(1), mm.group(2)) if mm else (None, x))
            structs.append((m.group(1), members))
            i = e + 1
            continue
        m = IMPL_RE.match(l)
        if m:
            e = block_end(lines, i)
            enc = dec = ret = None
            junk = []
            j = i + 1
            while j < e:
                x = lines[j]
                if ENC_RE.match(x) and enc is None:
                    k = block_end(lines, j)
                    enc = lines[j + 1:k]
                    j = k + 1
                    continue
                md = DEC_RE.match(x)
                if md and dec is None:
                    k = block_end(lines, j)
                    dec = lines[j + 1:k]
                    ret = md.group(1)
                    j = k + 1
                    continue
                if x and not is_comment(x):
                    junk.append(x)
                j += 1
            impls.append((m.group(1), enc, dec, ret, junk))
            i = e + 1
            continue
        i += 1
    return enums, structs, impls


# ---------------------------------------------------------------- contexts

class Ctx:
    def __init__(self, path, members, structs, enums):
        self.path = path
        self.members = members            # [(name, type text)]
        self.structs = structs            # declared struct name -> [paths] (whole crate)
        self.enums = enums                # declared enum name -> [variant lists] (this file)
        self.defined = set()              # position variables defined so far in this body

    def midx(self, name):
        for i, (n, _) in enumerate(self.members):
            if n == name:
                return i
        return None

    def mtype(self, name):
        i = self.midx(name)
        return None if i is None else self.members[i][1]

    def resolve(self, t):
        c = self.structs.get(t, [])
        return c[0] if len(c) == 1 else "?" + t

    def enum(self, t):
        d = self.enums.get(t, [])
        return d[0] if len(d) == 1 else None


def idx(c, m):
    i = c.midx(m)
    return UNDEF if i is None else i


def pad(g):
    return (g["lit"], g["left"] == "true")


def le(g):
    return bool(g.get("le"))


# ---------------------------------------------------------------- template machinery

def fixed(pats, fn):
    """a template made of a fixed sequence of line patterns; groups of the same name must agree"""
    cps = [re.compile("^" + p + "$") for p in pats]

    def matcher(lines, i, c):
        if i + len(cps) > len(lines):
            return None
        groups = {}
        for k, p in enumerate(cps):
            m = p.match(lines[i + k])
            if not m:
                return None
            for gk, gv in m.groupdict().items():
                if gk in groups and groups[gk] != gv and gv is not None and groups[gk] is not None:
                    return None
                groups.setdefault(gk, gv)
        return fn(groups, c), len(cps)
    return matcher


def run_templates(lines, templates, ctx, junk, marker_re):
    out = []
    body = [l for l in lines if l and (not is_comment(l) or marker_re.match(l))]
    i = 0
    while i < len(body):
        for t in templates:
            r = t(body, i, ctx)
            if r is not None:
                steps, used = r
                out += steps
                i += used
                break
        else:
            out.append((UNDEF, (junk, body[i])))
            i += 1
    return out


# ---------------------------------------------------------------- encode

ENC_MARKER = re.compile(r"^// unknown type for encode: .*$")
DEC_MARKER = re.compile(r"^// unknown type for decode: .*$")
SELF = r"self\.(?P<m>%s)" % ID
LST = r"(?P<le>_le)?::<(?P<l>\w+)>"


def typed(c, m, want, step, junk):
    """the member must be declared with the type the call is made at"""
    if c.mtype(m) != want:
        return [(idx(c, m), (junk, "%s: %s used at %s" % (m, c.mtype(m), want)))]
    return [(idx(c, m), step)]


def match_encode_block(lines, i, c):
    """match &self.m { E::V(msg) => msg.encode(buf), ... }  ->  (member, inner step, lines used)"""
    m = re.match(r"^match &self\.(%s) \{$" % ID, lines[i])
    if not m:
        return None
    mem = m.group(1)
    arms = []
    j = i + 1
    while j < len(lines):
        a = re.match(r"^(%s)::(%s)\(msg\) => msg\.encode\(buf\),$" % (ID, ID), lines[j])
        if not a:
            break
        arms.append((a.group(1), a.group(2)))
        j += 1
    if j >= len(lines) or lines[j] != "}":
        return None
    ety = c.mtype(mem)
    if ety is None or any(e != ety for e, _ in arms):
        inner = ("EJunk", "match arms of %s do not name the member's type %s" % (mem, ety))
    else:
        decl = c.enum(ety)
        if decl is None:
            inner = ("EObj", "?" + ety)                      # the member's type is declared nowhere in this file
        elif [v for v, _ in decl] != [v for _, v in arms]:
            inner = ("EJunk", "arms %s of enum %s%s" % ([v for _, v in arms], ety, decl))
        else:
            inner = ("EDyn",)
    return mem, inner, j + 1 - i


def t_match_plain(lines, i, c):
    r = match_encode_block(lines, i, c)
    if r is None:
        return None
    mem, inner, used = r
    return [(idx(c, mem), inner)], used


PATCH_RE = re.compile(r"^(?P<ord>Little|Big)Endian::write_(?P<wt>\w+)\(&mut buf\[(?P<p1>%s)_pos\.\.(?P<p2>%s)_pos \+ (?P<k>\d+)\], "
                      r"\((?P<v3>%s)_end - (?P<v4>%s)_start\) as (?P<ct>\w+)\);$" % (ID, ID, ID, ID))


def t_match_span(lines, i, c):
    s = re.match(r"^let (%s)_start = buf\.len\(\);$" % ID, lines[i])
    if not s or i + 1 >= len(lines):
        return None
    r = match_encode_block(lines, i + 1, c)
    if r is None:
        return None
    mem, inner, used = r
    j = i + 1 + used
    if j + 1 >= len(lines):
        return None
    e = re.match(r"^let (%s)_end = buf\.len\(\);$" % ID, lines[j])
    p = PATCH_RE.match(lines[j + 1])
    if not e or not p:
        return None
    g = p.groupdict()
    v = s.group(1)
    if not (v == mem == e.group(1) == g["v3"] == g["v4"] and g["p1"] == g["p2"]):
        return [(UNDEF, ("EJunk", "inconsistent length-of block for " + mem))], used + 3
    sid = idx(c, mem)
    mark = idx(c, g["p1"]) if g["p1"] in c.defined else UNDEF
    return [(sid, ("ESpan", inner, sid)),
            (sid, ("EPatch", mark, sid, w_of(g["wt"]), g["ord"] == "Little", w_of(g["ct"]), int(g["k"])))], used + 3


def e_markzero(g, c):
    i = idx(c, g["v"])
    c.defined.add(g["v"])
    return [(i, ("EMarkZero", i, w_of(g["t"]), le(g)))]


def e_check(g, c):
    if g["T"] != g["t"].upper():
        return [(UNDEF, ("EJunk", "checksum variant %s written as %s" % (g["T"], g["t"])))]
    return [(idx(c, g["m"]), ("ECheck", g["alg"], w_of(g["t"]), le(g)))]


def e_list(g, c, elem, ety=None):
    step = ("EList", w_of(g["l"]), le(g), le(g), elem)
    if ety is not None:
        return typed(c, g["m"], "Vec<%s>" % ety, step, "EJunk")
    return [(idx(c, g["m"]), step)]


def enc_templates():
    T = []
    # checksum
    T.append(fixed([r"let val = CHECKSUM_SERVICE_CONTEXT\.get\((?P<alg>.*)\)",
                    r"\.and_then\(\|service\| match service\.calc\(buf\) \{",
                    r"Checksum::(?P<T>\w+)\(v\) => Some\(v\),",
                    r"_ => None,",
                    r"\}\)\.unwrap_or\(%s\);" % SELF,
                    r"buf\.put_(?P<t>\w+?)(?P<le>_le)?\(val\);"], e_check))
    # length placeholder
    T.append(fixed([r"let (?P<v>%s)_pos = buf\.len\(\);" % ID,
                    r"buf\.put_(?P<t>\w+?)(?P<le>_le)?\(0\);"], e_markzero))
    # scalars
    T.append(fixed([r"buf\.put_(?P<t>\w+?)(?P<le>_le)?\(%s\);" % SELF],
                   lambda g, c: typed(c, g["m"], g["t"], ("EInt", w_of(g["t"]), le(g)), "EJunk")))
    T.append(fixed([r"put_char\(buf, %s\);" % SELF],
                   lambda g, c: typed(c, g["m"], "char", ("EInt", 1, False), "EJunk")))
    # strings
    T.append(fixed([r"put_char_array_with_pad_char\(buf, &%s, (?P<n>\d+), (?P<lit>.*), (?P<left>true|false)\);" % SELF],
                   lambda g, c: typed(c, g["m"], "String", ("EFixed", int(g["n"]), pad(g)), "EJunk")))
    T.append(fixed([r"put_char_array\(buf, &%s, (?P<n>\d+)\);" % SELF],
                   lambda g, c: typed(c, g["m"], "String", ("EFixed", int(g["n"]), None), "EJunk")))
    T.append(fixed([r"put_string(?P<le>_le)?::<(?P<s>\w+)>\(buf, &%s\);" % SELF],
                   lambda g, c: typed(c, g["m"], "String", ("EStr", w_of(g["s"]), le(g), le(g)), "EJunk")))
    # match (with and without the length-of back-patch)
    T.append(t_match_span)
    T.append(t_match_plain)
    # object
    T.append(fixed([r"%s\.encode\(buf\);" % SELF],
                   lambda g, c: [(idx(c, g["m"]), ("EObj", c.resolve(c.mtype(g["m"]) or "")))]))
    # lists
    T.append(fixed([r"put_fixed_string_list_with_pad_char%s\(buf, &%s, (?P<n>\d+), (?P<lit>.*), (?P<left>true|false)\);" % (LST, SELF)],
                   lambda g, c: e_list(g, c, ("EFixed", int(g["n"]), pad(g)), "String")))
    T.append(fixed([r"put_fixed_string_list%s\(buf, &%s, (?P<n>\d+)\);" % (LST, SELF)],
                   lambda g, c: e_list(g, c, ("EFixed", int(g["n"]), None), "String")))
    T.append(fixed([r"put_string_list(?P<le>_le)?::<(?P<l>\w+),(?P<s>\w+)>\(buf, &%s\);" % SELF],
                   lambda g, c: e_list(g, c, ("EStr", w_of(g["s"]), le(g), le(g)), "String")))
    T.append(fixed([r"put_object_list(?P<le>_le)?::<(?P<t>\w+),(?P<l>\w+)>\(buf, &%s\);" % SELF],
                   lambda g, c: e_list(g, c, ("EObj", c.resolve(g["t"])), g["t"])))
    T.append(fixed([r"put_char_list::<(?P<l>\w+)>\(buf, &%s\);" % SELF],
                   lambda g, c: e_list(g, c, ("EInt", 1, False), "char")))
    T.append(fixed([r"put_list(?P<le>_le)?::<(?P<t>\w+),(?P<l>\w+)>\(buf, &%s\);" % SELF],
                   lambda g, c: e_list(g, c, ("EInt", w_of(g["t"]), le(g)), g["t"])))
    T.append(fixed([ENC_MARKER.pattern[1:-1]], lambda g, c: [(UNDEF, ("EMarker",))]))
    return T


# ---------------------------------------------------------------- decode

LET = r"let (?P<m>%s) = " % ID


def d_list(g, c, elem, ety):
    return typed(c, g["m"], "Vec<%s>" % ety, ("DList", w_of(g["l"]), le(g), False, elem), "DJunk")


def t_match_decode(lines, i, c):
    m = re.match(r"^let (%s) = match (%s)(\.as_str\(\))? \{$" % (ID, ID), lines[i])
    if not m:
        return None
    mem, key, as_str = m.group(1), m.group(2), bool(m.group(3))
    arms = []
    j = i + 1
    while j < len(lines):
        a = re.match(r"^(.*) => (%s)::(%s)\((%s)::decode\(buf\)\?\),$" % (ID, ID, ID), lines[j])
        if not a:
            break
        arms.append(a.groups())
        j += 1
    if j + 1 >= len(lines) or lines[j] != "_ => return None," or lines[j + 1] != "};":
        return None
    used = j + 2 - i
    mi = idx(c, mem)
    ety = c.mtype(mem)
    if ety is None or any(a[1] != ety for a in arms):
        return [(mi, ("DJunk", "match arms of %s do not build the member's type %s" % (mem, ety)))], used
    if not arms or as_str != (len(arms[0][0]) >= 2 and arms[0][0][0] == '"' and arms[0][0][-1] == '"'):
        return [(mi, ("DJunk", "match key %s%s against %s" % (key, ".as_str()" if as_str else "", [a[0] for a in arms][:1])))], used
    if len(set(a[0] for a in arms)) != len(arms):
        return [(mi, ("DJunk", "repeated arm"))], used
    decl = c.enum(ety)
    if decl is None:
        return [(mi, ("DObj", "?" + ety))], used             # the enum is declared nowhere in this file
    payload = dict(decl)
    for k, _, v, t in arms:
        if payload.get(v) != t:
            return [(mi, ("DJunk", "arm %s builds %s::%s from %s" % (k, ety, v, t)))], used
    table = [(k, c.resolve(t)) for k, _, v, t in arms]
    return [(mi, ("DDispatch", table, True, idx(c, key), True))], used


def d_obj(g, c):
    if c.mtype(g["m"]) != g["t"]:
        return [(idx(c, g["m"]), ("DJunk", "%s: %s decoded as %s" % (g["m"], c.mtype(g["m"]), g["t"])))]
    return [(idx(c, g["m"]), ("DObj", c.resolve(g["t"])))]


def dec_templates():
    T = []
    T.append(fixed([LET + r"buf\.get_(?P<t>\w+?)(?P<le>_le)?\(\);"],
                   lambda g, c: typed(c, g["m"], g["t"], ("DInt", w_of(g["t"]), le(g)), "DJunk")))
    T.append(fixed([LET + r"get_char\(buf\)\?;"],
                   lambda g, c: typed(c, g["m"], "char", ("DInt", 1, False), "DJunk")))
    T.append(fixed([LET + r"get_char_array_trim_pad_char\(buf, (?P<n>\d+), (?P<lit>.*), (?P<left>true|false)\)\?;"],
                   lambda g, c: typed(c, g["m"], "String", ("DFixed", int(g["n"]), pad(g)), "DJunk")))
    T.append(fixed([LET + r"get_char_array\(buf, (?P<n>\d+)\)\?;"],
                   lambda g, c: typed(c, g["m"], "String", ("DFixed", int(g["n"]), None), "DJunk")))
    T.append(fixed([LET + r"get_string(?P<le>_le)?::<(?P<s>\w+)>\(buf\)\?;"],
                   lambda g, c: typed(c, g["m"], "String", ("DStr", w_of(g["s"]), le(g), False), "DJunk")))
    T.append(t_match_decode)
    T.append(fixed([LET + r"(?P<t>%s)::decode\(buf\)\?;" % ID], d_obj))
    T.append(fixed([LET + r"get_fixed_string_list_trim_pad_char%s\(buf, (?P<n>\d+), (?P<lit>.*), (?P<left>true|false)\)\?;" % LST],
                   lambda g, c: d_list(g, c, ("DFixed", int(g["n"]), pad(g)), "String")))
    T.append(fixed([LET + r"get_fixed_string_list%s\(buf, (?P<n>\d+)\)\?;" % LST],
                   lambda g, c: d_list(g, c, ("DFixed", int(g["n"]), None), "String")))
    T.append(fixed([LET + r"get_string_list(?P<le>_le)?::<(?P<l>\w+),(?P<s>\w+)>\(buf\)\?;"],
                   lambda g, c: d_list(g, c, ("DStr", w_of(g["s"]), le(g), False), "String")))
    T.append(fixed([LET + r"get_object_list(?P<le>_le)?::<(?P<t>\w+),(?P<l>\w+)>\(buf\)\?;"],
                   lambda g, c: d_list(g, c, ("DObj", c.resolve(g["t"])), g["t"])))
    T.append(fixed([LET + r"get_char_list::<(?P<l>\w+)>\(buf\)\?;"],
                   lambda g, c: d_list(g, c, ("DInt", 1, False), "char")))
    T.append(fixed([LET + r"get_list(?P<le>_le)?::<(?P<t>\w+),(?P<l>\w+)>\(buf\)\?;"],
                   lambda g, c: d_list(g, c, ("DInt", w_of(g["t"]), le(g)), g["t"])))
    T.append(fixed([DEC_MARKER.pattern[1:-1]], lambda g, c: [(UNDEF, ("DMarker",))]))
    return T


def split_result(dec_lines):
    """decode body -> (statement lines, names listed in the final `Some(Self { ... })`, or None)"""
    body = [l for l in dec_lines if l]
    if not body or body[-1] != "})":
        return body, None
    k = len(body) - 2
    names = []
    while k >= 0 and re.match(r"^%s,$" % ID, body[k]):
        names.append(body[k][:-1])
        k -= 1
    if k < 0 or body[k] != "Some(Self {":
        return body, None
    return body[:k], names[::-1]


# ---------------------------------------------------------------- driver

def extract_rust(files, model, names):
    """files: {name: text}; returns [(path, ir)] in the order of Coq's gen_rust, plus a list of notes."""
    snake = lambda n: names[n][2]
    notes = []
    parsed = {}
    structs = {}          # declared struct name -> [paths], whole crate
    layout = []           # (top packet, [(path, packet dump, struct, impl)] )
    for p in model["packets"]:
        fname = snake(p["name"]) + ".rs"
        text = files.get(fname)
        tree = inline_tree(p, p["name"])
        if text is None:
            notes.append("missing file " + fname)
            layout.append((p, None, [(path, q, None, None) for path, q in tree]))
            continue
        enums, sts, impls = scan_file(text)
        if len(sts) != len(tree) or len(impls) != len(tree):
            notes.append("%s: %d structs, %d impls for %d packets" % (fname, len(sts), len(impls), len(tree)))
        rows = []
        for k, (path, q) in enumerate(tree):
            st = sts[k] if k < len(sts) else None
            im = impls[k] if k < len(impls) else None
            if st is not None:
                structs.setdefault(st[0], []).append(path)
            rows.append((path, q, st, im))
        layout.append((p, enums, rows))
    prog = []
    for p, enums, rows in layout:
        for path, q, st, im in rows:
            if st is None or im is None:
                prog.append((path, {"members": len(q["fields"]), "enc": [(UNDEF, ("EJunk", "no struct/impl"))],
                                    "dec": [(UNDEF, ("DJunk", "no struct/impl"))]}))
                continue
            sname, members = st
            iname, enc_lines, dec_lines, ret, junk = im
            ctx = Ctx(path, members, structs, enums)
            enc = run_templates(enc_lines, enc_templates(), ctx, "EJunk", ENC_MARKER) if enc_lines is not None \
                else [(UNDEF, ("EJunk", "no encode"))]
            if dec_lines is None:
                dec = [(UNDEF, ("DJunk", "no decode"))]
            else:
                stmts, result = split_result(dec_lines)
                dec = run_templates(stmts, dec_templates(), Ctx(path, members, structs, enums), "DJunk", DEC_MARKER)
                got = [m[0] for m in members]
                if result != got:
                    dec.append((UNDEF, ("DJunk", "decode builds Self from %s, members are %s" % (result, got))))
            # the impl and the decoder's result type must be the struct
            if not (sname == iname == ret):
                enc.append((UNDEF, ("EJunk", "struct %s, impl for %s, decode returns %s" % (sname, iname, ret))))
            for x in junk:
                enc.append((UNDEF, ("EJunk", x)))
            # enum declarations of the file must be well-formed
            if path == p["name"]:
                for en, decls in (enums or {}).items():
                    for vs in decls:
                        for v, t in vs:
                            if v is None:
                                enc.append((UNDEF, ("EJunk", "enum %s: %s" % (en, t))))
            # struct members must be the declared fields, in order, under their converted names
            want = [snake(f["name"]) for f in q["fields"]]
            got = [m[0] for m in members]
            if want != got:
                enc.append((UNDEF, ("EJunk", "struct members %s expected %s" % (got, want))))
            if len(set(got)) != len(got):
                enc.append((UNDEF, ("EJunk", "struct %s declares a member twice" % sname)))
            # ... and the struct must be declared under the converted packet name
            if sname != names[q["name"]][0]:
                enc.append((UNDEF, ("EJunk", "struct %s declared for packet %s" % (sname, q["name"]))))
            prog.append((path, {"members": len(members), "enc": enc, "dec": dec}))
    return prog, notes
