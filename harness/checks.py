"""Per-property check handlers used by /verif/check."""
import collections
import json
import os
import re
import sys

import core

HANDLERS = {}


def handler(*pids):
    def deco(fn):
        for p in pids:
            HANDLERS[p] = fn
        return fn
    return deco


# ----------------------------------------------------------------------------------------
# C01-C06: the codec engine
# ----------------------------------------------------------------------------------------

MARKERS = {"C04": r"EMarkZero|EPatch|ESpan", "C05": r"DDispatch|EDyn", "C06": r"ECheck"}


def packet_relevant(pid, *texts):
    """C04/C05/C06 look at the packets that carry a length-of / match / checksum construct (in the
    observed output, the generator model's or the reference's) - at the WHOLE packet, since the
    order of steps matters (what precedes a checksum, where the patch happens)."""
    rx = MARKERS.get(pid)
    if rx is None:
        return True
    return any(t and re.search(rx, t) for t in texts)


def projection(pid, pkt_text):
    import engine
    n, enc, dec = engine.parse_pkt(pkt_text)
    if pid in ("C01", "C04", "C06"):
        dec = []
    if pid == "C02":
        enc = []
    return n, enc, dec


def exec_search(lang, text, paths):
    """Run the emitted Go / Python of one program against the stand-in runtime (harness/goexec.py, pyexec.py) and return the
    first sample message of one of the packets `paths` on which the executed code disagrees with the wire specification."""
    import subprocess
    import tempfile
    d = tempfile.mkdtemp(prefix="execsearch_", dir=core.BUILD)
    f = os.path.join(d, "prog.dsl")
    open(f, "w").write(text)
    out = os.path.join(d, "report.json")
    if lang == "go":
        cmd = [sys.executable, os.path.join(core.VERIF, "harness", "goexec.py"), "--dsl-file", f, "--no-engine", "--no-sem", "--report", out]
    else:
        cmd = [sys.executable, os.path.join(core.VERIF, "harness", "pyexec.py"), "--dsl-file", f, "--no-engine", "--out", out]
    try:
        subprocess.run(["timeout", "600"] + cmd, stdout=subprocess.PIPE, stderr=subprocess.STDOUT, cwd=core.VERIF)
        rep = json.load(open(out))
    except Exception:
        return None
    prog = next(iter(rep.get("programs", {}).values()), None)
    if not prog:
        return None
    ok = ("Agree", "NotAMessage")
    rel = lambda path: path in paths or any(path.startswith(q + "/") or q.startswith(path + "/") for q in paths)
    if lang == "go":
        for path, msgs in prog.items():
            if not isinstance(msgs, dict) or not rel(path):
                continue
            for label, v in msgs.items():
                if isinstance(v, dict) and v.get("verdict") not in ok and not str(v.get("verdict")).startswith(("BuildFails", "Unbuildable")):
                    return {"packet": path, "label": label, "verdict": v.get("verdict"), "detail": v.get("detail")}
    else:
        for path, pk in (prog.get("packets") or {}).items():
            if not rel(path):
                continue
            for m in pk.get("messages") or []:
                if m.get("verdict") not in ok and m.get("verdict") != "ImportFails":
                    return {"packet": path, "label": "%s (checksum %s)" % (m.get("label"), "registered" if m.get("registered") else "unregistered"),
                            "verdict": m.get("verdict"), "detail": m.get("detail")}
    return None


@handler("C01", "C02", "C03", "C04", "C05", "C06")
def codec_check(res, known, args):
    import engine
    import codec
    import samples
    pid = res.pid
    r = engine.run_engine(res.tier, res.seed)
    if "coq_build_failed" in r:
        res.violation({"kind": "proof-obligation", "what": "Coq development does not build", "output": r["coq_build_failed"]}, found=False)
        return
    kinds = {"C01": ["enc"], "C02": ["dec"], "C04": ["enc"], "C06": ["enc"]}.get(pid, ["enc", "dec"])
    # a codec finding applies to every codec property in whose relevant packets it occurs
    pats = [(f, re.compile(f["sig"])) for f in known["findings"] if "sig" in f]
    n_cases = n_valid = n_tie_ok = 0
    per_lang = collections.Counter()
    unknown = collections.OrderedDict()     # (lang, kind, sig) -> [(program, path)]
    tie_broken = []
    seen_known = collections.Counter()
    samples_out = []
    distinct_ir = set()
    for prog_id, p in r["programs"].items():
        if "skipped" in p:
            continue
        for lang, e in p["langs"].items():
            if "error" in e:
                continue            # the generator refused the program with an error: no code to judge
            if "panic" in e:
                res.violation({"kind": "generator-panic", "program": prog_id, "lang": lang, "dsl": p["text"], "panic": e["panic"],
                               "frames": e.get("frames")}, found=True)
                continue
            n_cases += 1
            rel = sorted((path, obs) for path, obs in e["observed"].items() if packet_relevant(pid, obs, e["model"].get(path), e["ref"].get(path)) and ":" in obs)
            if rel:
                distinct_ir.add((lang, json.dumps(rel)))
            # the tie: model output = observed output, on this property's projection
            tie_ok = True
            for path, obs in e["observed"].items():
                mod = e["model"].get(path)
                if not packet_relevant(pid, obs, mod, e["ref"].get(path)):
                    continue
                if mod is None or projection(pid, obs) != projection(pid, mod):
                    tie_ok = False
                    tie_broken.append({"program": prog_id, "lang": lang, "packet": path, "observed": obs, "model": mod})
            if len(e["model"]) != len(e["observed"]):
                tie_ok = False
            n_tie_ok += tie_ok
            # validation of the observed IR against the reference, per packet
            all_valid = e.get("paths_ok", False)
            for kind in kinds:
                for path, v in e["valid_" + kind].items():
                    if v == "T":
                        continue
                    sigs = [s for s in (e["diff_" + kind].get(path) or ["(steps reordered or of another shape)"])]
                    rel = sigs if packet_relevant(pid, e["observed"].get(path), e["model"].get(path), e["ref"].get(path)) else []
                    if rel:
                        all_valid = False
                    for s in rel:
                        key = "%s|%s|%s" % (lang, kind, s)
                        hit = next((f for f, rx in pats if rx.search(key)), None)
                        if hit:
                            seen_known[hit["id"]] += 1
                        else:
                            unknown.setdefault(key, []).append((prog_id, path))
            n_valid += all_valid
            per_lang[(lang, "validated" if all_valid else "not validated")] += 1
            if len(samples_out) < 3 and all_valid:
                first = next(iter(e["observed"].items()))
                samples_out.append({"program": prog_id, "lang": lang, "packet": first[0], "observed_ir": first[1][:400],
                                    "validated_against_reference": True})
    for fid, n in seen_known.items():
        f = next(f for f in known["findings"] if f["id"] == fid)
        res.known.append("finding=%s %s (seen in %d packets; witness program %s)" % (fid, f["what"], n, f.get("witness")))
    # unknown differences: search for a concrete failing message
    hook_needed = unknown or tie_broken
    if hook_needed:
        todo = collections.OrderedDict()
        for key, where in unknown.items():
            lang = key.split("|")[0]
            todo.setdefault((where[0][0], lang), []).append((key, where[0][1]))
        for tb in tie_broken[:6]:
            todo.setdefault((tb["program"], tb["lang"]), []).append(("tie", tb["packet"]))
        for (prog_id, lang), items in list(todo.items())[:6]:
            p = r["programs"][prog_id]
            obs = {prog_id: {"model": p["model"], "names": p["names"], "text": p["text"],
                             "langs": {lang: {"prog": [(path, fix_ir(ir)) for path, ir in p["langs"][lang]["prog"]]}}}}
            orc = codec.oracle(obs, [lang], tag="search_%s" % pid, seed=res.seed)
            bad = []
            if "results" in orc:
                want_kind = {"C01": ("enc",), "C02": ("dec",), "C04": ("enc",), "C06": ("enc",)}.get(pid, ("enc", "dec"))
                bad = [x for x in orc["results"] if x[6] not in ("Agree", "NotAMessage") and x[5] in want_kind]
            # only messages of packets that carry an unexplained difference count as new failures
            paths = set(path for _, path in items)
            bad = [x for x in bad if x[2] in paths or any(x[2].startswith(q + "/") or q.startswith(x[2]) for q in paths)]
            what = "; ".join(k for k, _ in items)
            junk = [t for path in paths for t in re.findall(r"[ED]Junk<[^>]*>", p["langs"][lang]["observed"].get(path, ""))]
            if junk and lang in ("go", "py"):
                # the toolchain of this language is here: RUN the emitted code against the stand-in runtime
                hit = exec_search(lang, p["text"], paths)
                if hit is not None:
                    res.violation({"kind": "codec", "what": "the %s code emitted for packet %s, really executed against the stand-in runtime, does not implement the wire layout: %s"
                                   % (lang, hit["packet"], hit["verdict"]), "difference": what, "dsl": p["text"], "lang": lang, "packet": hit["packet"],
                                   "message_label": hit["label"], "verdict": hit["verdict"], "detail": hit.get("detail"),
                                   "oracle": "harness/%sexec.py (execution of the emitted code; stand-in runtime = the contract of IR/Sem.v)" % lang,
                                   "unrecognised": junk[:8]}, found=True)
                    continue
            if junk:
                # text the extractor cannot interpret: the IR semantics of that packet is not trusted
                res.violation({"kind": "correspondence", "what": "the emitted %s code of packet(s) %s contains statements the template inverse does not recognise; the property is no longer shown for them"
                               % (lang, ", ".join(sorted(paths))), "unrecognised": junk[:8], "difference": what, "dsl": p["text"], "lang": lang,
                               "theorem_or_correspondence": "T2d extract_%s (every line of encode/decode claimed)" % lang}, found=False)
                continue
            if bad:
                x = bad[0]
                res.violation({"kind": "codec", "what": "the %s code emitted for packet %s does not implement the wire layout: %s"
                               % (lang, x[2], x[6]), "difference": what, "dsl": p["text"], "lang": lang, "packet": x[2],
                               "message": samples.j_value(x[7]), "message_label": x[3], "checksum_registered": x[4],
                               "direction": x[5], "verdict": x[6]}, found=True)
            else:
                res.violation({"kind": "correspondence", "what": "the emitted %s code no longer matches %s; no failing message found"
                               % (lang, "the generator model (coq/Gen)" if items[0][0] == "tie" else "the reference compilation (validator: coq/IR/Validate.v)"),
                               "difference": what, "dsl": p["text"], "lang": lang, "packet": items[0][1],
                               "theorem_or_correspondence": "T2d gen_%s vs extract_%s / validate_%s" % (lang, lang, "enc" if "enc" in kinds else "dec")},
                              found=False)
    if r.get("coq_errors"):
        res.violation({"kind": "proof-obligation", "what": "evaluation of the models failed", "output": r["coq_errors"][0]}, found=False)
    st = r["stats"]
    res.coverage.update({
        "programs": st["programs"], "cases": n_cases, "tie_ok": n_tie_ok, "validated": n_valid,
        "per_language": {"%s %s" % k: v for k, v in sorted(per_lang.items())},
        "outside_modelled_input_space": st["outside_model"], "rejected_by_front_end": st["rejected"],
        "unknown_differences": len(unknown), "known_findings_seen": dict(seen_known),
        "evaluations": n_cases, "distinct_nontrivial": len(distinct_ir),
        "rule": "distinct_nontrivial = number of DISTINCT (language, extracted IR of the property's relevant packets) pairs with at least one step; one case = (DSL program, language): the real generator's output is extracted to IR, compared with the Coq generator model's output (tie) and validated against the reference compilation by the proved-sound boolean equivalence; programs: decision cells x pairwise option configurations (%s), one program per known-finding cell, seeded random compositions" % res.tier,
        "samples": samples_out or [{"note": "no fully validated case in this run"}],
        "engine_cached": r.get("cached", False), "engine_wall_s": r.get("wall_s"),
    })
    if pid in ("C01", "C02", "C03") and (res.tier == "thorough" or os.environ.get("VERIF_EXEC")):
        import checks2
        checks2.exec_acceptance(res, known)
    res.assumptions += ["the runtime honours the API the emitted code calls, as written down in coq/IR/Sem.v",
                        "messages are positional values; floats are their IEEE bit patterns; strings their UTF-8 bytes"]


def fix_ir(ir):
    """IR from the engine's JSON cache: lists back to tuples."""
    def t(x):
        if isinstance(x, list):
            return tuple(t(y) for y in x)
        return x
    return {"members": ir["members"], "enc": [(i, t(s)) for i, s in ir["enc"]], "dec": [(i, t(s)) for i, s in ir["dec"]]}


# ----------------------------------------------------------------------------------------
# C13 / C14: determinism and independence of generators
# ----------------------------------------------------------------------------------------
ALL_LANGS = ["lua", "rust", "go", "java", "python", "cpp"]      # the CLI's generator order


def det_programs(tier, seed):
    import corpus
    progs = corpus.layout_programs()
    progs += corpus.random_programs(seed + 101, 10 if tier == "quick" else 120)
    progs += corpus.finding_programs()
    progs += corpus.cell_programs(corpus.pairwise_configs()[:2 if tier == "quick" else 12])
    # one-line layouts: several declarations share a source line
    extra = []
    for pid, text in progs[:8] + corpus.finding_programs():
        extra.append((pid + "-1line", " ".join(text.split())))
    return progs + extra


def sites_obligation(res, pid):
    import sites
    tab, changed = sites.regenerate()
    if changed:
        # the table is part of the development: rebuild before the property file is checked
        ok, out = core.coq_make()
    res.coverage["site_tables"] = {"map_ranges": [(s["func"], s["kind"]) for s in tab["map_ranges"]],
                                   "model_mutations": [(s["func"], s["kind"], s["text"]) for s in tab["model_mutations"]],
                                   "regenerated_from_source": True}
    return tab


@handler("C13")
def determinism_check(res, known, args):
    tab = sites_obligation(res, "C13")
    hook = core.Hook()
    runs = 6 if res.tier == "quick" else 40
    # Go starts a map iteration at a random offset: two entries that sit next to each other swap their relative order in
    # only 1 of 8 iterations, so an order-dependence between two packets shows in a run with probability 1/8.  The small
    # hand-made layout programs (where such dependences are planted) are therefore compiled many more times.
    runs_layout = 48 if res.tier == "quick" else 200
    progs = det_programs(res.tier, res.seed)
    n = differing = compiled = 0
    distinct_orders = 0
    samples_out = []
    for pid, text in progs:
        first = None
        ok = True
        nruns = runs_layout if pid.startswith("det-") else runs
        for k in range(nruns):
            resp = hook.ask({"op": "gen", "text": text, "langs": ALL_LANGS})
            if resp.get("fatal") or resp.get("syntax_error") or resp.get("rejected") or resp.get("cyclic") or "steps" not in resp:
                ok = False
                break
            out = {s["lang"]: s.get("files", {"<panic>": s.get("panic", "")}) for s in resp["steps"]}
            if first is None:
                first = out
            elif out != first:
                differing += 1
                lang = next(l for l in out if out[l] != first[l])
                # recorded finding: two packets whose names collide after ToSnake share one output file name
                pk = [p["name"] for p in resp["model"]["packets"]]
                nm = hook.ask({"op": "names", "idents": pk})["names"]
                snakes = [nm[x][2] for x in pk]
                if len(set(snakes)) != len(snakes) and lang in ("go", "rust", "java"):
                    res.known.append("finding=file-name-collision packets whose names collide after strcase.ToSnake (e.g. FooBar and foo_bar) are written to one file name: which packet's code survives depends on map iteration order (witness program det-name-collision)")
                    break
                fname = next((f for f in out[lang] if out[lang].get(f) != first[lang].get(f)), "(file set)")
                res.violation({"kind": "nondeterminism", "what": "compiling the same DSL twice gave different %s output (file %s)" % (lang, fname),
                               "dsl": text, "lang": lang, "file": fname, "run_a": first[lang].get(fname), "run_b": out[lang].get(fname),
                               "runs": k + 1}, found=True)
                break
        if ok:
            compiled += 1
            n += nruns
            if len(samples_out) < 2:
                samples_out.append({"program": pid, "runs": nruns, "files": sum(len(v) for v in first.values()), "identical": True})
    hook.close()
    bad_sites = [s for s in tab["map_ranges"] if not (s["kind"] in ("keyed-insert", "collect-then-sort") or (s["kind"] == "effects" and s["func"] == "WriteCodeToFile"))]
    for s in bad_sites:
        res.violation({"kind": "proof-obligation", "what": "a map iteration whose body has order-dependent effects: %s in %s (%s:%d); theorem C13_every_map_range_is_order_independent no longer checks"
                       % (s["text"], s["func"], s["file"], s["line"]), "theorem": "C13_every_map_range_is_order_independent", "site": s}, found=False)
    res.coverage.update({"programs": compiled, "evaluations": n, "distinct_nontrivial": compiled,
                         "rule": "each program is compiled %d times by all six generators in one process (Go randomises map iteration per range statement); outputs compared byte for byte; programs: decision cells, finding cells, random compositions, one-line layouts" % runs,
                         "samples": samples_out, "differing": differing})
    res.assumptions += ["the clock (C++ copyright year) is constant during a run", "file-name collisions after ToSnake (two packets whose names collide) are outside the corpus"]


@handler("C14")
def independence_check(res, known, args):
    import itertools
    import random
    tab = sites_obligation(res, "C14")
    for s in tab["model_mutations"]:
        res.violation({"kind": "proof-obligation", "what": "a generator statement writes memory of the parsed model: %s (%s) in %s, %s:%d; theorem C14_no_generator_statement_writes_the_model no longer checks"
                       % (s["text"], s["kind"], s["func"], s["file"], s["line"]), "theorem": "C14_no_generator_statement_writes_the_model", "site": s}, found=False)
    class FreshHook:
        """every request in a fresh process: process-wide state (package variables, library
        configuration) must not carry over from one generator run to the next measurement"""
        def ask(self, req):
            h = core.Hook()
            try:
                return h.ask(req)
            finally:
                h.close()

        def close(self):
            pass
    hook = FreshHook()
    distinct_seq = set()
    rng = random.Random(res.seed)
    progs = det_programs(res.tier, res.seed)
    if res.tier == "quick":
        progs = progs[:40]
    seqs_per_prog = 6 if res.tier == "quick" else 30
    n = compiled = 0
    samples_out = []
    found = 0
    for pid, text in progs:
        alone = {}
        unstable = set()
        usable = True
        # programs whose packets collide on one output file name are C13's recorded finding
        # (nondeterministic alone): not comparable across sequences
        probe = hook.ask({"op": "visit", "text": text})
        if "model" in probe:
            pk = [p["name"] for p in probe["model"]["packets"]]
            nm = hook.ask({"op": "names", "idents": pk})["names"]
            if len(set(nm[x][2] for x in pk)) != len(pk):
                unstable = {"go", "rust", "java"}
        for lang in ALL_LANGS:
            resp = hook.ask({"op": "gen", "text": text, "langs": [lang]})
            if "steps" not in resp:
                usable = False
                break
            st = resp["steps"][0]
            alone[lang] = st.get("files", {"<panic>": st.get("panic", "")})
            # a generator that is not even deterministic alone (C13's business, e.g. the file-name
            # collision finding) cannot be compared across sequences
            again = hook.ask({"op": "gen", "text": text, "langs": [lang]})
            if "steps" in again and again["steps"][0].get("files", {"<panic>": again["steps"][0].get("panic", "")}) != alone[lang]:
                unstable.add(lang)
            if not st.get("model_unchanged", True) and found < 3:
                found += 1
                res.violation({"kind": "model-mutated", "what": "the %s generator alters the parsed model" % lang, "dsl": text, "lang": lang,
                               "sequence": [lang]}, found=True)
        if not usable:
            continue
        compiled += 1
        seqs = [ALL_LANGS, list(reversed(ALL_LANGS))]
        for _ in range(seqs_per_prog - 2):
            k = rng.randint(2, 6)
            seqs.append(rng.sample(ALL_LANGS, k))
        for seq in seqs:
            resp = hook.ask({"op": "gen", "text": text, "langs": seq})
            if "steps" not in resp:
                continue
            n += 1
            if len(seq) >= 2:
                distinct_seq.add((pid, tuple(seq)))
            for lang, st in zip(seq, resp["steps"]):
                files = st.get("files", {"<panic>": st.get("panic", "")})
                if lang in unstable:
                    continue
                if files != alone[lang] and found < 3:
                    found += 1
                    fname = next((f for f in files if files.get(f) != alone[lang].get(f)), "(file set)")
                    res.violation({"kind": "interference", "what": "the %s output depends on the generators that ran before it (file %s)" % (lang, fname),
                                   "dsl": text, "lang": lang, "sequence": seq, "file": fname,
                                   "alone": alone[lang].get(fname), "in_sequence": files.get(fname)}, found=True)
        if len(samples_out) < 2:
            samples_out.append({"program": pid, "sequences": [" ".join(s) for s in seqs[:3]], "all_equal_to_alone": True})
    hook.close()
    res.coverage.update({"programs": compiled, "evaluations": n, "distinct_nontrivial": len(distinct_seq),
                         "rule": "distinct_nontrivial = distinct (program, generator sequence) pairs with at least two generators in the sequence; per program: every generator alone in a FRESH PROCESS, then sequences over ONE parsed model (each sequence in a fresh process) (CLI order, reverse, random orders/subsets); each step's files compared with the alone run and the model dump compared before/after each step",
                         "samples": samples_out})


# ----------------------------------------------------------------------------------------
# C15 (Lua dissector) and C16 (entry points): wrappers around the dedicated harnesses
# ----------------------------------------------------------------------------------------
import subprocess


def run_script(script, args, timeout):
    r = subprocess.run(["timeout", str(timeout), sys.executable, os.path.join(core.VERIF, "harness", script)] + args,
                       stdout=subprocess.PIPE, stderr=subprocess.STDOUT, text=True, cwd=core.VERIF)
    return r.returncode, r.stdout




@handler("C15")
def lua_check(res, known, args):
    ncfg = "2" if res.tier == "quick" else "27"
    rc, out = run_script("lua.py", [ncfg], 3000)
    m = re.search(r"correspondence: cases (\d+) panics modelled (\d+) mismatches (\d+)", out)
    verd = re.findall(r"verdicts \(([^)]*)\): (\{.*\})", out)
    frag_bad = re.search(r"frag violated: (\[.*\])", out)
    t1 = re.search(r"T1 luaBasicTypeMap == lua_type_table: (\w+)", out)
    selft = re.search(r"extractor self-test: mutations (\d+) unnoticed (\d+)", out)
    if m is None or rc == 2:
        res.violation({"kind": "harness", "what": "the Lua harness did not complete", "output": out[-3000:]}, found=False)
        return
    cases, mism = int(m.group(1)), int(m.group(3))
    if t1 and t1.group(1) != "True":
        res.violation({"kind": "proof-obligation", "what": "luaBasicTypeMap (scalar size table) differs from the table the Coq model was proved over", "output": out[:1500]}, found=False)
    bad = eval(frag_bad.group(1)) if frag_bad else []
    for pid, why in bad[:3]:
        res.violation({"kind": "lua", "what": "program %s is inside the fragment on which the dissector is correct (lua_frag), but the emitted dissector attributes wrong ranges: %s" % (pid, why),
                       "program": pid, "rerun": "cd /verif && python3 harness/lua.py %s --show 20" % ncfg}, found=True)
    for m2 in re.findall(r"^NEW-DEVIATION (\S+) \[(\S+)\] (.*)$", out, re.M)[:3]:
        res.violation({"kind": "lua", "what": "the emitted dissector of program %s attributes wrong ranges on sample message '%s' where the generator model does not: %s" % (m2[0], m2[1], m2[2][:600]),
                       "program": m2[0], "message": m2[1], "rerun": "cd /verif && python3 harness/lua.py %s --show 20" % ncfg}, found=True)
    if mism:
        blocks = re.findall(r"  ---- (\S+) part (\S+)\n((?:     .*\n)*)", out)
        res.violation({"kind": "correspondence", "what": "the emitted Lua differs from the generator model (coq/Gen/Lua.v) for %d programs" % mism,
                       "first": [{"program": b[0], "part": b[1], "diff": b[2][:800]} for b in blocks[:3]],
                       "theorem_or_correspondence": "T2d gen_lua vs extract_lua"}, found=False)
    if selft and int(selft.group(2)) > 0:
        res.violation({"kind": "harness", "what": "extractor self-test: %s text mutations went unnoticed" % selft.group(2)}, found=False)
    for f in known["findings"]:
        if "lua_verdict" in f and any(re.search(f["lua_verdict"], v[1]) for v in verd):
            res.known.append("finding=%s %s" % (f["id"], f["what"]))
    pf = re.search(r"programs inside the proved fragments: (.*)", out)
    n_eval = sum(sum(eval(v[1]).values()) for v in verd[:1]) if verd else cases
    n_ok = sum(1 for l in re.findall(r"^   \S+\s+x(\d+)\s+strict", out, re.M))
    res.coverage.update({"programs": cases, "evaluations": n_eval, "distinct_nontrivial": n_ok, "mismatches": mism,
                         "programs_inside_proved_fragments": pf.group(1) if pf else None,
                         "verdicts": {k: v for k, v in verd}, "fragment_violations": bad,
                         "extractor_selftest": selft.group(0) if selft else None,
                         "rule": "evaluations = (program, sample message) oracle runs; distinct_nontrivial = distinct (program family, verdict profile, fragment membership) groups; cell programs (%s configurations) + one program per dissector shape; emitted Lua extracted to the Lua IR and compared with gen_lua (tie); sem_lua of the observed IR over the canonical encoding of boundary messages compared with ranges derived from the wire specification; programs inside lua_frag must agree on every message" % ncfg,
                         "samples": [{"tail_of_report": out[-1200:]}]})
    res.assumptions += ["the Wireshark Lua API as written down in coq/Lua/LuaIR.v (no Lua interpreter or tshark in the sandbox)"]




def cli_what(known, fid):
    return next((f["what"] for f in known["findings"] if f["id"] == fid), fid)


@handler("C16")
def cli_check(res, known, args):
    rc, out = run_script("cli.py", [], 3000)
    m = re.search(r"^cases: (\d+)", out, re.M)
    mm = re.search(r"^mismatches: (\d+)", out, re.M)
    if m is None or mm is None or rc == 2:
        res.violation({"kind": "harness", "what": "the CLI harness did not complete", "output": out[-3000:]}, found=False)
        return
    cases, mism = int(m.group(1)), int(mm.group(1))
    for line in re.findall(r"^  MISMATCH (.*)$", out, re.M)[:4]:
        res.violation({"kind": "entry-point", "what": "an entry point delivers something other than the wrapper model (proved to deliver exactly the library result) predicts: " + line[:1500]}, found=True)
    # re-validate the recorded findings on the real binary
    scratch = os.path.join(core.BUILD, "cli_findings")
    import shutil
    shutil.rmtree(scratch, ignore_errors=True)
    os.makedirs(scratch)
    binp = os.path.join(core.BUILD, "fin-protoc")
    f = os.path.join(scratch, "f.dsl")
    open(f, "w").write("packet Keep {\n    u8 keep,\n}")
    r = subprocess.run([binp, "format", "-d", "packet A {u8 x,}", "-f", f], stdout=subprocess.PIPE, stderr=subprocess.STDOUT, text=True, cwd=scratch)
    if "Keep" not in open(f).read():
        res.known.append("finding=cli-d-and-f " + cli_what(known, "cli-d-and-f"))
    r = subprocess.run([binp, "help"], stdout=subprocess.PIPE, stderr=subprocess.STDOUT, text=True, cwd=scratch)
    if "could not read file" in r.stdout:
        res.known.append("finding=cli-help-rewritten " + cli_what(known, "cli-help-rewritten"))
    r = subprocess.run([binp, "format", "-d", ""], stdout=subprocess.PIPE, stderr=subprocess.STDOUT, text=True, cwd=scratch)
    if r.returncode != 0:
        res.known.append("finding=cli-empty-d " + cli_what(known, "cli-empty-d"))
    dist = dict(re.findall(r"^  (\S.*?)\s{2,}(\d+)$", out, re.M))
    res.coverage.update({"programs": cases, "evaluations": cases, "distinct_nontrivial": len(dist), "mismatches": mism, "distribution": dist,
                         "rule": "distinct_nontrivial = number of distinct case groups (entry point x kind of command line) in the distribution; real binary and real c-shared library (ctypes) run in fresh scratch directories on DSL texts x entry points x flag spellings x all 64 output-flag subsets; stdout, exit code and resulting directory tree compared with the Coq wrapper model instantiated with the real library results (hook)",
                         "samples": [{"tail_of_report": out[-1200:]}]})
    res.assumptions += ["OS-level effects (permissions, partial writes, symlinks) are outside the model", "stderr is not compared"]


import checks2  # noqa: E402,F401  (handlers of C07-C12, C17)
