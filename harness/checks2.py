"""Handlers of C07-C12 and C17: wrappers around the dedicated harnesses

    visitor.py   model of the visitor (coq/Model/Visitor.v) against the real one; the fault specification
                 (coq/Model/Faults.v), the spelling rewrites (coq/Model/Spelling.v)      -> C08, C11, C12
    fmt.py       model of the formatter (coq/Fmt/Formatter.v) against the real one; oracles -> C09, C10, C11
    crash.py     crash scan of the whole compile path (visitor and the six generators)     -> C11
    complete.py  marker scan + IR completeness (coq/Tests/Completeness.v) + toolchains     -> C07
    tests.py     emitted self-tests through the self-test model (coq/Tests/SelfTest.v)    -> C17

Every harness writes a report; the handlers read the deviation classes from it.  A class is a KNOWN
FINDING only when /verif/known_findings.json has an entry for it and for the property; everything
else is a VIOLATION (with the text as replay).  A model/code mismatch is reported as
no-failing-input-found unless a deviation of the property is observed as well."""
import fnmatch
import hashlib
import json
import os
import re
import subprocess
import sys

import core
from checks import handler

CACHE = os.path.join(core.VERIF, ".cache")


def verif_fingerprint():
    h = hashlib.sha256()
    for root, dirs, files in os.walk(os.path.join(core.VERIF, "harness")):
        dirs[:] = sorted(d for d in dirs if d != "__pycache__")
        for f in sorted(files):
            if f.endswith((".py", ".java", ".h", ".hpp", ".txt")):
                h.update(open(os.path.join(root, f), "rb").read())
    for root, dirs, files in os.walk(core.COQ):
        dirs[:] = sorted(d for d in dirs if d != "Run")
        for f in sorted(files):
            if f.endswith(".v"):
                h.update(open(os.path.join(root, f), "rb").read())
    h.update(open(os.path.join(core.VERIF, "known_findings.json"), "rb").read())
    return h.hexdigest()


def run_report(script, args, report, timeout):
    """Run harness/<script> <args> (cached by the fingerprints of /repo and /verif) -> (rc, stdout, report dict | None)."""
    fp = core.build_binaries()["fingerprint"]
    key = hashlib.sha256(("%s|%s|%s|%s|%s" % (fp, verif_fingerprint(), script, " ".join(args), os.environ.get("VERIF_REPLAY_DSL", ""))).encode()).hexdigest()[:24]
    os.makedirs(CACHE, exist_ok=True)
    cpath = os.path.join(CACHE, "script-%s.json" % key)
    if os.path.exists(cpath) and not os.environ.get("VERIF_NO_CACHE"):
        c = json.load(open(cpath))
        return c["rc"], c["out"], c["report"], True
    rpath = os.path.join(core.BUILD, report) if report else os.devnull
    if report and os.path.exists(rpath):
        os.remove(rpath)
    r = subprocess.run(["timeout", str(timeout), sys.executable, os.path.join(core.VERIF, "harness", script)] + args,
                       stdout=subprocess.PIPE, stderr=subprocess.STDOUT, text=True, cwd=core.VERIF, errors="replace")
    rep = json.load(open(rpath)) if report and os.path.exists(rpath) else None
    json.dump({"rc": r.returncode, "out": r.stdout[-20000:], "report": rep}, open(cpath, "w"))
    return r.returncode, r.stdout, rep, False


def known_for(known, pid, script):
    return [f for f in known["findings"] if pid in f.get("properties", []) and f.get("script") == script and "class" in f]


def match_known(entries, cls):
    if cls.endswith(":model-disagrees"):
        return None          # a recorded finding is behaviour the model reproduces
    return next((f for f in entries if f["class"] == cls or fnmatch.fnmatchcase(cls, f["class"])), None)


def unpy(s):
    """the visitor report writes examples as repr(bytes)"""
    if isinstance(s, str) and re.match(r"^b['\"]", s):
        try:
            return eval(s).decode("utf-8", "replace")
        except Exception:
            return s
    return s


# ----------------------------------------------------------------------------------------
# visitor.py
# ----------------------------------------------------------------------------------------

def visitor_args(tier, seed):
    if tier == "quick":
        return [["--seed", str(seed + 1), "--n", "500", "--bases", "24"]]
    return [["--seed", str(seed + s), "--n", "2600"] for s in (1, 2)]


def visitor_part(res, known, prefix):
    """Run visitor.py, judge the deviation classes that start with <prefix> ('C08:' ...)."""
    pid = res.pid
    entries = known_for(known, pid, "visitor.py")
    cov = {"runs": []}
    agg = {}
    for args in visitor_args(res.tier, res.seed):
        rc, out, rep, cached = run_report("visitor.py", args, "visitor_report.json", 7000)
        if rep is None:
            res.violation({"kind": "harness", "what": "harness/visitor.py did not complete", "output": out[-3000:]}, found=False)
            return None
        seen_dev = False
        for cls, e in sorted(rep["deviations"].items()):
            if not cls.startswith(prefix):
                continue
            k = match_known(entries, cls)
            if k is not None:
                a = agg.setdefault(k["id"], [k["what"], 0, None])
                a[1] += e["count"]
                ex = " ".join((e.get("text") or unpy(e["example"])).split())
                if a[2] is None or len(ex) < len(a[2]):
                    a[2] = ex
            else:
                seen_dev = True
                res.violation({"kind": "deviation", "what": "the real visitor/compiler deviates from %s: class %s (%d texts)" % (pid, cls, e["count"]),
                               "class": cls, "dsl": e.get("text") or unpy(e["example"]), "rerun": "cd /verif && python3 harness/visitor.py " + " ".join(args)}, found=True)
        mm = [m for m in rep.get("mismatches", []) if relevant_mismatch(prefix, m)]
        if mm:
            res.violation({"kind": "correspondence", "what": "the visitor model (coq/Model/Visitor.v) and the real visitor disagree on %d texts" % len(mm),
                           "first": mm[:5], "theorem_or_correspondence": "visit / faults / same_meaning vs hook ops visit+gen",
                           "rerun": "cd /verif && python3 harness/visitor.py " + " ".join(args)}, found=False)
        cov["runs"].append({"args": " ".join(args), "cached": cached, "texts": rep["texts"], "compared": rep["compared"],
                            "mismatches": rep["n_mismatches"], pid: rep.get(pid), "kinds": rep.get("kinds"), "locality": rep.get("locality"),
                            "cli": rep.get("cli")})
    for fid, (what, n, ex) in sorted(agg.items()):
        res.known.append("finding=%s %s (x%d, e.g. %s)" % (fid, what[:300], n, (ex or "")[:140]))
    return cov


def relevant_mismatch(prefix, m):
    # (case id, what, message): every model/code mismatch concerns the three visitor properties;
    # C08-only mismatches ('c08' stage) are not held against C11/C12
    what = m[1] if isinstance(m, (list, tuple)) and len(m) > 1 else ""
    if what == "c08":
        return prefix == "C08:"
    return True


@handler("C12")
def c12_check(res, known, args):
    cov = visitor_part(res, known, "C12:")
    if cov is None:
        return
    n = sum(r["compared"] for r in cov["runs"])
    nf = sum((r.get("C12") or {}).get("faults", 0) for r in cov["runs"])
    res.coverage.update({"programs": n, "evaluations": n, "distinct_nontrivial": nf, "visitor_runs": cov["runs"],
                         "rule": "evaluations = parsed texts given to the model and compared; distinct_nontrivial = (fault class, line) pairs the specification `faults` found in them and that were compared with the real diagnostics; texts: texts.py programs and fault injections, well-formed programs of vprogs.py and ONE fault of each C12 class at EVERY site of them; "
                                 "the real parse tree is visited by the model; compared: outcome, full model dump, diagnostics (line, site, message); "
                                 "`faults` (the specification, coq/Model/Faults.v) is compared with the real diagnostics (class and line); a sample also goes through the real CLI "
                                 "(exit status, diagnostics, no file written)"})
    res.assumptions += ["the parse tree handed to the model is the real parser's (hook op parse); the lexer/parser models are checked separately (harness/syntax.py)"]


@handler("C08")
def c08_check(res, known, args):
    cov = visitor_part(res, known, "C08:")
    if cov is None:
        return
    n = sum((r.get("C08") or {}).get("pairs", 0) for r in cov["runs"])
    nkinds = len(set(k for r in cov["runs"] for k in (r.get("C08") or {}) if k.startswith("pairs:")))
    loc = sum((r.get("locality") or {}).get("checked", 0) for r in cov["runs"])
    res.coverage.update({"programs": n, "evaluations": n + loc, "distinct_nontrivial": n, "rewrite_kinds": nkinds, "attribute_removals": loc, "visitor_runs": cov["runs"],
                         "rule": "evaluations = (program, rewrite) pairs whose rewrite CHANGED the text (no-ops are not counted) + attribute removals; distinct_nontrivial = the pairs; well-formed programs x the spelling rewrites of coq/Model/Spelling.v (functions on parse trees, mirrored on the text): the rewritten text must be the "
                                 "model's rewritten tree, `same_meaning` is evaluated by the model, and the six generators' outputs of the REAL compiler for both texts must be byte-identical; "
                                 "attribute locality: removing one attribute may change only the field it was written on (real model dumps compared field by field)"})


# ----------------------------------------------------------------------------------------
# fmt.py
# ----------------------------------------------------------------------------------------

ORACLE_PROP = {"parse": "C09", "compile": "C09", "content": "C09", "error-path": "C09", "file-mode": "C09", "setup": "C09",
               "idempotent": "C10", "canonical": "C10", "no-crash": "C11"}


def fmt_args(tier, seed):
    if tier == "quick":
        return [["--seed", str(seed), "--n", "800", "--no-deep"]]
    return [["--seed", str(seed + s), "--n", "3000"] for s in (1, 2)]


def syntax_part(res):
    """The lexer and parser models (coq/Syntax) against the real ANTLR lexer/parser: token lists and parse trees."""
    n = "600" if res.tier == "quick" else "4000"
    args = ["--seed", str(res.seed + 1), "--n", n]
    rc, out, _, cached = run_report("syntax.py", args, None, 7000)
    m = re.search(r"^mismatches: (\d+)", out, re.M)
    if m is None:
        res.violation({"kind": "harness", "what": "harness/syntax.py did not complete", "output": out[-3000:]}, found=False)
        return
    if int(m.group(1)):
        res.violation({"kind": "correspondence", "what": "the lexer/parser models (coq/Syntax) and the real ANTLR lexer/parser disagree on %s texts" % m.group(1),
                       "output": out[-3000:], "theorem_or_correspondence": "lex / parse vs hook ops lex+parse",
                       "rerun": "cd /verif && python3 harness/syntax.py " + " ".join(args)}, found=False)
    res.coverage["syntax_correspondence"] = {"args": " ".join(args), "cached": cached, "mismatches": int(m.group(1)), "tail": out[-400:]}


def fmt_part(res, known, props):
    pid = res.pid
    syntax_part(res)
    entries = known_for(known, pid, "fmt.py")
    cov = {"runs": []}
    for args in fmt_args(res.tier, res.seed):
        if pid == "C11" and "--no-deep" in args:
            args = [a for a in args if a != "--no-deep"]
        rc, out, rep, cached = run_report("fmt.py", args, "fmt_report.json", 7000)
        if rep is None or "classes" not in rep:
            res.violation({"kind": "harness", "what": "harness/fmt.py did not complete", "output": out[-3000:]}, found=False)
            return None
        for cls, e in sorted(rep["classes"].items()):
            orc = set(e.get("oracles") or {})
            if not orc and cls in ("UTF8-REPLACED", "C11-STACK-DEPTH"):
                orc = {"content"} if cls == "UTF8-REPLACED" else {"no-crash"}
            if not any(ORACLE_PROP.get(o) == pid for o in orc):
                continue
            k = match_known(entries, cls)
            if k is not None:
                res.known.append("finding=%s %s (x%d, e.g. %s)" % (k["id"], k["what"][:300], e["count"], " ".join(str(e["witness"]).split())[:120]))
            else:
                res.violation({"kind": "deviation", "what": "the real formatter deviates from %s: class %s (%d texts, oracles %s)" % (pid, cls, e["count"], sorted(orc)),
                               "class": cls, "dsl": e["witness"], "rerun": "cd /verif && python3 harness/fmt.py " + " ".join(args)}, found=True)
        for nv in rep.get("new", []):
            if ORACLE_PROP.get(nv["oracle"], "C09") != pid:
                continue
            res.violation({"kind": "deviation", "what": "the real formatter violates the %s oracle: %s" % (nv["oracle"], nv["msg"][:600]),
                           "dsl": nv["text"], "rerun": "cd /verif && python3 harness/fmt.py " + " ".join(args)}, found=True)
        if pid == "C11":
            for p in rep.get("panics", [])[:3]:
                res.violation({"kind": "panic", "what": "the real formatter panics", "panic": p}, found=True)
        for cls, ok in (rep.get("known_reproduced") or {}).items():
            k = match_known(entries, cls)
            if k is not None and not ok:
                # a recorded finding whose witness no longer shows it: report, do not fail (the defect may have been repaired)
                res.coverage.setdefault("recorded_findings_not_reproduced", []).append(cls)
        if rep.get("mismatches"):
            res.violation({"kind": "correspondence", "what": "the formatter model (coq/Fmt/Formatter.v) and the real formatter disagree on %d texts" % rep["mismatches"],
                           "first": rep.get("mismatch_examples", [])[:5], "theorem_or_correspondence": "format_res vs FormatPacketDsl",
                           "rerun": "cd /verif && python3 harness/fmt.py " + " ".join(args)}, found=False)
        cov["runs"].append({"args": " ".join(args), "cached": cached, "texts": rep["texts"], "mismatches": rep["mismatches"], "stats": rep.get("stats"),
                            "file_mode": rep.get("file_mode"), "stack_depth": rep.get("stack_depth"), "nesting_cost": rep.get("nesting_cost")})
    return cov


FMT_RULE = ("texts: the streams of texts.py (valid programs with comments at token boundaries, CRLF, multi-line doc strings, faults, junk, empty) and the formatter "
            "streams (a comment at EVERY token boundary, key lists, embedded line breaks, bare CR, Unicode spaces, re-layouts, the OUTPUTS of the real formatter); "
            "the model's format_res (vm_compute) must equal the real result on every text; oracles on the real formatter: parse, compile (six generators byte-identical), "
            "content (token and comment sequences), idempotence, layout-canonicity, error path, file mode")


@handler("C09")
def c09_check(res, known, args):
    cov = fmt_part(res, known, "C09")
    if cov is None:
        return
    n = sum(r["texts"] for r in cov["runs"])
    nv = sum((r.get("stats") or {}).get("valid", 0) for r in cov["runs"])
    res.coverage.update({"inputs": n, "evaluations": n, "distinct_nontrivial": nv, "fmt_runs": cov["runs"],
                         "rule": "evaluations = distinct texts (deduplicated) formatted by model and code; distinct_nontrivial = those the formatter accepts, on which the content/compile oracles ran; " + FMT_RULE})


@handler("C10")
def c10_check(res, known, args):
    cov = fmt_part(res, known, "C10")
    if cov is None:
        return
    n = sum(r["texts"] for r in cov["runs"])
    nr = sum((r.get("stats") or {}).get("relayouts", 0) for r in cov["runs"])
    res.coverage.update({"inputs": n, "evaluations": n + nr, "distinct_nontrivial": nr, "fmt_runs": cov["runs"],
                         "rule": "evaluations = distinct texts + their re-layouts; distinct_nontrivial = re-layouts compared with the original's format (each accepted text is also formatted twice); " + FMT_RULE})


# ----------------------------------------------------------------------------------------
# C11: formatter + visitor + generators
# ----------------------------------------------------------------------------------------

@handler("C11")
def c11_check(res, known, args):
    import crash
    import texts as T
    import corpus
    fcov = fmt_part(res, known, "C11")
    vcov = visitor_part(res, known, "C11:")
    if fcov is None or vcov is None:
        return
    # crash scan of the whole compile path
    n = 3000 if res.tier == "quick" else 30000
    items, _ = T.generate(res.seed + 1, n, core.REPO)
    tx = [(k, d.decode("utf-8", "replace")) for k, d in items]
    tx += [("corpus:" + pid, text) for pid, text in corpus.layout_programs()]
    # compilable programs of the codec corpus (every option configuration shape, every finding cell): the generators
    # must not crash on what they are mostly run on
    tx += [("corpus:" + pid, text) for pid, text in corpus.finding_programs()]
    tx += [("corpus:" + pid, text) for pid, text in corpus.cell_programs(corpus.pairwise_configs()[:6] if res.tier == "quick" else corpus.all_configs()[::5])]
    replay = os.environ.get("VERIF_REPLAY_DSL")
    if replay:
        tx = [("replay", replay)]
    ev, st = crash.scan(tx)
    entries = [f for f in known["findings"] if "C11" in f.get("properties", []) and "crash_class" in f]
    classes = {}
    for e in ev:
        classes.setdefault(crash.event_class(e), []).append(e)
    new = 0
    for cls, es in sorted(classes.items()):
        k = next((f for f in entries if f["crash_class"] == cls), None)
        if k is not None:
            res.known.append("finding=%s %s (x%d)" % (k["id"], k["what"][:300], len(es)))
            continue
        new += 1
        if new > 4:
            continue
        w = min((e["text"] for e in es), key=len)
        try:
            w = crash.shrink(w, cls, budget=80)
        except Exception:
            pass
        res.violation({"kind": "crash", "what": "the compile path crashes at a site that is not a recorded finding: %s" % cls, "class": cls,
                       "panic": es[0].get("panic"), "dsl": w}, found=True)
    res.coverage.update({"inputs": len(tx), "evaluations": len(tx), "distinct_nontrivial": len(set(t for _, t in tx)) - st.get("syntax error", 0), "crash_scan": dict(st),
                         "crash_classes": {c: len(v) for c, v in classes.items()}, "fmt_runs": fcov["runs"], "visitor_runs": vcov["runs"],
                         "rule": "evaluations = texts of the crash scan; distinct_nontrivial = distinct texts that pass the parser (reach the visitor / generators); formatter: model = real on every text, the model is proved never to panic (C11_format_never_panics); visitor: model = real (outcome kind and "
                                 "panicking function), `nopanic_frag` proved sufficient for a result and evaluated on every tree; generators: every text of texts.py (valid, faulty, "
                                 "junk, truncated, binary) through parse, visit and the six generators in the hook; recovered panics classified by stage|language|innermost function, "
                                 "fatal crashes by the hook dying; deep nesting probe through the real CLI"})
    res.assumptions += ["termination ('never hangs') is observed with time limits (hook 60 s per request), not proved for the real code; the Coq models are total by construction",
                        "the exported C library function (cmd/lib.go) is covered by the entry-point model of C16 (it calls the same FormatPacketDsl)"]


# ----------------------------------------------------------------------------------------
# C07 and C17
# ----------------------------------------------------------------------------------------

def dev_script(res, known, script, report, args, what):
    pid = res.pid
    entries = known_for(known, pid, script)
    rc, out, rep, cached = run_report(script, args, report, 14000)
    if rep is None:
        res.violation({"kind": "harness", "what": "harness/%s did not complete" % script, "output": out[-3000:]}, found=False)
        return None
    for cls, e in sorted((rep.get("known_deviations_seen") or {}).items()):
        k = match_known(entries, cls)
        ex = (e.get("examples") or [{}])[0]
        if k is not None:
            res.known.append("finding=%s %s (x%s, languages %s, witness program %s)" % (k["id"], k["what"][:300], e.get("occurrences"), ",".join(e.get("languages", [])), e.get("witness")))
        else:
            res.violation({"kind": "deviation", "what": "%s: class %s is not a recorded finding: %s" % (what, cls, ex.get("text", "")[:500]),
                           "class": cls, "program": ex.get("program"), "lang": ex.get("lang")}, found=True)
    for nv in (rep.get("new_deviations") or [])[:6]:
        res.violation({"kind": "deviation", "what": "%s (%s, program %s): %s" % (what, nv.get("lang"), nv.get("program"), nv.get("text", "")[:800]),
                       "dsl": nv.get("dsl"), "lang": nv.get("lang"), "program": nv.get("program"), "at": nv.get("packet") or nv.get("at")}, found=True)
    for e in (rep.get("coq_errors") or [])[:2]:
        res.violation({"kind": "proof-obligation", "what": "evaluation of the model failed", "output": str(e)[-2000:]}, found=False)
    for note in (rep.get("notes") or [])[:3]:
        res.violation({"kind": "correspondence", "what": str(note)[:1500]}, found=False)
    st = rep.get("interpreter_selftest")
    if st and st.get("unnoticed"):
        res.violation({"kind": "harness", "what": "scaffold interpreter self-test: %s mutations went unnoticed" % st["unnoticed"]}, found=False)
    return rep, cached


@handler("C07")
def c07_check(res, known, args):
    a = ["--tier", res.tier, "--seed", str(res.seed)] + (["--stubs"] if res.tier != "quick" else [])
    r = dev_script(res, known, "complete.py", "complete_report.json", a, "the emitted code is incomplete or not well-formed")
    if r is None:
        return
    rep, cached = r
    st = rep["stats"]
    res.coverage.update({"programs": st.get("programs"), "evaluations": sum(v for k, v in st.items() if k.endswith(" files")),
                         "distinct_nontrivial": st.get("coq complete_ir evaluated"), "stats": st, "toolchains": rep.get("toolchains"),
                         "marker_sites_in_source": len(rep.get("marker_sites", [])), "cached": cached,
                         "rule": "marker sites regenerated from the Go source on every run and compared with the recorded table; every emitted file of the six targets scanned for "
                                 "marker text; completeness of the extracted IR (every declared field has its member, its encode and its decode step) evaluated by complete_ir in Coq; "
                                 "gofmt -e and python ast.parse on every Go/Python file; javac and g++ -fsyntax-only against API stubs in the thorough tier"})
    if res.tier != "quick" or os.environ.get("VERIF_EXEC"):
        # the emitted Go is really compiled (go build against the stand-in runtime, harness/goexec.py): the import block
        # must list only packages the file uses (repaired defect, see 'fixed' in known_findings.json)
        rc2, out2, grep_, cached2 = run_report("goexec.py", ["--programs", "all"], "goexec_report.json", 3000)
        if grep_ is None:
            res.violation({"kind": "harness", "what": "harness/goexec.py did not complete", "output": out2[-2000:]}, found=False)
        else:
            un = grep_.get("unused_imports_as_emitted") or {}
            if un:
                res.violation({"kind": "deviation", "what": "emitted Go files import packages they do not use (the Go compiler rejects them): %s" % json.dumps(un)[:600],
                               "oracle": "harness/goexec.py (go build of the emitted files)"}, found=True)
            res.coverage["go_build"] = {"cached": cached2, "verdict_counts": grep_.get("counts"), "unused_imports_as_emitted": un}
    res.assumptions += ["no rustc/luac check (no stub crates, luac absent); Rust and Lua files are covered by the strict extractors only",
                        "the stubs of harness/stubs stand for the codec runtime API"]


@handler("C17")
def c17_check(res, known, args):
    a = ["--tier", res.tier, "--seed", str(res.seed), "--show", "0"]
    r = dev_script(res, known, "tests.py", "tests_report.json", a, "an emitted self-test does not build or does not pass")
    if r is None:
        return
    rep, cached = r
    res.coverage.update({"programs": rep.get("programs"), "evaluations": sum(rep.get("counts", {}).values()),
                         "distinct_nontrivial": len(set(k for k, V in (rep.get("verdicts") or {}).items() if V.get("verdict") not in ("GeneratorPanic", "GeneratorRefuses", None) and not str(V.get("verdict")).startswith("NotEvaluated"))),
                         "verdict_counts": rep.get("counts"),
                         "interpreter_selftest": rep.get("interpreter_selftest"), "samples": rep.get("samples"), "cached": cached,
                         "units_proved_to_pass_by_theorem": rep.get("proved_units"),
                         "rule": "evaluations = test units (program x language x packet); distinct_nontrivial = distinct units for which a test was emitted and judged; every emitted test (Go, Rust, Java, Python, C++) is read by a strict scaffold interpreter (harness/extract_tests.py): the sample object, the "
                                 "compared members, the copy-back statements; build problems (names, types, redeclarations, imports) are derived from the emitted text; the test is "
                                 "then RUN by the self-test model (coq/Tests/SelfTest.v: encode with store-backs, decode, compare) over the IR extracted from the same compilation"})
    if res.tier != "quick" or os.environ.get("VERIF_EXEC"):
        # Python IS here: the emitted *_test.py modules are really run against the stand-in runtime (harness/pyexec.py);
        # a test that fails there although the self-test model predicted Pass must be a recorded finding
        rc2, out2, prep, cached2 = run_report("pyexec.py", ["--programs", "all"], "pyexec_report.json", 3000)
        if prep is None:
            res.violation({"kind": "harness", "what": "harness/pyexec.py did not complete", "output": out2[-2000:]}, found=False)
        else:
            rows = prep.get("selftests") or []
            unexplained = []
            n_rebound = n_module = 0
            for r2 in rows:
                if r2.get("agree") is not False or r2.get("tests_py") != "Pass":
                    continue
                ex = r2.get("executed") or ""
                if "UnknownMessageKey" in ex:
                    n_rebound += 1          # finding py-factory-rebound
                elif "import of the test module" in ex:
                    n_module += 1           # another packet of the module carries a recorded syntax finding (bare pad literal ...)
                else:
                    unexplained.append(r2)
            if n_rebound:
                f = next((f for f in known["findings"] if f["id"] == "py-factory-rebound"), None)
                if f is not None:
                    res.known.append("finding=py-factory-rebound %s (x%d emitted tests error when really run)" % (f["what"][:300], n_rebound))
                else:
                    unexplained += [r2 for r2 in rows if "UnknownMessageKey" in (r2.get("executed") or "")][:2]
            for r2 in unexplained[:4]:
                res.violation({"kind": "deviation", "what": "the emitted Python self-test %s of program %s %s when really run, the self-test model predicted Pass"
                               % (r2.get("test"), r2.get("program"), (r2.get("executed") or "")[:400]), "program": r2.get("program"), "lang": "py",
                               "oracle": "harness/pyexec.py"}, found=True)
            res.coverage["python_tests_really_run"] = {"cached": cached2, "functions": len(rows), "outcomes": (prep.get("summary") or {}).get("selftest_counts"),
                                                       "agree_with_model": sum(1 for r2 in rows if r2.get("agree") is True),
                                                       "explained_by_factory_rebinding": n_rebound, "module_does_not_import": n_module}
    res.assumptions += ["the target toolchains and test runners are absent: 'builds' is decided by the scaffold interpreter (agrees with javac/g++ on every program where those reach the test)",
                        "the runtime behaves as IR/Sem.v says (the runtime contract)"]


# ----------------------------------------------------------------------------------------
# Execution oracles (Go and Python toolchains are present): a packet the proved-sound validator accepts
# must behave as the specification says when the emitted code is really run against the stand-in runtime
# ----------------------------------------------------------------------------------------

def exec_acceptance(res, known):
    gaps = {f["exec_gap"]: f for f in known["findings"] if "exec_gap" in f}
    cov = {}
    # Go
    rc, out, rep, cached = run_report("goexec.py", ["--programs", "all"], "goexec_report.json", 3000)
    if rep is None:
        res.violation({"kind": "harness", "what": "harness/goexec.py did not complete", "output": out[-2000:]}, found=False)
    else:
        acc = rep.get("acceptance", {})
        for v in (acc.get("violations") or [])[:4]:
            res.violation({"kind": "codec", "what": "a Go packet the validator accepts disagrees with the wire specification when the emitted code is really executed: %s %s [%s] %s"
                           % (v.get("program"), v.get("packet"), v.get("label"), v.get("verdict")), "detail": v.get("detail"), "program": v.get("program"),
                           "lang": "go", "oracle": "harness/goexec.py"}, found=True)
        for gid, g in (acc.get("model_gaps") or {}).items():
            f = gaps.get(gid)
            if f is not None:
                res.known.append("finding=%s %s (x%d messages, e.g. program %s)" % (f["id"], f["what"][:300], g.get("messages", 0), (g.get("witness") or {}).get("program")))
            else:
                res.violation({"kind": "codec", "what": "execution of emitted Go disagrees with the model in an unrecorded way: %s" % gid, "detail": g.get("what"),
                               "witness": g.get("witness")}, found=True)
        for e in (rep.get("coq_errors") or [])[:1]:
            res.violation({"kind": "proof-obligation", "what": "goexec: evaluation of the specification failed", "output": str(e)[-1500:]}, found=False)
        cov["go"] = {"cached": cached, "counts": rep.get("counts"), "accepted_packets": acc.get("packets_accepted"), "agree_messages": acc.get("messages_agree"),
                     "times": rep.get("times")}
    # Python
    rc, out, rep, cached = run_report("pyexec.py", ["--programs", "all"], "pyexec_report.json", 3000)
    if rep is None:
        res.violation({"kind": "harness", "what": "harness/pyexec.py did not complete", "output": out[-2000:]}, found=False)
    else:
        sm = rep.get("summary", {})
        for v in ((sm.get("acceptance_a") or {}).get("failures") or [])[:4]:
            res.violation({"kind": "codec", "what": "a Python packet the validator accepts disagrees with the wire specification when the emitted code is really executed: %s %s [%s] %s"
                           % (v.get("program"), v.get("packet"), v.get("label"), v.get("verdict")), "detail": v.get("detail"), "program": v.get("program"),
                           "lang": "py", "oracle": "harness/pyexec.py"}, found=True)
        for e in (rep.get("coq_errors") or [])[:1]:
            res.violation({"kind": "proof-obligation", "what": "pyexec: evaluation of the specification failed", "output": str(e)[-1500:]}, found=False)
        cov["py"] = {"cached": cached, "acceptance_a": {k: v for k, v in (sm.get("acceptance_a") or {}).items() if k in ("executions", "agree")},
                     "verdicts": sm.get("verdicts"), "selftests": sm.get("selftest_counts"), "model_disagreements": sm.get("model_disagreements")}
    res.coverage["execution_oracles"] = cov
    res.assumptions += ["the stand-in runtimes of harness/stubs/go and harness/pyexec_rt implement the contract of IR/Sem.v (they are small, and were checked against Sem.v on every extracted IR)"]
