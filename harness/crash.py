"""Crash scan of the compile path (C11): every text is parsed, visited and - when accepted -
handed to all six generators through the hook; recovered panics are classified by the
innermost module function on the stack, fatal crashes (stack overflow) by the hook dying."""
import collections
import json
import os
import subprocess
import sys

sys.path.insert(0, os.path.dirname(os.path.abspath(__file__)))
import core

ALL_LANGS = ["lua", "rust", "go", "java", "python", "cpp"]


def scan(texts, allow_cyclic=False):
    """texts: [(kind, str)] -> list of events {stage, site, lang, text, kind}, stats"""
    hook = core.Hook()
    events = []
    stats = collections.Counter()
    for kind, text in texts:
        resp = hook.ask({"op": "gen", "text": text, "langs": ALL_LANGS, "allow_cyclic": allow_cyclic})
        if resp.get("fatal"):
            stats["fatal"] += 1
            events.append({"stage": "fatal", "site": "process died (stack overflow or runtime fatal error)", "lang": "?", "text": text, "kind": kind})
            continue
        if "panic" in resp:
            stats["visitor panic"] += 1
            events.append({"stage": "visitor", "site": (resp.get("frames") or ["?"])[0], "lang": "-", "text": text, "kind": kind,
                           "panic": resp["panic"]})
            continue
        if resp.get("syntax_error"):
            stats["syntax error"] += 1
            continue
        if resp.get("rejected"):
            stats["rejected with diagnostics"] += 1
            continue
        if resp.get("cyclic"):
            stats["cyclic reference graph (generators not run)"] += 1
            events.append({"stage": "cyclic", "site": "reference cycle", "lang": "-", "text": text, "kind": kind})
            continue
        stats["compiled"] += 1
        for st in resp.get("steps", []):
            if "panic" in st:
                stats["generator panic"] += 1
                events.append({"stage": "generator", "site": (st.get("frames") or ["?"])[0], "lang": st["lang"], "text": text, "kind": kind,
                               "panic": st["panic"]})
    hook.close()
    return events, stats


if __name__ == "__main__":
    import texts as T
    seed = int(sys.argv[1]) if len(sys.argv) > 1 else 1
    n = int(sys.argv[2]) if len(sys.argv) > 2 else 1500
    core.build_binaries()
    items, _ = T.generate(seed, n, core.REPO)
    tx = [(k, d.decode("utf-8", "replace")) for k, d in items]
    ev, st = scan(tx)
    print(dict(st))
    cls = collections.Counter((e["stage"], e["lang"], e["site"]) for e in ev)
    ex = {}
    for e in ev:
        ex.setdefault((e["stage"], e["lang"], e["site"]), e["text"])
    for k, v in sorted(cls.items(), key=lambda kv: -kv[1]):
        print(v, k, "| e.g.", " ".join(ex[k].split())[:160])


def event_class(e):
    return "%s|%s|%s" % (e["stage"], e["lang"], e["site"])


def classes_of(text, hook_scan=scan):
    ev, _ = hook_scan([("x", text)])
    return set(event_class(e) for e in ev)


def shrink(text, cls, budget=120):
    """Greedy delta-debugging over whitespace-separated pieces: keep removing chunks while the
    same crash class still occurs."""
    toks = text.split()
    n = 2
    tries = 0
    while len(toks) >= 2 and tries < budget:
        chunk = max(1, len(toks) // n)
        removed = False
        for i in range(0, len(toks), chunk):
            cand = toks[:i] + toks[i + chunk:]
            tries += 1
            if cand and cls in classes_of(" ".join(cand)):
                toks = cand
                n = max(n - 1, 2)
                removed = True
                break
            if tries >= budget:
                break
        if not removed:
            if chunk == 1:
                break
            n = min(n * 2, len(toks))
    return " ".join(toks)
