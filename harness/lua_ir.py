"""Lua IR on the Python side: tuples mirroring coq/Lua/LuaIR.v, the canonical text form of
coq/Lua/LuaShow.v, and Gallina printers.

statements:
  ("Sub", parent, len, label) ("App", tree) ("Add", tree, field, lexpr, le) ("Txt", tree, label, var, len)
  ("Adv", lexpr) ("Int", x, w, meth) ("Str", x, lexpr) ("For", limit, [stmt]) ("Call", f, tree, assign)
  ("If", [(keyvar, literal, [stmt])]) ("Info", text) ("Marker", text) ("Ret",) ("Junk", text)
lexpr: int (a literal) | str (a variable name)
program: {"fields": [(key, ctor)], "funs": [(name, is_local, [stmt])], "main": [stmt]}
"""
from core import g_str, g_bool, g_nat, g_list
from ir import codes, sb


def show_lexpr(e):
    return str(e) if isinstance(e, int) else "$" + e


def show_stmt(s):
    k = s[0]
    if k == "Sub":
        return "Sub(%s,%d,%s)" % (s[1], s[2], codes(s[3]))
    if k == "App":
        return "App(%s)" % s[1]
    if k == "Add":
        return "Add(%s,%s,%s,%s)" % (s[1], s[2], show_lexpr(s[3]), sb(s[4]))
    if k == "Txt":
        return "Txt(%s,%s,%s,%d)" % (s[1], codes(s[2]), s[3], s[4])
    if k == "Adv":
        return "Adv(%s)" % show_lexpr(s[1])
    if k == "Int":
        return "Int(%s,%d,%s)" % (s[1], s[2], s[3])
    if k == "Str":
        return "Str(%s,%s)" % (s[1], show_lexpr(s[2]))
    if k == "For":
        return "For(%s)[%s]" % (s[1], ";".join(show_stmt(x) for x in s[2]))
    if k == "Call":
        return "Call(%s,%s,%s)" % (s[1], s[2], sb(s[3]))
    if k == "If":
        return "If[%s]" % "|".join("%s==%s[%s]" % (kv, codes(lit), ";".join(show_stmt(x) for x in body))
                                   for kv, lit, body in s[1])
    if k == "Info":
        return "Info(%s)" % codes(s[1])
    if k == "Marker":
        return "Marker(%s)" % codes(s[1])
    if k == "Ret":
        return "Ret"
    return "Junk<%s>" % codes(s[1])


def show_body(b):
    return "[" + ";".join(show_stmt(s) for s in b) + "]"


def show_parts(prog):
    """The parts of show_lprog (which joins them with '#')."""
    parts = ["fields[%s]" % ",".join("%s:%s" % (n, c) for n, c in prog["fields"])]
    for name, loc, body in prog["funs"]:
        parts.append("fun %s %s %s" % (name, "L" if loc else "G", show_body(body)))
    parts.append("main " + show_body(prog["main"]))
    return parts


# ---------------------------------------------------------------- Gallina

def g_lexpr(e):
    return "(LConst %s)" % g_nat(e) if isinstance(e, int) else "(LVar %s)" % g_str(e)


def g_stmt(s):
    k = s[0]
    if k == "Sub":
        return "(LSubtree %s %s %s)" % (g_str(s[1]), g_nat(s[2]), g_str(s[3]))
    if k == "App":
        return "(LAppendText %s)" % g_str(s[1])
    if k == "Add":
        return "(LAdd %s %s %s %s)" % (g_str(s[1]), g_str(s[2]), g_lexpr(s[3]), g_bool(s[4]))
    if k == "Txt":
        return "(LAddText %s %s %s %s)" % (g_str(s[1]), g_str(s[2]), g_str(s[3]), g_nat(s[4]))
    if k == "Adv":
        return "(LAdv %s)" % g_lexpr(s[1])
    if k == "Int":
        return "(LLocalInt %s %s %s)" % (g_str(s[1]), g_nat(s[2]), g_str(s[3]))
    if k == "Str":
        return "(LLocalStr %s %s)" % (g_str(s[1]), g_lexpr(s[2]))
    if k == "For":
        return "(LFor %s %s)" % (g_str(s[1]), g_list(s[2], g_stmt))
    if k == "Call":
        return "(LCall %s %s %s)" % (g_str(s[1]), g_str(s[2]), g_bool(s[3]))
    if k == "If":
        return "(LIfChain %s)" % g_list(s[1], lambda a: "(%s, %s, %s)" % (g_str(a[0]), g_str(a[1]), g_list(a[2], g_stmt)))
    if k == "Info":
        return "(LInfo %s)" % g_str(s[1])
    if k == "Marker":
        return "(LMarker %s)" % g_str(s[1])
    if k == "Ret":
        return "LReturnOffset"
    return "(LJunk %s)" % g_str(s[1])


def g_lprog(prog):
    return "(mkLua %s %s %s)" % (
        g_list(prog["fields"], lambda e: "(%s, %s)" % (g_str(e[0]), g_str(e[1]))),
        g_list(prog["funs"], lambda f: "(mkFun %s %s %s)" % (g_str(f[0]), g_bool(f[1]), g_list(f[2], g_stmt))),
        g_list(prog["main"], g_stmt))
