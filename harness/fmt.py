"""Formatter: correspondence of the Coq model (coq/Fmt/Formatter.v, format_res) with the real
FormatPacketDsl, and the property oracles of C09 / C10 / C11(format) on the REAL formatter.

  python3 harness/fmt.py --seed S --n N        (N texts of harness/texts.py + the formatter streams)

1. CORRESPONDENCE.  For every text (as the rune list Go's []rune(string) yields) the model's
   format_res, evaluated by vm_compute inside coqc, must be
       OK:<text>   exactly the text the real function returns with err == nil,
       ERR:<text>  the input, when the real function returns an error,
   and the real function must not panic (the model has an explicit PANIC result).  Texts: the
   streams of texts.py (valid programs with comments at token boundaries, CRLF, multi-line doc
   strings, faults, junk, empty) and the formatter streams below (a comment at EVERY token
   boundary, attached and on its own line; key lists of length 1..12, digits / strings / mixed;
   doc strings and strings with embedded line breaks at every nesting depth; bare CR; Unicode
   spaces at the end; compilable programs re-laid out; the OUTPUTS of the real formatter and
   RE-LAYOUTS of the valid texts, so the model is also checked on the second pass).

2. ORACLES on the real formatter.  x ranges over the texts the real formatter accepts:
   (a) parse     format(x) lexes and parses without error (real lexer/parser);
   (b) compile   the six generators produce byte-identical file maps for x and format(x)
                 (hook op "gen", one model, languages in a fixed order); texts the compiler
                 rejects, whose reference graph is cyclic, or on which a generator fails or
                 panics are skipped and counted;
   (c) content   D(format(x)) = E(x): D = the default-channel token texts, E(x) = D(x) with a ","
                 inserted after every matchPair that has none (the only separator the formatter
                 may add; nothing else may appear, disappear, change or move);
                 C(format(x)) = C(x): the texts of the comments, in order; the doc strings
                 (STRING_LITERAL tokens), in order, are part of D;
   (d) idempotent format(format(x)) = format(x);
   (e) canonical  format(y) = format(x) for re-layouts y of x: same tokens (comments included);
                 between two tokens any of space, tab, blank line, LF, CRLF; a comment that
                 follows a token on its line stays on the line of that token, a comment on a
                 line of its own stays on a line of its own;
   for the texts the real formatter rejects: the result is the input and an error is reported;
   for all texts: no panic, an answer within the hook's time (C11).
   In file mode (fin-protoc format -f) a handful of files check: rewritten with the result /
   left unchanged with exit status 1.
   Every violation is put into a deviation class.  KNOWN maps the class ids to a description and a
   minimal witness (re-validated on every run); anything else is printed as NEW-DEVIATION.

Exit status 0 iff model = real on every text and there is no NEW-DEVIATION.
Writes .build/fmt_report.json.
"""
import argparse
import collections
import concurrent.futures
import json
import os
import random
import re
import resource
import shutil
import subprocess
import sys
import tempfile

sys.path.insert(0, os.path.dirname(os.path.abspath(__file__)))
import core
import corpus
import texts
import tree

LANGS = ["lua", "rust", "go", "java", "python", "cpp"]
T_LBRACE, T_RBRACE, T_LBRACK, T_RBRACK = 2, 3, 18, 13
T_STRING, T_COMMA, T_DOC, T_COMMENT = 31, 40, 43, 44

PRELUDE = """From FP Require Import Lexer Parser ShowPT Digest Formatter.
From Coq Require Import String List NArith.
Import ListNotations.
Open Scope string_scope.
Set Printing Width 100000000.
Set Printing Depth 100000000.
Definition show_fres (r : fres) : string :=
  match r with
  | FOk s => "OK:" ++ sh_escaped s ""
  | FErr s => "ERR:" ++ sh_escaped s ""
  | FPanic p => "PANIC:" ++ p
  end.
Definition check (rs : list rune) : string := digest (show_fres (format_res rs)).
Definition full (rs : list rune) : string := show_fres (format_res rs).
"""


# ------------------------------------------------------------------ deviation classes

KNOWN = {
    # ---- C09 content: comments
    "CMT-INSIDE-NODE": dict(
        oracle="content", desc="a comment between two tokens of one field, declaration, header or match pair is dropped "
        "(only the start and stop tokens of a node, its attributes and its closing brace are asked for hidden tokens, formattor.go:44-119)",
        witness="packet A {\n    u8 // c\n    x,\n}"),
    "CMT-GLUED-CR": dict(
        oracle="content", desc="the lexer ends a comment at a bare CR but counts lines by LF only: two comments separated by "
        "CR are 'on the same line' and getHiddenRightAtSameLine concatenates them into one (formattor.go:84)",
        witness="packet A {\n}// a\r// b"),
    # ---- C09 content: default-channel tokens
    "DOC-REINDENT": dict(
        oracle="content", desc="a doc string with an embedded line break is changed: AddIndent re-indents every line of the "
        "printed field, the inside of the backquotes included (common.go:106-109 via the AddIndent4ln calls of formattor.go)",
        witness="packet A {\n    u8 x `a\nb`,\n}"),
    "STR-REINDENT": dict(
        oracle="content", desc="a string with an escaped line break (backslash, line break) is changed by the same "
        "re-indentation (common.go:106-109)",
        witness="options {\n    a = \"x\\\ny\";\n}"),
    # ---- C09 compile
    "GEN-STR-REINDENT": dict(
        oracle="compile", desc="the generated code differs after formatting: a string with an escaped line break (an option "
        "value such as JavaPackage, the algorithm name of @calculatedFrom) was re-indented and is copied into the generated sources",
        witness="root packet A {\n    u8 x,\n    u32 c @calculatedFrom(\"CRC\\\n32\"),\n}"),
    # ---- C10 idempotence
    "IDEM-DOC-REINDENT": dict(
        oracle="idempotent", desc="every pass adds the indentation once more to the continuation lines of a multi-line doc "
        "string (or string with an escaped line break)",
        witness="packet A {\n    u8 x `a\nb`,\n}"),
    # ---- C10 canonical
    "CANON-CR": dict(
        oracle="canonical", desc="a bare CR ends a comment but is no line break for GetLine: a comment on a line of its own "
        "after CR counts as being on the line of the token before it, after LF it does not (formattor.go:80)",
        witness="packet A {\n    u8 x,\r    // c\r    u8 y,\n}"),
    # ---- C11
    "C11-STACK-DEPTH": dict(
        oracle="no-crash", desc="the generated recursive-descent parser recurses once per nesting level of "
        "'Name { ... },' (packetdsl_parser.go FieldDefinition -> InerObjectDeclaration -> FieldDefinition): a text nested "
        "5 000 000 deep (35 MB) ends the process with 'fatal error: stack overflow' (exit status 2, not a recoverable "
        "panic, no diagnostic); 1 000 000 deep is still answered",
        witness=None),
    # ---- file mode / bytes
    "UTF8-REPLACED": dict(
        oracle="content", desc="a byte that is not valid UTF-8 inside a comment, string or doc string is written back as "
        "U+FFFD (antlr.NewInputStream converts to runes, GetText converts back)",
        witness=None),
}


# ------------------------------------------------------------------ helpers

def esc(b):
    out = []
    for c in b:
        if 32 <= c <= 126 and c not in (34, 92):
            out.append(chr(c))
        else:
            out.append("\\x%02x" % c)
    return "".join(out)


def runes_of(s):
    return [ord(c) for c in s]


class Real:
    """The real lexer, parser, formatter and generators through the hook."""

    def __init__(self):
        self.hook = core.Hook()
        self.panics = []
        self.fatal = []
        self.cache = {}

    def close(self):
        self.hook.close()

    def fmt(self, text):
        """('OK' | 'ERR' | 'PANIC', result text)"""
        if text in self.cache:
            return self.cache[text]
        r = self.hook.ask({"op": "format", "text": text})
        if r.get("fatal"):
            self.fatal.append(text)
            v = ("PANIC", "fatal")
        elif "panic" in r:
            self.panics.append((text, r["panic"], r.get("frames")))
            v = ("PANIC", r["panic"])
        else:
            v = ("OK" if r["ok"] else "ERR", r["result"])
        self.cache[text] = v
        return v

    def lex(self, text):
        return self.hook.ask({"op": "lex", "text": text})

    def parse(self, text):
        return self.hook.ask({"op": "parse", "text": text})

    def gen(self, text):
        """('files', {lang: files}) | ('skip', reason)"""
        r = self.hook.ask({"op": "gen", "text": text, "langs": LANGS})
        if r.get("fatal"):
            return ("skip", "fatal")
        if "panic" in r:
            return ("skip", "panic")
        if r.get("syntax_error"):
            return ("skip", "syntax")
        if r.get("rejected"):
            return ("skip", "rejected")
        if r.get("cyclic"):
            return ("skip", "cyclic")
        if "model" in r and core.name_collision(self.hook, r["model"]):
            return ("skip", "file-name collision (C13 finding: output not deterministic)")
        out = {}
        for st in r.get("steps") or []:
            if "files" not in st:
                return ("skip", "generator " + ("panic" if "panic" in st else "error"))
            out[st["lang"]] = st["files"]
        return ("files", out)


class Analysis:
    """Tokens, gaps and tree roles of one error-free text."""

    def __init__(self, real, text):
        self.text = text
        runes = runes_of(text)
        lx = real.lex(text)
        ps = real.parse(text)
        self.ok = lx.get("errors", 1) == 0 and ps.get("errors", 1) == 0
        if not self.ok:
            return
        toks = lx.get("tokens") or []
        # rune offsets of (line, column) as the lexer counts them (LF only)
        pos, line, col = {}, 1, 0
        for i, r in enumerate(runes):
            pos[(line, col)] = i
            if r == 10:
                line, col = line + 1, 0
            else:
                col += 1
        pos[(line, col)] = len(runes)
        self.toks = []           # (type, text, line, hidden, start, end)
        for t in toks:
            st = pos[(t[2], t[3])]
            self.toks.append((t[0], t[1], t[2], t[4] != 0, st, st + len(t[1])))
        self.gaps = []           # len(toks)+1 strings
        p = 0
        for t in self.toks:
            self.gaps.append(text[p:t[4]])
            p = t[5]
        self.gaps.append(text[p:])
        self.eof = len(self.toks)          # token index of the EOF token
        self.default = [i for i, t in enumerate(self.toks) if not t[3]]
        self.comments = [i for i, t in enumerate(self.toks) if t[3]]
        # tree roles
        self.starts_kept, self.stops_kept = set(), set()
        self.add_comma_after = set()
        self.list_ranges = []
        self.walk(ps["tree"])
        kids = ps["tree"]["c"]
        if kids:
            self.starts_kept.add(self.default[0])
            self.stops_kept.add(self.default[-1])
        # the comments in front of the end of the text: getHiddenLeft(EOF) of an empty program, getHiddenRight of the last token
        self.starts_kept.add(self.eof)

    def walk(self, n):
        """(first, last) token index of the node"""
        if "t" in n:
            return n["i"], n["i"]
        first = last = None
        spans = []
        for k in n["c"]:
            a, b = self.walk(k)
            spans.append((k, a, b))
            if first is None:
                first = a
            last = b
        r = n["r"]
        if r in ("packetDefinition", "optionDefinition", "optionDeclaration", "fieldDefinition", "matchPair", "metaDataDefinition"):
            self.starts_kept.add(first)
            self.stops_kept.add(last)
        if r == "metaDataDefinition":
            # the entries of a MetaData block are treated like the fields of a packet
            for k, a, b in spans:
                if k.get("r") in ("metaDataDeclaration", "refMetaDataDeclaration"):
                    self.starts_kept.add(a)
                    self.stops_kept.add(b)
        if r == "fieldAttribute":
            self.starts_kept.add(first)
        if r in ("packetDefinition", "optionDefinition", "metaDataDefinition", "matchFieldDeclaration", "inerObjectDeclaration"):
            self.starts_kept.add(last)          # the closing brace: comments in front of it are printed inside the block
        if r == "matchPair" and not ("t" in n["c"][-1] and n["c"][-1]["t"] == T_COMMA):
            self.add_comma_after.add(last)
        if r == "list":
            self.list_ranges.append((first, last))
        return first, last

    # ---- what the oracles compare
    def D(self):
        return [(self.toks[i][0], self.toks[i][1]) for i in self.default]

    def E(self):
        out = []
        for i in self.default:
            out.append((self.toks[i][0], self.toks[i][1]))
            if i in self.add_comma_after:
                out.append((T_COMMA, ","))
        return out

    def C(self):
        return [self.toks[i][1] for i in self.comments]

    def neighbours(self, ci):
        a = ci - 1
        while a >= 0 and self.toks[a][3]:
            a -= 1
        b = ci + 1
        while b < len(self.toks) and self.toks[b][3]:
            b += 1
        return (a if a >= 0 else None), b          # b == self.eof when there is no token after it

    def comment_fate(self, ci):
        """('kept-left' | 'kept-right' | class id of the drop) as the reading of the Go code predicts"""
        a, b = self.neighbours(ci)
        # the right side of a node is asked before the left side of the next one
        if a is not None and a in self.stops_kept and self.toks[ci][2] == self.toks[a][2]:
            return "kept-right"
        if b in self.starts_kept:
            return "kept-left"
        return "CMT-INSIDE-NODE"

    def predicted_comments(self):
        """(comment texts the formatter is predicted to print, classes of the predicted losses)"""
        out, classes = [], set()
        glue_to = None
        for ci in self.comments:
            fate = self.comment_fate(ci)
            a, _ = self.neighbours(ci)
            if fate == "kept-right":
                if glue_to == a:
                    out[-1] = out[-1] + self.toks[ci][1]
                    classes.add("CMT-GLUED-CR")
                else:
                    out.append(self.toks[ci][1])
                    glue_to = a
                continue
            glue_to = None
            if fate == "kept-left":
                out.append(self.toks[ci][1])
            else:
                classes.add(fate)
        return out, classes


UNI_SPACE = "\t\n\x0b\x0c\r \x85\xa0\u1680\u2000\u2001\u2002\u2003\u2004\u2005\u2006\u2007\u2008\u2009\u200a\u2028\u2029\u202f\u205f\u3000"


def go_trim_space(s):
    return s.strip(UNI_SPACE)


def norm_nl_indent(s):
    return re.sub(r"\n[ ]*", "\n", s)


def compare_content(ax, af):
    """Oracle (c) on the analyses of x and format(x): (violated?, classes, unexplained messages)"""
    classes, new = set(), []
    ex, df = ax.E(), af.D()
    if ex != df:
        expl = len(ex) == len(df)
        if expl:
            # positions of E(x) that belong to a key list, by list
            lists, cur, k = [], None, 0
            for i, (ty, _) in enumerate(ex):
                if ty == T_LBRACK:
                    cur = []
                elif ty == T_RBRACK and cur is not None:
                    lists.append(cur)
                    cur = None
                elif cur is not None:
                    cur.append(i)
            in_list = {}
            for li, l in enumerate(lists):
                for i in l:
                    in_list[i] = li
            bad_lists = set()
            for i in range(len(ex)):
                if ex[i] == df[i]:
                    continue
                if ex[i][0] == df[i][0] and ex[i][0] in (T_DOC, T_STRING) and norm_nl_indent(ex[i][1]) == norm_nl_indent(df[i][1]) \
                        and i not in in_list:
                    classes.add("DOC-REINDENT" if ex[i][0] == T_DOC else "STR-REINDENT")
                elif i in in_list:
                    bad_lists.add(in_list[i])
                else:
                    expl = False
            for li in bad_lists:
                a = [ex[i] for i in lists[li] if ex[i][0] != T_COMMA]
                b = [df[i] for i in lists[li] if df[i][0] != T_COMMA]
                # the items keep their order; a string with an escaped line break may be re-indented
                b2 = [(t, norm_nl_indent(x)) for t, x in b]
                a2 = [(t, norm_nl_indent(x)) for t, x in a]
                if b2 == a2:
                    classes.add("STR-REINDENT")
                elif b2 == [t for t in a2 if t[0] != T_STRING] + [t for t in a2 if t[0] == T_STRING]:
                    classes.add("KL-REORDER")          # repaired (numbers were printed first): not a recorded class any more
                else:
                    expl = False
        if not expl:
            new.append("default-channel tokens: expected %r, got %r" % (first_diff_list(ex, df)))
    cx, cf = ax.C(), af.C()
    if cx != cf:
        pred, cl = ax.predicted_comments()
        # the final TrimSpace touches the last comment when the text ends with it
        pred2 = list(pred)
        if pred2 and cf and pred2[-1] != cf[-1] and go_trim_space(pred2[-1]) == cf[-1] and af.text.endswith(cf[-1]):
            pred2[-1] = cf[-1]
            cl = cl | {"CMT-TRIM-END"}
        if pred2 == cf:
            classes |= cl
        else:
            new.append("comments: the source has %r, the reading of the code predicts %r, the formatter printed %r" % (cx, pred, cf))
    return (ex != df or cx != cf), classes, new


def first_diff_list(a, b):
    i = 0
    while i < min(len(a), len(b)) and a[i] == b[i]:
        i += 1
    return a[max(0, i - 2):i + 4], b[max(0, i - 2):i + 4]


# ------------------------------------------------------------------ layout

WS_ANY = [" ", " ", " ", "\n", "\n    ", "\t", "\r\n", "  ", "\n\n", "\r\n\r\n    ", " \n", "\n\t"]
WS_INLINE = [" ", "  ", "\t", "", " \t "]
WS_BREAK = ["\n", "\r\n", "\n\n", "\n    ", "\r\n\t", " \n  "]


def relayout(rng, an, cr=False):
    """Another layout of the same tokens (see the module doc, oracle e)."""
    toks = an.toks
    out = []
    n = len(toks)
    brk = (lambda: rng.choice(WS_BREAK + ["\r", "\r    "])) if cr else (lambda: rng.choice(WS_BREAK))
    for i in range(n + 1):
        prev = toks[i - 1] if i > 0 else None
        nxt = toks[i] if i < n else None
        old = an.gaps[i]
        has_break = ("\n" in old) or ("\r" in old)
        if prev is None:
            g = rng.choice(["", "", "\n", "  ", "\r\n", "\n\n  "])
        elif nxt is None:
            g = rng.choice(["", "\n", "\r\n", "\n\n", " "]) if not prev[3] else rng.choice(["", "\n", "\r\n", "\n \n"])
        elif prev[3]:
            g = brk().lstrip(" ") + rng.choice(["", "", "  ", "\t"])            # a comment runs to the end of its line
        elif nxt[3]:
            if has_break:
                g = rng.choice(["", " "]) + brk() + rng.choice(["", "    "])     # on a line of its own
            else:
                g = rng.choice(WS_INLINE)                         # stays on the line of prev
        else:
            g = rng.choice(WS_ANY)
            if g == "" and texts.must_separate(prev[1], nxt[1]):
                g = " "
            if rng.random() < 0.15 and not texts.must_separate(prev[1], nxt[1]):
                g = ""
        if prev is not None and nxt is not None and g == "" and not prev[3] and texts.must_separate(prev[1], nxt[1]):
            g = " "
        out.append(g)
        if nxt is not None:
            out.append(nxt[1])
    return "".join(out)


def comment_everywhere(toks, mode, rng=None):
    """A comment at every token boundary. mode: 'attached' | 'own' | 'mixed'"""
    out = []
    for i, t in enumerate(toks):
        m = mode if mode != "mixed" else rng.choice(["attached", "own", "none", "both"])
        if i == 0:
            out.append("// top\n" if m != "none" else "")
        out.append(t)
        c = "// c%d" % i
        if m == "attached":
            out.append(" " + c + "\n")
        elif m == "own":
            out.append("\n    " + c + "\n")
        elif m == "both":
            out.append(" " + c + "a\n  " + c + "b\n")
        else:
            out.append(" ")
    return "".join(out)


def comment_at(toks, i, mode):
    seps = texts.fix(toks, [""] + [" "] * (len(toks) - 1) + [""])
    c = "// c"
    if mode == "attached":
        seps[i] = (" " if i > 0 else "") + c + "\n"
    else:
        seps[i] = "\n" + c + "\n"
    return texts.join(toks, seps)


def key_list_texts():
    out = []
    digs = ["1", "22", "007", "4", "5", "66", "7", "8", "9", "10", "11", "12"]
    strs = ['"a"', '"bb"', '"c c"', '"d"', '"e"', '"f"', '"g"', '"h"', '"i"', '"j"', '"k"', '"l"']
    for n in range(1, 13):
        for pat in ("d", "s", "ds", "sd", "dds", "ssd"):
            items = []
            for k in range(n):
                items.append(digs[k] if pat[k % len(pat)] == "d" else strs[k])
            for comma in (",", ""):
                out.append("packet A {\n  match k as n {\n    [%s] : B%s\n    2 : C\n  },\n}" % (", ".join(items), comma))
        out.append("packet A { Inner { match k as n { [%s] : B, }, }, }" % ",".join(digs[:n]))
    return out


def doc_texts():
    out = []
    docs = ["`a\nb`", "`a\r\nb`", "`\n`", "`a\n    b\n  c`", "`a\n\nb`", "`x\n`", "`\nx`", "`tab\n\tx`",
            # characters special to printf-style formatting, in every declaration kind
            "`100% of %s %d %v`", "`%`", "`%%d%!`"]
    for d in docs:
        out.append("packet A {\n    u8 x %s,\n}" % d)
        out.append("packet A {\n    B b %s,\n    B %s,\n    repeat B bs %s,\n}" % (d, d, d))
        out.append("packet A {\n    u16 len @lengthOf(body) %s,\n    u32 crc @calculatedFrom(\"CRC32\") %s,\n    string body,\n}" % (d, d))
        out.append("packet A {\n    Inner {\n        u8 x %s,\n        Deep {\n            u8 y %s,\n        },\n    },\n}" % (d, d))
        out.append("MetaData M {\n    u8 x %s,\n    T t %s,\n}" % (d, d))
        out.append("root packet A {\n    u8 x %s,\n}" % d)
    strs = ['"x\\\ny"', '"x\\\r\ny"', '"\\\n"', '"%d%s"']
    for s in strs:
        out.append("options {\n    a = %s;\n    b = %s\n}" % (s, s))
        out.append("packet A {\n    u32 crc @calculatedFrom(%s),\n    @calculatedFrom(%s) u8 y,\n}" % (s, s))
        out.append("packet A {\n    match k as n {\n        %s : B,\n        [%s, 1] : C,\n        [1,2,3,4,5,%s] : D,\n    },\n}" % (s, s, s))
    return out


def edge_texts():
    sp = [" ", "\u3000", "\u00a0", "\u0085", "\u1680", "\u2000", "\u200a", "\u2028", "\u2029", "\u202f", "\u205f", "\x0b", "\x0c", " \t", "\u200b", "\ufeff", "\u180e", " x"]
    out = []
    for s in sp:
        out.append("packet A {\n}// c" + s)
        out.append("// c" + s)
        out.append("packet A {\n}\n// c" + s)
        out.append("// c" + s + "\npacket A {\n}")
        out.append("packet A {\n u8 x `d" + s + "`, // c" + s + "\n}")
    out += [
        "packet A {\n}// a\r// b", "packet A {\n}// a\r// b\r// c\n", "packet A {\n    u8 x,\r    // c\r    u8 y,\n}",
        "packet A {\r    u8 x, // c\r    u8 y,\r}\r", "options {\r a = 1 // c\r b = 2; // d\r}", "// a\r// b\rpacket A {}",
        "packet A { match k as n { 1 : B // a\r // b\r 2 : C }, }",
        "packet A {\n}\n\n\n", "\n\n  packet A {}", "packet A {} packet B {} MetaData M {} options {}",
        "MetaData M {\n}// c", "MetaData M {\n}// c\nMetaData N {\n}// d", "MetaData M {\n}// c\npacket A {}", "MetaData M {\n}// c\noptions {}",
        "// a\nMetaData M {} // b\n// c\nMetaData N {} // d\n// e",
        "packet A { u8 x, } // a\n// b\npacket B {} // c\n// d", "options { a = 1 // a\n ; }", "options { a = 1; // a\n b = 2 // b\n }",
        "options { // a\n }", "packet A { // a\n }", "packet A { // a\n u8 x, }", "packet A { B { // a\n u8 x, // b\n } // c\n , // d\n }",
        "packet A { match k as n // a\n { // b\n 1 // c\n : // d\n B // e\n , // f\n } // g\n , // h\n }",
        "packet A { match k as n { [ // a\n 1 // b\n , // c\n 2 ] // d\n : B }, }",
        "packet A { @tag(1) // a\n @leftPad('0') // b\n char[4] x, }", "packet A { // a\n @tag(1) u8 x, // b\n // c\n @tag(2) u8 y, }",
        "packet A { @tag( // a\n 1 ) u8 x, }", "packet A { @leftPad() char[4] x, @rightPad( ) zchar[2] y, }",
        "root // a\n packet // b\n A // c\n { }", "packet A { repeat // a\n B // b\n b // c\n `d` // e\n , }",
        "packet A { u16 // a\n len // b\n @lengthOf( // c\n body // d\n ) // e\n `d` // f\n , }",
        "packet A { char[ // a\n 3 // b\n ] // c\n x, }",
        "packet A { u8 x,// a\n\n\n// b\n\n u8 y, }",
        "packet A {\n    match k as n {\n        1 : B,// c\n    },\n}", "packet A {\n    match k as n {\n        1 : B,\n        // c\n    },\n}",
        "packet A {\n    match k as n {\n        1 : B // c\n        , // d\n    },\n}",
    ]
    return out


def formatter_stream(rng, real, n_gen):
    """(kind, text) pairs of the formatter's own streams."""
    out = []
    for t in key_list_texts():
        out.append(("fmt:keylist", t))
    for t in doc_texts():
        out.append(("fmt:doc", t))
    for t in edge_texts():
        out.append(("fmt:edge", t))
    g = texts.Gen(rng)
    k = 0
    while k < n_gen:
        toks = g.program(big=False)
        if not 4 <= len(toks) <= 60:
            continue
        k += 1
        for mode in ("attached", "own", "mixed"):
            out.append(("fmt:comment-everywhere", comment_everywhere(toks, mode, rng)))
        if len(toks) <= 24:
            for i in range(len(toks) + 1):
                for mode in ("attached", "own"):
                    out.append(("fmt:comment-at", comment_at(toks, i, mode)))
    # compilable programs with comments and another layout (for the compile oracle)
    progs = [t for _, t in corpus.finding_programs()] + [t for _, t in corpus.layout_programs()]
    progs += [t for _, t in corpus.random_programs(rng.randrange(1 << 30), 12)]
    cp = corpus.cell_programs(corpus.pairwise_configs())
    progs += [t for _, t in rng.sample(cp, 4)]
    for p in progs:
        out.append(("fmt:compilable", p))
        an = Analysis(real, p)
        if not an.ok:
            continue
        words = [t[1] for t in an.toks]
        out.append(("fmt:compilable-commented", comment_everywhere(words, "mixed", rng)))
        out.append(("fmt:compilable-relayout", relayout(rng, an)))
        # docs with line breaks and mixed key lists inside compilable programs
        q = re.sub(r"`([^`\n]+)`", lambda m: "`%s\nmore`" % m.group(1), p, count=3)
        if q != p:
            out.append(("fmt:compilable-doc", q))
        q = re.sub(r'"(CRC32|com\.example\.msg|msg)"', lambda m: '"%s\\\n%s"' % (m.group(1)[:2], m.group(1)[2:]), p, count=2)
        if q != p:
            out.append(("fmt:compilable-str", q))
    return out


# ------------------------------------------------------------------ coqc

def coq_eval(name, body, timeout=1500):
    d = os.path.join(core.COQ, "Run")
    os.makedirs(d, exist_ok=True)
    path = os.path.join(d, name + ".v")
    with open(path, "w", encoding="latin-1") as fh:
        fh.write(PRELUDE + body)
    # VERIF_FMT_DIR: a compiled copy of coq/Fmt to evaluate instead (to try out mutants of the model)
    args = ["-Q", os.path.join(core.COQ, "Syntax"), "FP", "-Q", os.environ.get("VERIF_FMT_DIR") or os.path.join(core.COQ, "Fmt"), "FP"]

    def pre():
        soft, hard = resource.getrlimit(resource.RLIMIT_STACK)
        want = 4 << 30
        if hard != resource.RLIM_INFINITY:
            want = min(want, hard)
        resource.setrlimit(resource.RLIMIT_STACK, (want, hard))

    for attempt in range(3):
        r = subprocess.run(["timeout", str(timeout), "coqc"] + args + [path], stdout=subprocess.PIPE, stderr=subprocess.PIPE,
                           cwd=d, preexec_fn=pre)
        if r.returncode >= 0 and r.returncode != 124:
            break
    return r.returncode, r.stdout.decode("latin-1"), r.stderr.decode("latin-1")


def run_shard(args):
    name, cases, full = args
    body = "".join('Eval vm_compute in ("<<<M%d>>>" ++ %s %s).\n' % (c["id"], "full" if full else "check", tree.g_runes(c["runes"]))
                   for c in cases)
    rc, out, err = coq_eval(name, body)
    return name, rc, core.parse_results(out), err


def excerpt(s, limit=240):
    r = repr(s)
    return r if len(r) <= limit else r[:limit] + "...(%d chars)" % len(s)


# ------------------------------------------------------------------ file mode

def file_mode_checks(real, report, deep_probe=True):
    """fin-protoc format -f on a few files: (violations as (class or None, message))"""
    exe = os.path.join(core.BUILD, "fin-protoc")
    out = []
    if not os.path.exists(exe):
        return out
    d = tempfile.mkdtemp(prefix="fmtfile", dir=core.BUILD)
    cases = [
        ("valid", b"packet A{u8 x,// c\n}\n"),
        ("valid-crlf", b"root packet A {\r\n  u8 x `d`,\r\n}\r\n"),
        ("empty", b""),
        ("syntax", b"packet A { u8 x }"),
        ("lexer", b"packet A { u8 x, } #"),
        ("trailing", b"packet A { } }"),
        ("bad-utf8-comment", b"packet A {\n} // \xff\xfe"),
        ("bad-utf8-doc", b"packet A {\n    u8 x `\xc3`,\n}"),
    ]
    n_ok = 0
    try:
        for name, data in cases:
            p = os.path.join(d, name + ".dsl")
            with open(p, "wb") as fh:
                fh.write(data)
            r = subprocess.run([exe, "format", "-f", p], stdout=subprocess.PIPE, stderr=subprocess.PIPE, timeout=60)
            after = open(p, "rb").read()
            text = tree.runes_text(tree.go_runes(data))
            kind, res = real.fmt(text)
            if kind == "OK":
                want = res.encode("utf-8")
                if r.returncode != 0 or after != want:
                    out.append((None, "file mode, %s: exit %d, file %r, the library result is %r" % (name, r.returncode, after, want)))
                else:
                    n_ok += 1
                if data.decode("utf-8", "replace") != data.decode("utf-8", "surrogateescape"):
                    # invalid bytes: are they still there?
                    if b"\xef\xbf\xbd" in after:
                        out.append(("UTF8-REPLACED", "file mode, %s: %r was rewritten as %r" % (name, data, after)))
            else:
                if r.returncode == 0 or after != data or b"Error formatting DSL" not in r.stdout:
                    out.append((None, "file mode, %s (syntax error): exit %d, file %r (was %r), stdout %r" % (name, r.returncode, after, data,
                                                                                                          r.stdout[:200])))
                else:
                    n_ok += 1
    finally:
        shutil.rmtree(d, ignore_errors=True)
    report["file_mode"] = {"cases": len(cases), "as_specified": n_ok}
    # ---- C11: deep nesting.  Cost: the text of a nested object is re-indented (copied) at every level, the output
    # has 4n^2+15n+22 bytes for depth n and the time grows with n^3 (depth 1000: 5 s, depth 3000: 90 s, 36 MB)
    import time
    n = 400
    deep = "packet A { " + "B { " * n + "u8 x, " + "}, " * n + "}"
    t0 = time.time()
    kind, res = real.fmt(deep)
    dt = time.time() - t0
    report["nesting_cost"] = {"depth": n, "seconds": round(dt, 2), "output_bytes": len(res), "kind": kind}
    if kind != "OK" or len(res) != 4 * n * n + 15 * n + 22:
        out.append((None, "depth %d: %s, %d bytes (expected %d)" % (n, kind, len(res), 4 * n * n + 15 * n + 22)))
    if dt > 60:
        out.append((None, "depth %d took %.1f s" % (n, dt)))
    if deep_probe:
        n = 5000000
        p = os.path.join(core.BUILD, "fmt_deep.dsl")
        try:
            with open(p, "w") as fh:
                fh.write("packet A { " + "B { " * n + "u8 x, " + "}, " * n + "} }")
            r = subprocess.run([exe, "format", "-f", p], stdout=subprocess.PIPE, stderr=subprocess.PIPE, timeout=600)
            report["stack_depth"] = {"depth": n, "exit": r.returncode, "stderr": r.stderr[:120].decode("latin-1")}
            if r.returncode == 2 and b"stack overflow" in r.stderr:
                out.append(("C11-STACK-DEPTH", "fin-protoc format -f on a text nested %d deep: exit %d, %s" % (
                    n, r.returncode, r.stderr[:60].decode("latin-1").replace("\n", " "))))
            elif r.returncode not in (0, 1):
                out.append((None, "fin-protoc format -f on a text nested %d deep: exit %d, %r" % (n, r.returncode, r.stderr[:200])))
        finally:
            if os.path.exists(p):
                os.remove(p)
    return out


# ------------------------------------------------------------------ main

class Deviations:
    def __init__(self):
        self.by_class = collections.defaultdict(lambda: {"count": 0, "witness": None, "oracles": collections.Counter()})
        self.new = []
        self.events = []

    def add(self, oracle, cls, text):
        self.events.append((oracle, cls, text))

    def settle(self, bad_texts):
        """A recorded finding is behaviour the faithful model REPRODUCES: a deviation on a text on which
        the real formatter disagrees with the model is tagged ':model-disagrees' (never a recorded class)."""
        for oracle, cls, text in self.events:
            if text in bad_texts:
                cls += ":model-disagrees"
            e = self.by_class[cls]
            e["count"] += 1
            e["oracles"][oracle] += 1
            if e["witness"] is None or len(text) < len(e["witness"]):
                e["witness"] = text
        self.events = []

    def add_new(self, oracle, text, msg):
        self.new.append((oracle, text, msg))


def oracles(real, text, f1, dev, stats, rng, do_gen, relayouts, extra_texts):
    """All oracles for one accepted text; f1 = format(text)."""
    ax = Analysis(real, text)
    if not ax.ok:
        dev.add_new("setup", text, "the formatter accepts the text but lexer/parser report errors")
        return
    stats["valid"] += 1
    # (a)
    af = Analysis(real, f1)
    if not af.ok:
        stats["viol_parse"] += 1
        dev.add_new("parse", text, "format(x) does not parse: %s" % excerpt(f1))
        return
    # (c)
    bad, classes, new = compare_content(ax, af)
    if bad:
        stats["viol_content"] += 1
    for c in classes:
        dev.add("content", c, text)
    for m in new:
        dev.add_new("content", text, m)
    # (d)
    k2, f2 = real.fmt(f1)
    if k2 != "OK":
        stats["viol_idem"] += 1
        dev.add_new("idempotent", text, "format(format(x)) fails: %s %s" % (k2, excerpt(f2)))
    elif f2 != f1:
        stats["viol_idem"] += 1
        a2 = Analysis(real, f2)
        if not a2.ok:
            dev.add_new("idempotent", text, "format(format(x)) does not parse")
        else:
            _, cl2, new2 = compare_content(af, a2)
            idem = set()
            for c in cl2:
                if c in ("DOC-REINDENT", "STR-REINDENT"):
                    idem.add("IDEM-DOC-REINDENT")
                else:
                    new2.append("second pass deviates by class %s" % c)
            if not cl2 and not new2:
                new2.append("format(format(x)) differs from format(x) in layout only: %s  vs  %s" % (excerpt(f1), excerpt(f2)))
            for c in idem:
                dev.add("idempotent", c, text)
            for m in new2:
                dev.add_new("idempotent", text, m)
        extra_texts.append(("fmt:second-pass", f2))
    # (e)
    for j in range(relayouts):
        cr = (j == relayouts - 1 and rng.random() < 0.2)
        y = relayout(rng, ax, cr=cr)
        ky, fy = real.fmt(y)
        stats["relayouts"] += 1
        if j == 0:
            extra_texts.append(("fmt:relayout", y))
        if ky != "OK" or fy != f1:
            stats["viol_canon"] += 1
            ay = Analysis(real, y) if ky == "OK" else None
            if ay is not None and ay.ok and [(t[0], t[1]) for t in ay.toks] != [(t[0], t[1]) for t in ax.toks]:
                dev.add_new("canonical", text, "HARNESS: the re-layout changed the tokens: %s" % excerpt(y))
            elif "\r" in re.sub(r"\r\n", "", y) or "\r" in re.sub(r"\r\n", "", text):
                dev.add("canonical", "CANON-CR", y)
            else:
                dev.add_new("canonical", text, "format(y) != format(x) for the re-layout y = %s: %s  vs  %s" % (excerpt(y), excerpt(fy), excerpt(f1)))
    # (b)
    if do_gen:
        gx = real.gen(text)
        if gx[0] == "skip":
            stats["gen_skip:" + gx[1]] += 1
        else:
            gf = real.gen(f1)
            stats["gen_checked"] += 1
            if gf[0] == "skip":
                stats["viol_compile"] += 1
                dev.add_new("compile", text, "x compiles, format(x) does not: %s" % gf[1])
            elif gf[1] != gx[1]:
                stats["viol_compile"] += 1
                langs = [l for l in LANGS if gf[1].get(l) != gx[1].get(l)]
                if "STR-REINDENT" in classes:
                    dev.add("compile", "GEN-STR-REINDENT", text)
                else:
                    dev.add_new("compile", text, "generated files differ for %s" % langs)


def validate_known(real, dev_known, rng):
    """Every KNOWN witness must still show its class."""
    lines = []
    for cid, k in sorted(KNOWN.items()):
        w = k["witness"]
        if w is None:
            continue
        d = Deviations()
        st = collections.Counter()
        kind, f1 = real.fmt(w)
        if kind != "OK":
            lines.append("KNOWN %-26s witness is not accepted any more" % cid)
            continue
        extra = []
        if k["oracle"] == "canonical":
            an = Analysis(real, w)
            y = w.replace("\r", "\n")
            fy = real.fmt(y)
            ok = fy[0] == "OK" and fy[1] != f1 and [(t[0], t[1]) for t in Analysis(real, y).toks] == [(t[0], t[1]) for t in an.toks]
            lines.append("KNOWN %-26s %s" % (cid, "reproduced" if ok else "NOT reproduced"))
            dev_known[cid] = ok
            continue
        oracles(real, w, f1, d, st, rng, k["oracle"] == "compile", 0, extra)
        d.settle(set())
        ok = cid in d.by_class
        dev_known[cid] = ok
        lines.append("KNOWN %-26s %s%s" % (cid, "reproduced" if ok else "NOT reproduced",
                                           "" if not d.new else "   (+ unexplained: %s)" % d.new[0][2][:120]))
    return lines


def main():
    ap = argparse.ArgumentParser()
    ap.add_argument("--seed", type=int, default=1)
    ap.add_argument("--n", type=int, default=3000)
    ap.add_argument("--jobs", type=int, default=16)
    ap.add_argument("--shard", type=int, default=0)
    ap.add_argument("--relayouts", type=int, default=2)
    ap.add_argument("--gen-programs", type=int, default=12, help="programs of the comment-at-every-boundary stream")
    ap.add_argument("--max-report", type=int, default=20)
    ap.add_argument("--no-make", action="store_true")
    ap.add_argument("--no-model", action="store_true", help="oracles only")
    ap.add_argument("--no-deep", action="store_true", help="skip the 35 MB deep-nesting probe of the CLI")
    a = ap.parse_args()
    tm = core.Timer()
    core.build_binaries(want_cli=True)
    if not a.no_make and not a.no_model:
        ok, out = core.coq_make()
        if not ok:
            print(out[-3000:])
            print("FAIL: the Coq development does not build")
            return 2
    rng = random.Random(a.seed * 7919 + 13)
    real = Real()
    report = {"seed": a.seed, "n": a.n}
    known_ok = {}
    for line in validate_known(real, known_ok, rng):
        print(line)

    items, _ = texts.generate(a.seed, a.n)
    stream = [(kind, tree.runes_text(tree.go_runes(data))) for kind, data in items]
    stream += formatter_stream(rng, real, a.gen_programs)
    if os.environ.get("VERIF_REPLAY_DSL"):
        stream = [("fmt:compilable:replay", os.environ["VERIF_REPLAY_DSL"])]      # ./check <ID> --replay <file>

    dev = Deviations()
    stats = collections.Counter()
    cases = []
    seen_text = set()
    extra = []
    err_viol = []

    def take(kind, text, derived=False):
        if text in seen_text:
            return
        seen_text.add(text)
        kind_r, res = real.fmt(text)
        cid = len(cases)
        cases.append({"id": cid, "kind": kind, "text": text, "runes": runes_of(text), "real": (kind_r, res)})
        stats["texts"] += 1
        stats["real_" + kind_r] += 1
        if kind_r == "PANIC":
            dev.add_new("no-crash", text, "the formatter panics: %s" % res)
        elif kind_r == "ERR":
            if res != text:
                err_viol.append(text)
                dev.add_new("error-path", text, "on a syntax error the result is not the input: %s" % excerpt(res))
        elif not derived:
            # texts.py's random programs are not meant to compile (and a generator can run for minutes on
            # char[4294967296]): the compile oracle runs on the samples and the compilable streams
            do_gen = kind.startswith("fmt:compilable") or kind.startswith("sample")
            oracles(real, text, res, dev, stats, rng, do_gen, a.relayouts, extra)

    for kind, text in stream:
        take(kind, text)
    stats["primary_texts"] = len(cases)
    # the outputs of the formatter and the re-layouts go through model and formatter as well
    for c in list(cases):
        if c["real"][0] == "OK" and c["real"][1] != c["text"]:
            extra.append(("fmt:first-pass", c["real"][1]))
    budget = max(600, a.n // 3)
    rng.shuffle(extra)
    for kind, text in extra[:budget]:
        take(kind, text, derived=True)
    for cls, msg in file_mode_checks(real, report, not a.no_deep):
        if cls is None:
            dev.add_new("file-mode", "", msg)
        else:
            dev.add(KNOWN[cls]["oracle"] if cls in KNOWN else "content", cls, msg)
    real.close()
    t_real = tm.s()

    # ---- the model
    mismatches = []
    if not a.no_model:
        size = a.shard or max(60, min(400, (len(cases) + 31) // 32))
        nsh = max(1, (len(cases) + size - 1) // size)
        order = sorted(cases, key=lambda c: -len(c["runes"]))
        shards = [("fmt_s%d_%d" % (a.seed, k), order[k::nsh], False) for k in range(nsh)]
        got = {}
        with concurrent.futures.ThreadPoolExecutor(max_workers=a.jobs) as ex:
            for name, rc, res, err in ex.map(run_shard, shards):
                if rc != 0:
                    mismatches.append((None, "coqc", "coqc failed on %s (rc %s): %s" % (name, rc, err[-1500:])))
                got.update(res)
        suspects = []
        for c in cases:
            kind_r, res = c["real"]
            c["exp"] = "PANIC:" if kind_r == "PANIC" else "%s:%s" % (kind_r, esc(res.encode("utf-8")))
            m = got.get("M%d" % c["id"])
            if m is None:
                mismatches.append((c, "model", "no result from coqc"))
            elif kind_r == "PANIC":
                suspects.append(c)
            elif m != tree.digest(c["exp"]):
                suspects.append(c)
        shown = suspects[:max(a.max_report, 1)]
        full = {}
        if shown:
            _, rc, full, err = run_shard(("fmt_s%d_full" % a.seed, shown, True))
        for c in suspects:
            m = full.get("M%d" % c["id"])
            if m is None:
                mismatches.append((c, "digest", "digests differ (full text not printed)"))
            elif c["real"][0] == "PANIC":
                if not m.startswith("PANIC:"):
                    mismatches.append((c, "panic", "the real formatter panics, the model says %s" % excerpt(m)))
            elif m != c["exp"]:
                mismatches.append((c, "text", syntax_first_diff(m, c["exp"])))
            else:
                mismatches.append((c, "harness", "digests differ but the full texts are equal"))

    # ---- report
    kinds = collections.Counter(c["kind"].split(":")[0] + (":" + c["kind"].split(":")[1] if c["kind"].startswith("fmt:") else "") for c in cases)
    print("seed %d  texts %d (texts.py %d, formatter streams %d, derived %d)   real side %.1fs, total %.1fs" % (
        a.seed, len(cases), len(items), stats["primary_texts"] - len(items), len(cases) - stats["primary_texts"], t_real, tm.s()))
    dev.settle(set(c["text"] for c, _, _ in mismatches if isinstance(c, dict)))
    print("  kinds: " + "  ".join("%s %d" % kv for kv in sorted(kinds.items())))
    print("  real formatter: ok %d   syntax error %d   panic %d   fatal %d" % (stats["real_OK"], stats["real_ERR"], stats["real_PANIC"],
                                                                             len(real.fatal)))
    print("CORRESPONDENCE model = real: %d texts, mismatches: %s" % (len(cases), "skipped" if a.no_model else len(mismatches)))
    for c, what, msg in mismatches[:a.max_report]:
        print("MISMATCH [%s] text %s (%s) %s\n    %s" % (what, c and c["id"], c and c["kind"], excerpt(c["text"]) if c else "", msg))
    print("ORACLES on %d accepted texts:" % stats["valid"])
    print("  (a) parse       violations %d" % stats["viol_parse"])
    print("  (b) compile     violations %d   (compared %d; skipped: %s)" % (
        stats["viol_compile"], stats["gen_checked"],
        ", ".join("%s %d" % (k[9:], v) for k, v in sorted(stats.items()) if k.startswith("gen_skip:")) or "none"))
    print("  (c) content     violations %d" % stats["viol_content"])
    print("  (d) idempotent  violations %d" % stats["viol_idem"])
    print("  (e) canonical   violations %d   (re-layouts %d)" % (stats["viol_canon"], stats["relayouts"]))
    print("  error path: %d rejected texts, result != input: %d" % (stats["real_ERR"], len(err_viol)))
    print("  no crash (C11): panics %d, fatal %d" % (stats["real_PANIC"], len(real.fatal)))
    print("  file mode: %s" % report.get("file_mode"))
    print("  nesting cost: %s   stack depth probe: %s" % (report.get("nesting_cost"), report.get("stack_depth")))
    print("DEVIATION CLASSES (known):")
    for cid in sorted(dev.by_class):
        e = dev.by_class[cid]
        k = KNOWN.get(cid)
        tag = "KNOWN-DEVIATION" if k else "NEW-DEVIATION"
        print("%s %s  x%d  [%s]  %s" % (tag, cid, e["count"], ",".join(sorted(e["oracles"])), k["desc"] if k else ""))
        print("    minimal witness (hand-made): %s" % excerpt(k["witness"] if k and k["witness"] else e["witness"]))
        print("    shortest in this run:        %s" % excerpt(e["witness"]))
    n_new = sum(1 for c in dev.by_class if c not in KNOWN) + len(dev.new)
    shown = collections.Counter()
    for oracle, text, msg in dev.new:
        shown[oracle] += 1
        if shown[oracle] <= a.max_report:
            print("NEW-DEVIATION [%s] %s\n    text: %s" % (oracle, msg, excerpt(text)))
    print("new deviations: %d" % n_new)
    report.update({
        "texts": len(cases), "mismatches": None if a.no_model else len(mismatches), "stats": dict(stats),
        "known_reproduced": known_ok,
        "classes": {cid: {"count": e["count"], "oracles": dict(e["oracles"]), "witness": e["witness"],
                          "known": cid in KNOWN, "desc": KNOWN.get(cid, {}).get("desc")} for cid, e in dev.by_class.items()},
        "new": [{"oracle": o, "text": t, "msg": m} for o, t, m in dev.new[:200]],
        "panics": real.panics[:50],
        "mismatch_examples": [{"what": what, "msg": msg, "text": (c or {}).get("text") if isinstance(c, dict) else None}
                              for c, what, msg in mismatches[:10]],
    })
    os.makedirs(core.BUILD, exist_ok=True)
    with open(os.path.join(core.BUILD, "fmt_report.json"), "w") as fh:
        json.dump(report, fh, indent=1, sort_keys=True)
    ok = (a.no_model or not mismatches) and n_new == 0
    print("RESULT: %s" % ("PASS" if ok else "FAIL"))
    return 0 if ok else 1


def syntax_first_diff(a, b):
    i = 0
    while i < min(len(a), len(b)) and a[i] == b[i]:
        i += 1
    return "at %d: model ...%s   real ...%s" % (i, a[max(0, i - 60):i + 60], b[max(0, i - 60):i + 60])


if __name__ == "__main__":
    sys.exit(main())
