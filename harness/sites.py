"""T1 translator: regenerate coq/Gen/Sites.v from /repo's source on every run."""
import json
import os
import subprocess

import core


def scan():
    binp = os.path.join(core.BUILD, "sites")
    src = os.path.join(core.VERIF, "tools", "sites")
    stamp = os.path.join(core.BUILD, "sites.stamp")
    srcm = max(os.path.getmtime(os.path.join(src, f)) for f in os.listdir(src))
    if not os.path.exists(binp) or not os.path.exists(stamp) or os.path.getmtime(stamp) < srcm:
        r = core.run(["go", "build", "-o", binp, "."], cwd=src, env=core.GOENV)
        if r.returncode != 0:
            raise core.BuildError("tools/sites", r.stdout)
        open(stamp, "w").write("ok")
    r = subprocess.run([binp, core.REPO], stdout=subprocess.PIPE, stderr=subprocess.PIPE, text=True, env=core.GOENV)
    if r.returncode != 0:
        raise core.BuildError("site scan of /repo", r.stderr[-3000:])
    return json.loads(r.stdout)


def render(tab):
    def row(s):
        return "(%s, %s, %s)" % (core.g_str(s["file"]), core.g_str(s["func"]), core.g_str(s["kind"]))
    out = ["(* GENERATED on every run by harness/sites.py from /repo's source (tools/sites, go/types). Do not edit. *)",
           "From Coq Require Import String List.", "Import ListNotations.", "Open Scope string_scope.", "",
           "(* every `range` over a map in internal/parser, internal/model and cmd: file, function, kind *)",
           "Definition map_range_sites : list (string * string * string) :=",
           "  [" + ";\n   ".join(row(s) for s in tab["map_ranges"]) + "].", "",
           "(* every statement of the generator / cmd sources that writes memory of the parsed model *)",
           "Definition model_mutation_sites : list (string * string * string) :=",
           "  [" + ";\n   ".join("(%s, %s, %s)" % (core.g_str(s["file"]), core.g_str(s["func"]), core.g_str(s["kind"] + ": " + s["text"]))
                                for s in tab["model_mutations"]) + "].", ""]
    return "\n".join(out)


def regenerate():
    tab = scan()
    text = render(tab)
    path = os.path.join(core.COQ, "Gen", "Sites.v")
    old = open(path).read() if os.path.exists(path) else None
    if old != text:
        open(path, "w").write(text)
    return tab, old != text


if __name__ == "__main__":
    tab, changed = regenerate()
    print(json.dumps(tab, indent=1)[:2000], "changed" if changed else "unchanged")
