"""Go execution oracle: the emitted Go codecs are really compiled and run.

Everything else in the harness judges the emitted codecs WITHOUT running them: extract_go.py
turns the Go text into the codec IR, coq/IR/Sem.v gives that IR its meaning (the written-down
runtime contract) and the proved-sound validator compares it with coq/Wire/Layout.v.  Here the
same emitted files are compiled with the Go toolchain against a small stand-in for their runtime
package (harness/stubs/go/codec/codec.go, which implements the contract of Sem.v call by call)
and run on the boundary messages of harness/samples.py:

  * Encode must write exactly the bytes `layout (cs_test reg) M fuel0 p v` of the specification;
  * Decode, given those bytes followed by 3 junk bytes, must consume exactly the message, and
    re-encoding what it returned must reproduce the bytes;
  * Decode of a message whose match key is absent from the table must report an error (C05).

Two uses.  (1) Cross-check of the harness itself: a packet that the validator ACCEPTS (theorems
validated_enc_correct / validated_dec_correct) must behave so when really run; a disagreement
means that the extractor, Sem.v or the stand-in is wrong.  (2) A concrete failing input for
changes of the generator that leave the extractor's templates (where the engine can only say
"tie broken").

  python3 harness/goexec.py [--programs cells|findings|layout|extra|all] [--only ID[,ID]] [--dsl-file F]
                            [--no-engine] [--raw-build] [--seed N] [-j N]
writes .build/goexec_report.json.  VERIF_REPO=<worktree> runs it against another checkout."""
import argparse
import collections
import hashlib
import json
import os
import re
import shutil
import subprocess
import sys
import time
from concurrent.futures import ThreadPoolExecutor

sys.path.insert(0, os.path.dirname(os.path.abspath(__file__)))
import core
import codec
import corpus
import samples
from core import g_model

SCRATCH = os.path.join(core.BUILD, "goexec")
STANDIN = os.path.join(core.VERIF, "harness", "stubs", "go", "codec", "codec.go")
REPORT = os.path.join(core.BUILD, "goexec_report.json")
JUNK = bytes([0xAB, 0xCD, 0xEF])
GO_OPTS = [("GoPackage", '"msg"'), ("GoModule", '"example.com/msg"')]

INT_T = {"int8": (1, True), "int16": (2, True), "int32": (4, True), "int64": (8, True),
         "uint8": (1, False), "uint16": (2, False), "uint32": (4, False), "uint64": (8, False)}
FLOAT_T = {"float32": 4, "float64": 8}


# ------------------------------------------------------------------------------------- programs

def with_go_options(text):
    """The program with GoPackage / GoModule set (added to its options block, or a new block)."""
    missing = [(k, v) for k, v in GO_OPTS if not re.search(r"\b%s\s*=" % k, text)]
    if not missing:
        return text
    add = "".join("    %s = %s;\n" % kv for kv in missing)
    m = re.search(r"\boptions\s*\{[ \t]*\n?", text)
    if m:
        return text[:m.end()] + add + text[m.end():]
    return "options {\n" + add + "}\n" + text


def extra_programs():
    """Shapes the seeded changes / the stand-in's contract need and the codec corpus lacks."""
    P = []
    # a match table all of whose keys select ONE packet, in each spelling (seeded C05-c), and an empty
    # length-of target behind a length member the caller has set (seeded C04-a / C04-d; also in len-*)
    P.append(("gx-sole-target", "packet Logon {\n    u32 A,\n}\nroot packet Frame {\n    u16 MsgType,\n    match MsgType as Body {\n        1 : Logon,\n    },\n}\n"))
    P.append(("gx-sole-target-list", "packet Logon {\n    u32 A,\n}\nroot packet Frame {\n    u16 MsgType,\n    char[2] K2,\n    match MsgType as Body {\n        1 : Logon,\n        5 : Logon,\n        [8, 9] : Logon,\n    },\n    match K2 as Tail {\n        [\"AA\", \"BB\"] : Logon,\n    },\n}\n"))
    P.append(("gx-empty-target", "packet Logon {\n    u32 HeartBt,\n}\npacket Heartbeat {\n}\nroot packet Msg {\n    u16 MsgType,\n    u16 BodyLength @lengthOf(Body),\n    match MsgType as Body {\n        1 : Logon,\n        3 : Heartbeat,\n    },\n    u32 Trailer,\n}\n"))
    P.append(("gx-empty-target-le", "options {\n    LittleEndian = true;\n}\npacket Heartbeat {\n}\nroot packet Msg {\n    u16 BodyLength @lengthOf(Heartbeat),\n    Heartbeat,\n}\n"))
    # the back-patch window buf.Bytes()[pos:pos+4] of a 2-byte length member that ends the buffer: the
    # slice expression is bounded by the CAPACITY of the buffer, which Sem.v does not model (62 bytes
    # in front of the member = the 64-byte first allocation of bytes.Buffer is exactly full)
    P.append(("gx-patch-window", "packet Nothing {\n}\nroot packet Msg {\n    char[62] fill,\n    u16 L @lengthOf(Nothing),\n    Nothing,\n}\n"))
    return P


def program_sets(which):
    cells = corpus.cell_programs(corpus.pairwise_configs()[:4])
    sets = {"cells": cells, "findings": corpus.finding_programs(), "layout": [x for x in corpus.layout_programs() if x[0] != "det-escaped-keys"],   # escaped key literals: the IR and the samples carry them as written, a real Go string unescapes them
           
            "extra": extra_programs()}
    if which == "all":
        return cells + sets["findings"] + sets["layout"] + sets["extra"]
    out = []
    for w in which.split(","):
        out += sets[w]
    return out


# ------------------------------------------------------------------------------------- emitted text

def parse_structs(files):
    """{type name: [member type text]} read from the emitted struct definitions (never guessed)."""
    structs = {}
    dups = []
    for fname in sorted(files):
        if fname.endswith("_test.go"):
            continue
        lines = files[fname].split("\n")
        i = 0
        while i < len(lines):
            m = re.match(r"^type (\S+) struct \{$", lines[i])
            if not m:
                i += 1
                continue
            members = []
            j = i + 1
            while j < len(lines) and lines[j] != "}":
                l = lines[j]
                mm = re.match(r"^\s+(\S+) (\S.*?) `json:\"[^\"]*\"`$", l)
                if mm:
                    members.append((mm.group(1), mm.group(2)))
                elif re.match(r"^\s+(\S+)\s+`json:\"[^\"]*\"`$", l):
                    members.append((l.split()[0], ""))           # a member without a type (char)
                elif l.strip():
                    members.append((None, l.strip()))
                j += 1
            if m.group(1) in structs:
                dups.append(m.group(1))
            structs[m.group(1)] = members
            i = j + 1
    return structs, dups


def runtime_import(files):
    """Import path the emitted code uses for its codec runtime (the non-standard import)."""
    paths = collections.Counter()
    for fname, text in files.items():
        if fname.endswith("_test.go"):
            continue
        m = re.search(r"^import \((.*?)^\s*\)", text, re.S | re.M)
        if not m:
            continue
        for q in re.findall(r'"([^"]+)"', m.group(1)):
            if "." in q.split("/")[0]:
                paths[q] += 1
    return [p for p, _ in paths.most_common()]


def unused_imports(text):
    """Names of the import block that the file body never uses (Go rejects such a file)."""
    m = re.search(r"^import \((.*?)^\s*\)", text, re.S | re.M)
    if not m:
        return []
    body = text[:m.start()] + text[m.end():]
    body = "\n".join(l for l in body.split("\n") if not l.strip().startswith("//"))
    out = []
    for q in re.findall(r'"([^"]+)"', m.group(1)):
        name = q.split("/")[-1]
        if not re.search(r"(?<![\w.])%s\." % re.escape(name), body):
            out.append((name, q))
    return out


USE_OF = {"binary": "var _ = binary.BigEndian", "codec": "var _ codec.BinaryCodec", "fmt": "var _ = fmt.Sprint",
          "bytes": "var _ bytes.Buffer"}


class Unbuildable(Exception):
    pass


def go_string(bs):
    out = []
    for b in bs:
        if 32 <= b < 127 and b not in (34, 92):
            out.append(chr(b))
        else:
            out.append("\\x%02x" % b)
    return '"' + "".join(out) + '"'


def go_value(v, t, structs):
    """Go expression of the sample value v for a member of declared type t."""
    k = v[0]
    if t in INT_T:
        w, signed = INT_T[t]
        if k != "I":
            raise Unbuildable("%s value for a %s member" % (k, t))
        n = v[1]
        if not 0 <= n < 256 ** w:
            raise Unbuildable("%d does not fit %s" % (n, t))
        if signed and n >= 256 ** w // 2:
            n -= 256 ** w
        return "%s(%d)" % (t, n)
    if t in FLOAT_T:
        if k != "I" or not 0 <= v[1] < 256 ** FLOAT_T[t]:
            raise Unbuildable("bad bit pattern for %s" % t)
        return "gxmath.%sfrombits(0x%x)" % ("Float32" if t == "float32" else "Float64", v[1])
    if t == "string":
        if k != "S":
            raise Unbuildable("%s value for a string member" % k)
        return go_string(v[1])
    if t.startswith("[]"):
        if k != "L":
            raise Unbuildable("%s value for a %s member" % (k, t))
        return "%s{%s}" % (t, ", ".join(go_value(x, t[2:], structs) for x in v[1]))
    if t.startswith("*"):
        if k != "O":
            raise Unbuildable("%s value for a %s member" % (k, t))
        return go_struct(v, t[1:], structs)
    if t == "codec.BinaryCodec":
        if k == "D":
            return go_struct(v[2], v[1], structs)
        if k == "I":
            return "nil"
        raise Unbuildable("%s value for a match member" % k)
    raise Unbuildable("member type %r" % t)


def go_struct(v, tname, structs):
    members = structs.get(tname)
    if members is None:
        raise Unbuildable("no emitted struct %s" % tname)
    if v[0] != "O":
        raise Unbuildable("%s value for struct %s" % (v[0], tname))
    if len(members) != len(v[1]):
        raise Unbuildable("struct %s has %d members, the packet %d fields" % (tname, len(members), len(v[1])))
    if any(m[0] is None for m in members):
        raise Unbuildable("struct %s: unparsed member line" % tname)
    if not members:
        return "&%s{}" % tname
    return "&%s{%s}" % (tname, ", ".join(go_value(x, m[1], structs) for x, m in zip(v[1], members)))


# ------------------------------------------------------------------------------------- cases

def unknown_key_probes(model, p, smp):
    """[(label, value)]: the 'mid' message of p with the key of one match field replaced by a value
    that is absent from that field's table (decoding must then report an error)."""
    out = []
    names = [f["name"] for f in p["fields"]]
    for fi, f in enumerate(p["fields"]):
        a = f["attr"]
        if not a or a["kind"] != "match" or not a["pairs"] or a["key"] not in names or f["repeat"]:
            continue
        ki = names.index(a["key"])
        ka = p["fields"][ki]["attr"]
        if ka is None or p["fields"][ki]["repeat"]:
            continue
        keys = [pr["key"] for pr in a["pairs"]]
        if ka["kind"] == "basic":
            w = samples.width(ka["type"])
            if not w or any(not re.fullmatch(r"\d+", k) for k in keys):
                continue
            used = set(int(k) for k in keys)
            cand = next((n for n in range(0, min(256 ** w, 100000)) if n not in used), None)
            if cand is None:
                continue
            kv = ("I", cand)
        elif ka["kind"] in ("fixed", "dyn"):
            n = ka["length"] if ka["kind"] == "fixed" else 3
            used = set(keys)
            cand = next((c * n for c in "ZYXW" if '"%s"' % (c * n) not in used), None)
            if cand is None or n == 0:
                continue
            kv = ("S", list(cand.encode()))
        else:
            continue
        msg = smp.packet(p, "mid")
        vals = list(msg[1])
        # another match field on the same key would fail first: fine, an error is expected either way
        vals[ki] = kv
        out.append(("unk%d" % fi, ("O", vals)))
    return out


def has_checksum(model):
    found = []

    def pk(p):
        for f in p["fields"]:
            a = f["attr"]
            if not a:
                continue
            if a["kind"] == "checksum":
                found.append((p["name"], f, a))
            if a["kind"] == "object" and a["iner"] and a.get("inline"):
                pk(a["inline"])
    for p in model["packets"]:
        pk(p)
    return found


def go_unquote(lit):
    if len(lit) >= 2 and lit[0] == '"':
        return lit[1:-1] if lit.endswith('"') else lit[1:]
    return lit


class Prog:
    """One program on its way through the pipeline."""

    def __init__(self, pid, text):
        self.pid = pid
        self.text0 = text
        self.text = with_go_options(text)
        self.status = None          # None = runs; otherwise why it does not
        self.cases = []             # [dict(path, label, value, probe, go (expr or None), why)]
        self.regs = [True]
        self.notes = []
        self.build_error = None
        self.lines = {}
        self.expected = {}
        self.sem_compared = 0
        self.direct = False         # validator verdict computed here (the program is not in the engine's corpus)
        self.direct_verdict = None


def prepare(hook, P, seed):
    resp, names = codec.compile_program(hook, P.text, ["go"])
    if names is None:
        P.status = "rejected: " + json.dumps({k: v for k, v in resp.items() if k in ("fatal", "syntax_error", "rejected", "cyclic", "panic")})[:300]
        return
    model = resp["model"]
    ok, why = codec.modelled(model)
    P.model, P.names = model, names
    if not ok:
        P.status = "outside the modelled input space: " + "; ".join(sorted(set(why)))
        return
    if core.name_collision(hook, model):
        P.notes.append("file-name collision: the output depends on map order (finding file-name-collision)")
    step = resp["steps"][0]
    if "error" in step or "panic" in step:
        P.status = "generator " + ("error: " + step["error"] if "error" in step else "panic: " + str(step["panic"]))
        return
    P.all_files = step["files"]
    extract_ir(P)
    P.files = {k: v for k, v in step["files"].items() if not k.endswith("_test.go")}
    P.structs, dups = parse_structs(P.files)
    if dups:
        P.notes.append("struct declared twice: " + ", ".join(dups))
    smp = samples.Sampler(model, seed)
    for path, p in codec.all_paths(model):
        msgs = [(l, v, False) for l, v in smp.messages(p)]
        msgs += [(l, v, True) for l, v in unknown_key_probes(model, p, smp)]
        for label, v, probe in msgs:
            c = {"path": path, "label": label, "value": v, "probe": probe, "type": p["name"], "go": None, "why": None}
            try:
                c["go"] = go_struct(v, p["name"], P.structs)
            except Unbuildable as e:
                c["why"] = str(e)
            except RecursionError:
                c["why"] = "value too deep"
            P.cases.append(c)
    cks = has_checksum(model)
    if cks:
        P.regs = [True, False]
    # registry entries: algorithm name -> Go type of the member that uses it, as the emitted struct declares it
    P.registry = {}
    for pname, f, a in cks:
        members = P.structs.get(pname) or []
        t = None
        for (mn, mt) in members:
            if mn == names.get(f["name"], [None])[0]:
                t = mt
        if t not in INT_T and t not in FLOAT_T:
            continue
        name = go_unquote(a["alg"])
        if name in P.registry and P.registry[name] != t:
            P.notes.append("checksum %s is used with member types %s and %s: a Go registry entry has one result type "
                           "(the second use panics in its type assertion)" % (name, P.registry[name], t))
            continue
        P.registry[name] = t


DRIVER_HEAD = """// goexec driver (not emitted by fin-protoc): builds the sample messages as values of the emitted
// types and runs the emitted Encode / Decode on them.
package %(pkg)s

import (
	gxbytes "bytes"
	gxhex "encoding/hex"
	gxfmt "fmt"
	gxmath "math"
	gxos "os"
	gxstrings "strings"

	%(codec_alias)s"%(codec)s"
)

var _ = gxmath.Float32frombits

type gxCase struct {
	mk   func() codec.BinaryCodec
	zero func() codec.BinaryCodec
}

func gxRegister(on bool) {
	codec.ResetRegistry()
	if on {
%(register)s	}
}

func gxRun(i int, reg int, c gxCase, spec map[string][]byte) {
	tag := gxfmt.Sprintf("%%d %%d", i, reg)
	var own []byte
	func() {
		defer func() {
			if r := recover(); r != nil {
				gxfmt.Printf("PANIC ENC %%s %%q\\n", tag, gxfmt.Sprint(r))
			}
		}()
		v := c.mk()
		var buf gxbytes.Buffer
		if err := v.Encode(&buf); err != nil {
			gxfmt.Printf("ENCERR %%s %%q\\n", tag, err.Error())
			return
		}
		own = append([]byte{}, buf.Bytes()...)
		gxfmt.Printf("ENC %%s %%s\\n", tag, gxhex.EncodeToString(own))
	}()
	in, ok := spec[tag]
	src := "spec"
	if !ok {
		if own == nil {
			return
		}
		in, src = own, "own"
	}
	func() {
		defer func() {
			if r := recover(); r != nil {
				gxfmt.Printf("PANIC DEC %%s %%q\\n", tag, gxfmt.Sprint(r))
			}
		}()
		d := c.zero()
		rd := gxbytes.NewBuffer(append(append([]byte{}, in...), 0xAB, 0xCD, 0xEF))
		err := d.Decode(rd)
		consumed := len(in) + 3 - rd.Len()
		if err != nil {
			gxfmt.Printf("DECERR %%s %%s %%d %%q\\n", tag, src, consumed, err.Error())
			return
		}
		gxfmt.Printf("DECODED %%s %%s %%d\\n", tag, src, consumed)
		var b2 gxbytes.Buffer
		if err := d.Encode(&b2); err != nil {
			gxfmt.Printf("DEC %%s %%s %%d - %%q\\n", tag, src, consumed, err.Error())
			return
		}
		gxfmt.Printf("DEC %%s %%s %%d %%s ok\\n", tag, src, consumed, gxhex.EncodeToString(b2.Bytes()))
	}()
}

// GxMain: argument 1 = file of lines "<case> <reg> <hex of the specification's bytes>".
func GxMain() {
	spec := map[string][]byte{}
	if len(gxos.Args) > 1 {
		data, err := gxos.ReadFile(gxos.Args[1])
		if err != nil {
			panic(err)
		}
		for _, l := range gxstrings.Split(string(data), "\\n") {
			f := gxstrings.Fields(l)
			if len(f) == 2 {
				f = append(f, "")
			}
			if len(f) == 3 {
				b, err := gxhex.DecodeString(f[2])
				if err != nil {
					panic(err)
				}
				spec[f[0]+" "+f[1]] = b
			}
		}
	}
	for _, reg := range []int{%(regs)s} {
		gxRegister(reg == 1)
		for i, c := range gxCases {
			if c.mk == nil {
				continue
			}
			gxRun(i, reg, c, spec)
		}
	}
}

var gxCases = []gxCase{
"""


def write_module(P, raw_build=False):
    d = os.path.join(SCRATCH, re.sub(r"[^A-Za-z0-9_.-]", "_", P.pid))
    shutil.rmtree(d, ignore_errors=True)
    imports = runtime_import(P.files)
    rt = imports[0] if imports else "github.com/xinchentechnote/fin-proto-go/codec"
    if len(imports) > 1:
        P.notes.append("several non-standard imports: " + ", ".join(imports))
    module = rt.rsplit("/", 1)[0] if "/" in rt else "gxruntime"
    rtdir = rt[len(module) + 1:] if rt.startswith(module + "/") else "codec"
    pkg = P.model["config"]["go_package"] or "msg"
    pkgdir = "emitted"
    os.makedirs(os.path.join(d, rtdir))
    os.makedirs(os.path.join(d, pkgdir))
    with open(os.path.join(d, "go.mod"), "w") as fh:
        fh.write("module %s\n\ngo 1.21\n" % module)
    shutil.copy(STANDIN, os.path.join(d, rtdir, "codec.go"))
    P.import_fixups = {}
    for fname, text in P.files.items():
        un = unused_imports(text)
        if un:
            P.import_fixups[fname] = [q for _, q in un]
            if not raw_build:
                text += "\n// goexec: the imports this file does not use (the Go compiler rejects the file as emitted)\n"
                text += "".join(USE_OF.get(n, "") + "\n" for n, _ in un)
        with open(os.path.join(d, pkgdir, fname), "w", encoding="utf-8", errors="surrogateescape") as fh:
            fh.write(text)
    with open(os.path.join(d, "main.go"), "w") as fh:
        fh.write('package main\n\nimport gx "%s/%s"\n\nfunc main() { gx.GxMain() }\n' % (module, pkgdir))
    P.dir = d
    P.pkgdir = pkgdir
    P.driver_head = {"pkg": pkg, "codec": rt, "codec_alias": "" if rt.endswith("/codec") else "codec "}
    # which emitted file holds which packet paths, and which files a file's codecs call into
    snake = lambda n: P.names[n][2] + ".go"
    P.file_of = {}
    for p in P.model["packets"]:
        P.file_of.setdefault(p["name"], snake(p["name"]))
    r = reach(P.model)
    P.file_deps = {}
    for path, targets in r.items():
        f = P.file_of.get(path.split("/")[0])
        for q in targets:
            g = P.file_of.get((q or "?").split("/")[0])
            if g != f:
                P.file_deps.setdefault(f, set()).add(g)
    for c in P.cases:
        c["file"] = P.file_of.get(c["path"].split("/")[0])
    P.kept = set(P.files)
    P.file_errors = {}


def write_driver(P):
    reg = "".join('\t\tcodec.Register(%s, codec.SumService[%s]{})\n' % (go_string(list(n.encode())), t)
                  for n, t in sorted(P.registry.items()))
    src = [DRIVER_HEAD % dict(P.driver_head, register=reg, regs=", ".join("1" if r else "0" for r in P.regs))]
    for i, c in enumerate(P.cases):
        if c["go"] is None or c["file"] not in P.kept:
            src.append("\t{}, // %d %s %s: %s\n" % (i, c["path"], c["label"], c["why"] or "file excluded"))
        else:
            src.append("\t{func() codec.BinaryCodec { return %s }, func() codec.BinaryCodec { return &%s{} }}, // %d %s %s\n"
                       % (c["go"], c["type"], i, c["path"], c["label"]))
    src.append("}\n")
    with open(os.path.join(P.dir, P.pkgdir, "zz_goexec_driver.go"), "w") as fh:
        fh.write("".join(src))


def build(P):
    """One `go build` when the program compiles.  When it does not, the files the compiler names are set
    aside together with every file whose codecs call into them, and the rest is built again: a packet is
    judged BuildFails only when its own file (or one it needs) does not compile."""
    t = time.time()
    P.builds = 0
    for _ in range(8):
        write_driver(P)
        r = core.run(["go", "build", "-trimpath", "-o", "prog", "."], cwd=P.dir, env=core.GOENV)
        P.builds += 1
        if r.returncode == 0:
            break
        lines = [l for l in r.stdout.split("\n") if l.strip() and not l.startswith("#")]
        bad = {}
        for l in lines:
            m = re.match(r"^%s/([^:]+\.go):\d+" % re.escape(P.pkgdir), l)
            if m and m.group(1) != "zz_goexec_driver.go" and m.group(1) in P.kept:
                bad.setdefault(m.group(1), []).append(l)
        if not bad:
            P.build_error = lines[:8]
            P.build_in_driver = bool(lines) and all("zz_goexec_driver.go" in l or "too many errors" in l for l in lines)
            break
        for f, ls in bad.items():
            P.file_errors[f] = ls[:4]
        drop = set(bad)
        changed = True
        while changed:
            changed = False
            for f in list(P.kept - drop):
                need = [g for g in P.file_deps.get(f, ()) if g in drop or g not in P.kept]
                if need:
                    drop.add(f)
                    P.file_errors[f] = ["needs %s, which does not compile" % ", ".join(sorted(str(x) for x in need))]
                    changed = True
        for f in drop:
            P.kept.discard(f)
            try:
                os.remove(os.path.join(P.dir, P.pkgdir, f))
            except OSError:
                pass
        if not P.kept:
            P.build_error = lines[:8]
            P.build_in_driver = False
            break
    P.build_s = round(time.time() - t, 2)


def execute(P):
    spec = []
    for (i, reg), e in P.expected.items():
        if e["lay"] is not None:
            spec.append("%d %d %s" % (i, 1 if reg else 0, e["lay"]))
    with open(os.path.join(P.dir, "spec.txt"), "w") as fh:
        fh.write("\n".join(spec) + "\n")
    try:
        r = subprocess.run(["./prog", "spec.txt"], cwd=P.dir, stdout=subprocess.PIPE, stderr=subprocess.PIPE, timeout=120)
    except subprocess.TimeoutExpired:
        P.notes.append("execution timed out")
        return
    out = r.stdout.decode("utf-8", "replace")
    if r.returncode != 0:
        P.notes.append("driver exit status %d: %s" % (r.returncode, r.stderr.decode("utf-8", "replace")[-400:]))
    for l in out.split("\n"):
        f = l.split(" ", 4 if l.startswith("PANIC") else 3)
        if l.startswith("PANIC ") and len(f) == 5:
            P.lines.setdefault((int(f[2]), f[3] == "1"), {})["panic_" + f[1].lower()] = f[4]
        elif f[0] in ("ENC", "ENCERR", "DEC", "DECERR", "DECODED") and len(f) == 4:
            P.lines.setdefault((int(f[1]), f[2] == "1"), {})[f[0]] = f[3]


# ------------------------------------------------------------------------------------- specification

COQ_PRELUDE = core.COQ_PRELUDE + """From FP Require Import Typed Validate RefDec.
Open Scope string_scope.
Definition gx_hexd (n : N) : ascii := ascii_of_N (if N.ltb n 10 then 48 + n else 87 + n).
Fixpoint gx_hex (l : list N) : string :=
  match l with [] => EmptyString | b :: r => String (gx_hexd (N.div b 16)) (String (gx_hexd (N.modulo b 16)) (gx_hex r)) end.
(* the specification's bytes of a message: X no such packet, N not a message, S<hex>; then the decode theorem's
   precondition [typed] *)
Definition gx_lay (reg : bool) (M : bmodel) (path : string) (v : value) : string :=
  match packet_at M path with
  | None => "X"
  | Some p => (match layout (cs_test reg) M fuel0 p v with Some b => "S" ++ gx_hex b | None => "N" end)
              ++ (if typed M fuel0 p v then "t" else "u")
  end.
Definition gx_junk : list N := [171; 205; 239].
Definition gx_show_enc (o : option (list N)) : string := match o with Some b => "S" ++ gx_hex b | None => "N" end.
(* Sem.v on the extracted IR, same message: the encoder's bytes; the decoder run on the specification's bytes
   followed by the junk: D<bytes consumed>:<re-encoding>, E (reports an error) or C (anything else) *)
Definition gx_sem_enc (reg : bool) (M : bmodel) (O : prog) (path : string) (v : value) : string :=
  gx_show_enc (sem_enc (cs_test reg) O fuel0 path v []).
Definition gx_sem_dec (reg : bool) (M : bmodel) (O : prog) (path : string) (v : value) : string :=
  match packet_at M path with
  | None => "-"
  | Some p =>
      match layout (cs_test reg) M fuel0 p v with
      | None => "-"
      | Some b =>
          match sem_dec O fuel0 path (b ++ gx_junk) with
          | DOk (v', rest) => "D" ++ show_nat (length b + 3 - length rest) ++ ":" ++ gx_show_enc (sem_enc (cs_test reg) O fuel0 path v' [])
          | DErr => "E"
          | DCrash => "C"
          end
      end
  end.
"""


def has_junk(step):
    if not isinstance(step, tuple):
        return False
    if step and step[0] in ("EJunk", "DJunk"):
        return True
    return any(has_junk(x) for x in step if isinstance(x, tuple))


def extract_ir(P):
    """The IR extract_go.py reads from the emitted files (what the validator judges), and the packets in which
    it found lines it does not understand (there the model makes no claim)."""
    prog, notes = codec.extractor("go")(P.all_files, P.model, P.names)
    P.prog = prog
    junk = set(path for path, ir in prog if any(has_junk(st) for _, st in ir["enc"] + ir["dec"]))
    r = reach(P.model)
    P.unclaimed = set()
    for path in r:
        seen, todo = set(), [path]
        while todo:
            q = todo.pop()
            if q in seen or q is None:
                continue
            seen.add(q)
            todo += list(r.get(q, ()))
        if seen & junk:
            P.unclaimed.add(path)


def coq_chunks(P, sem, per=30000):
    """[(chunk id, text)]: the model (and IR) definitions followed by one Eval per chunk of questions; big programs
    are cut into several chunks - down to one question (specification / encoder model / decoder model, per registry
    state) of one message - so that they can be evaluated by several coqc processes."""
    import ir as IR
    mname = "M_" + "".join(c if c.isalnum() else "_" for c in P.pid)
    head = ["Definition %s : bmodel := %s." % (mname, g_model(P.model, P.names))]
    if sem or P.direct:
        head.append("Definition O_%s : prog := %s." % (mname, IR.g_prog(P.prog)))
    chunks = []
    state = {"defs": [], "have": set(), "size": 0, "items": []}

    def flush():
        if not state["items"]:
            return
        k = len(chunks)
        terms = []
        for kind, i, reg in state["items"]:
            r = "true" if reg else "false"
            args = '%s %s "%s" %s_v%d' % (mname, "O_" + mname if kind != "lay" else "", P.cases[i]["path"], mname, i)
            terms.append("%s %s %s" % ({"lay": "gx_lay", "se": "gx_sem_enc", "sd": "gx_sem_dec"}[kind], r, args))
        P.coq_index[k] = list(state["items"])
        body = head + state["defs"] + ['Eval vm_compute in ("<<<%s#%d>>>" ++ join "," [%s]).' % (P.pid, k, "; ".join(terms))]
        if k == 0 and P.direct:
            # not a program of the engine's corpus: the same validator report, asked for here
            body.append('Eval vm_compute in ("<<<%s|rep>>>" ++ show_bool (lenw_ok %s) ++ "@@" ++ report %s O_%s).' % (P.pid, mname, mname, mname))
        chunks.append((k, "\n".join(body) + "\n"))
        state.update(defs=[], have=set(), size=0, items=[])
    P.coq_index = {}
    for i, c in enumerate(P.cases):
        d = "Definition %s_v%d : value := %s." % (mname, i, samples.g_value(c["value"]))
        for reg in P.regs:
            for kind in (("lay", "se", "sd") if sem else ("lay",)):
                if state["items"] and state["size"] + len(d) > per:
                    flush()
                if i not in state["have"]:
                    state["have"].add(i)
                    state["defs"].append(d)
                state["size"] += len(d)
                state["items"].append((kind, i, reg))
    flush()
    return chunks


SHARD_TIMES = []


def coq_expected(progs, jobs, sem):
    """Fill P.expected[(case, reg)] = {lay: hex or None, typed: bool, sem: ..} from the Coq development."""
    live = [P for P in progs if P.status is None and P.cases]
    units = []
    for P in live:
        for k, text in coq_chunks(P, sem):
            units.append((text, P, k))
    units.sort(key=lambda x: -len(x[0]))
    # more shards than workers, heaviest first: the evaluation time of a shard is poorly predicted by its size
    nshards = max(1, min(len(units), 4 * jobs))
    bins = [[0, []] for _ in range(nshards)]
    for text, P, k in units:
        x = min(bins, key=lambda x: x[0])
        x[0] += len(text)
        # every unit is self-contained: its definitions must not clash with another chunk of the same program
        x[1].append("Module U%d.\n%sEnd U%d.\n" % (len(x[1]), text, len(x[1])))
    errors = []

    def one(kb):
        k, (_, bs) = kb
        t = time.time()
        rc, out, err = core.coq_eval("cases_goexec_%d" % k, "".join(bs), prelude=COQ_PRELUDE, timeout=600)
        SHARD_TIMES.append((round(time.time() - t, 1), k, sum(len(b) for b in bs)))
        if rc != 0:
            errors.append("coqc exit status %d: %s" % (rc, err[-1500:]))
        return core.parse_results(out)
    got = {}
    with ThreadPoolExecutor(max_workers=jobs) as ex:
        for g in ex.map(one, sorted(enumerate(bins), key=lambda kb: -kb[1][0])):
            got.update(g)
    for P in live:
        for k, index in P.coq_index.items():
            codes = got.get("%s#%d" % (P.pid, k))
            if codes is None:
                P.notes.append("no result from Coq (chunk %d)" % k)
                continue
            for (kind, i, reg), code in zip(index, codes.split(",")):
                e = P.expected.setdefault((i, reg), {"lay": None, "typed": False, "code": "?", "sem": None, "se": None, "sd": None})
                if kind == "lay":
                    e.update(lay=code[1:-1] if code.startswith("S") else None, typed=code.endswith("t"), code=code[0])
                else:
                    e[kind] = code
        for e in P.expected.values():
            if e["se"] is not None and e["sd"] is not None:
                e["sem"] = e["se"] + "/" + e["sd"]
        rep = got.get(P.pid + "|rep", "").split("@@")
        if P.direct and len(rep) == 7:
            P.direct_verdict = {"text": P.text0, "lenw_ok": rep[0] == "T", "paths_ok": rep[2] == "T",
                                "valid_enc": dict(x.rsplit("=", 1) for x in rep[3].split(",") if x),
                                "valid_dec": dict(x.rsplit("=", 1) for x in rep[4].split(",") if x), "direct": True}
    return errors


def model_vs_execution(P, i, reg):
    """Sem.v run on the EXTRACTED IR against the real execution of the same message, for every packet (validated
    or not) whose emitted text the extractor claims to understand: None, or what differs."""
    c = P.cases[i]
    e = P.expected.get((i, reg))
    if e is None or not e.get("sem") or e["lay"] is None or c["go"] is None or c.get("file") not in P.kept or P.build_error is not None:
        return None
    if c["path"] in P.unclaimed:
        return None
    L = P.lines.get((i, reg), {})
    menc, _, mdec = e["sem"].partition("/")
    if "ENC" in L:
        xenc = "S" + L["ENC"]
    elif "ENCERR" in L or "panic_enc" in L:
        xenc = "N"
    else:
        return None
    if menc != xenc:
        return {"what": "encoder", "model": short(menc), "executed": short(xenc) + (" " + (L.get("ENCERR") or L.get("panic_enc") or ""))[:160]}
    if mdec == "-":
        return None
    if "DEC" in L:
        src, consumed, rest = L["DEC"].split(" ", 2)
        xdec = "D%s:%s" % (consumed, "N" if rest.startswith("- ") else "S" + rest.split(" ")[0])
    elif "DECODED" in L:            # decoded, then the re-encoding panicked
        xdec = "D%s:N" % L["DECODED"].split(" ")[1]
    elif "DECERR" in L:
        xdec = "E"
    elif "panic_dec" in L:
        xdec = "C"
    else:
        return None
    if mdec == xdec or (mdec == "C" and xdec == "E"):
        return None
    return {"what": "decoder", "model": short(mdec), "executed": short(xdec) + (" " + (L.get("DECERR") or L.get("panic_dec") or ""))[:160]}


# ------------------------------------------------------------------------------------- verdicts

def short(h, n=96):
    return h if len(h) <= n else h[:n] + "...(%d bytes)" % (len(h) // 2)


def judge_case(P, i, reg):
    """(verdict, detail) of one case under one registry state."""
    c = P.cases[i]
    e = P.expected.get((i, reg))
    if e is None:
        return "NoSpecResult", None
    if e["lay"] is None:
        return "NotAMessage", None
    if P.build_error is not None:
        return "BuildFails", (P.file_errors.get(c.get("file")) or P.build_error or [None])[0]
    if c.get("file") not in P.kept:
        return "BuildFails", (P.file_errors.get(c.get("file")) or ["no emitted file for this packet"])[0]
    if c["go"] is None:
        return "Unbuildable", c["why"]
    L = P.lines.get((i, reg), {})
    want = e["lay"]
    if c["probe"]:
        if "DECERR" in L:
            return "Agree", None
        if "DECODED" in L:
            return "DecAcceptsUnknownKey", "decoding %s returned no error" % short(want)
        if "panic_dec" in L:
            return "DecPanics", L["panic_dec"]
        return "NoOutput", None
    if "panic_enc" in L:
        return "EncFails", "panic " + L["panic_enc"]
    if "ENCERR" in L:
        return "EncFails", L["ENCERR"]
    if "ENC" not in L:
        return "NoOutput", None
    if L["ENC"] != want:
        return "EncDiffers", {"got": short(L["ENC"]), "want": short(want), "first_difference_at_byte": first_diff(L["ENC"], want)}
    if "panic_dec" in L:
        return "DecFails", "panic " + L["panic_dec"]
    if "DECERR" in L:
        return "DecFails", L["DECERR"].split(" ", 2)[2]
    if "DEC" not in L:
        return "NoOutput", None
    src, consumed, rest = L["DEC"].split(" ", 2)
    if int(consumed) != len(want) // 2:
        return "DecConsumes", {"consumed": int(consumed), "message_bytes": len(want) // 2}
    if rest.startswith("- "):
        return "ReencDiffers", "re-encoding fails: " + rest[2:]
    if rest.split(" ")[0] != want:
        return "ReencDiffers", {"got": short(rest.split(" ")[0]), "want": short(want)}
    return "Agree", None


def first_diff(a, b):
    for k in range(0, min(len(a), len(b)), 2):
        if a[k:k + 2] != b[k:k + 2]:
            return k // 2
    return min(len(a), len(b)) // 2


ORDER = ["BuildFails", "Unbuildable", "EncFails", "EncDiffers", "DecFails", "DecPanics", "DecConsumes", "ReencDiffers",
         "DecAcceptsUnknownKey", "NoOutput", "NoSpecResult", "Agree", "NotAMessage"]


def judge(P):
    """{path: {label: {verdict, detail, registered: .., unregistered: ..}}}"""
    out = collections.OrderedDict()
    for i, c in enumerate(P.cases):
        per = {}
        for reg in P.regs:
            per[reg] = judge_case(P, i, reg)
        worst = min(per.items(), key=lambda kv: ORDER.index(kv[1][0]))
        ent = {"verdict": worst[1][0]}
        if worst[1][1] is not None:
            ent["detail"] = worst[1][1]
        if len(P.regs) > 1:
            ent["registered"] = per[True][0]
            ent["unregistered"] = per[False][0]
            if worst[1][0] not in ("Agree", "NotAMessage"):
                ent["checksum"] = "registered" if worst[0] else "unregistered"
        ent["typed"] = all(P.expected.get((i, r), {}).get("typed", False) for r in P.regs)
        for r in P.regs:
            e = P.expected.get((i, r)) or {}
            if e.get("sem") and e.get("lay") is not None and c["go"] is not None and c.get("file") in P.kept \
                    and P.build_error is None and c["path"] not in P.unclaimed and (i, r) in P.lines:
                P.sem_compared += 1
            d = model_vs_execution(P, i, r)
            if d:
                ent["model_vs_execution"] = dict(d, checksum="registered" if r else "unregistered")
                break
        if worst[1][0] not in ("Agree", "NotAMessage", "BuildFails"):
            ent["message"] = samples.j_value(c["value"]) if len(json.dumps(samples.j_value(c["value"]))) < 1500 else "(large)"
        out.setdefault(c["path"], collections.OrderedDict())[c["label"]] = ent
    return out


# ------------------------------------------------------------------------------------- the harness's own judgement

def engine_verdicts(use_engine):
    """{pid: {text, lenw_ok, paths_ok, valid_enc, valid_dec}} from the codec engine (Go only), cached per
    repository / harness / Coq fingerprint (goexec.py itself excluded, so that editing it keeps the cache)."""
    if not use_engine:
        return {}
    h = hashlib.sha256()
    h.update(core.repo_fingerprint().encode())
    for root, dirs, files in os.walk(os.path.join(core.VERIF, "harness")):
        dirs.sort()
        for f in sorted(files):
            if f.endswith(".py") and f != "goexec.py":
                h.update(open(os.path.join(root, f), "rb").read())
    for root, dirs, files in os.walk(core.COQ):
        dirs[:] = sorted(d for d in dirs if d != "Run")
        for f in sorted(files):
            if f.endswith(".v"):
                h.update(open(os.path.join(root, f), "rb").read())
    path = os.path.join(core.BUILD, "goexec_engine_%s.json" % h.hexdigest()[:20])
    if os.path.exists(path):
        return json.load(open(path))
    import engine
    core.log("goexec: running the codec engine (quick tier, Go) for the validator's verdicts ...")
    t = core.Timer()
    res = engine.run_engine("quick", 0, langs=["go"])
    if "programs" not in res:
        core.log("engine failed: " + json.dumps(res)[:500])
        return {}
    out = {}
    for pid, e in res["programs"].items():
        g = (e.get("langs") or {}).get("go")
        if "skipped" in e or g is None or "valid_enc" not in g:
            out[pid] = {"text": e.get("text"), "skipped": e.get("skipped") or json.dumps(g)[:200]}
            continue
        out[pid] = {"text": e["text"], "lenw_ok": g["lenw_ok"], "paths_ok": g["paths_ok"], "valid_enc": g["valid_enc"],
                    "valid_dec": g["valid_dec"], "diff_enc": g.get("diff_enc"), "diff_dec": g.get("diff_dec")}
    core.log("goexec: engine done in %s s" % t.s())
    json.dump(out, open(path, "w"))
    return out


def reach(model):
    """path -> set of paths its codec calls into (object members, list elements, match payloads)."""
    out = {}
    for path, p in codec.all_paths(model):
        s = set()
        for f in p["fields"]:
            a = f["attr"]
            if not a:
                continue
            if a["kind"] == "object":
                s.add(path + "/" + f["name"] if a["iner"] else a["ref"])
            if a["kind"] == "match":
                for pr in a["pairs"]:
                    s.add(pr["value"])
        out[path] = s
    return out


def accepted_paths(model, ev):
    """Packets for which the theorems apply when the packet is run: the validator accepts the packet
    itself and every packet its codec can call into (encoder and decoder), lenw_ok and paths_ok hold."""
    if not ev or "valid_enc" not in ev or not ev["lenw_ok"] or not ev["paths_ok"]:
        return set(), set()
    local = set(p for p in ev["valid_enc"] if ev["valid_enc"].get(p) == "T" and ev["valid_dec"].get(p) == "T")
    r = reach(model)
    good = set(local)
    changed = True
    while changed:
        changed = False
        for p in list(good):
            if any(q not in good for q in r.get(p, ())):
                good.discard(p)
                changed = True
    return good, local


# Disagreements between the real execution and the harness's model (extractor + Sem.v + validator) that have been
# looked into: the stand-in plays no part in them, the emitted Go is at fault and the MODEL does not see it.
# (id, verdict, regex on the detail, what)
UNUSED_IMPORT_GAP = ("every emitted file imports bytes, fmt, encoding/binary and the runtime package (go_generator.go:67-73) whether or not "
                     "the packet uses them: a packet without a length-of target never uses encoding/binary, a packet without fields "
                     "never uses the runtime package, and the Go compiler rejects the file ('imported and not used').  The harness "
                     "only parses the Go output (gofmt -e in complete.py) and the extractor skips the import block, so nothing sees "
                     "it.  goexec appends 'var _ = binary.BigEndian' etc. to go on (--raw-build compiles the files as emitted)")
MODEL_GAPS = [
    ("go-unused-import", "BuildFails", r"imported and not used", UNUSED_IMPORT_GAP),
    ("go-put-uint8-undefined", "BuildFails", r"binary\.(Big|Little)Endian\.Put(Uint8|Int\d+|Float\d+) undefined",
     "a length-of member of type u8 (or any signed type) is back-patched with binary.<Order>.PutUint8 / PutInt16 ..., which "
     "encoding/binary does not have (go_generator.go:386-388: Put + ToCamel(member type)): the file does not compile, while "
     "extract_go.py maps the call to EPatch(.., 1, ..) (PUT_W has Uint8/Int8/Int16/...) and the validator accepts the packet"),
    ("go-patch-window-beyond-capacity", "EncFails", r"slice bounds out of range \[:\d+\] with capacity \d+",
     "the back-patch goes through buf.Bytes()[pos:pos + 4] whatever the width (finding go-length-slice-is-4-bytes); for a 2-byte "
     "member the window reaches 2 bytes past the member, which Go allows only up to the CAPACITY of the buffer: when the length "
     "member (and an empty target) ends a buffer that is exactly full (e.g. 62 bytes in front of it: bytes.Buffer's first "
     "allocation is 64) Encode panics.  Sem.v's EPatch only requires w <= slice and patches in place, so the validator accepts"),
]


def model_gap(e):
    d = json.dumps(e.get("detail"))
    for gid, verdict, rx, what in MODEL_GAPS:
        if e["verdict"] == verdict and re.search(rx, d):
            return gid
    return None


# ------------------------------------------------------------------------------------- main

def run(programs, seed=0, jobs=16, use_engine=True, raw_build=False, quiet=False, sem=True):
    T = core.Timer()
    times = {}
    core.build_binaries(want_cli=False)
    hook = core.Hook()
    progs = [Prog(pid, text) for pid, text in programs]
    if use_engine is not None:
        import engine
        in_engine = dict(engine.programs_for("quick", 0)) if use_engine else {}
        for P in progs:
            P.direct = in_engine.get(P.pid) != P.text0
    for P in progs:
        prepare(hook, P, seed)
    hook.close()
    times["generate_s"] = T.s()
    live = [P for P in progs if P.status is None]
    for P in live:
        write_module(P, raw_build)
    # warm the build cache with one program (runtime package, standard library), then everything in parallel;
    # the specification's bytes are computed by coqc at the same time
    t1 = core.Timer()
    with ThreadPoolExecutor(max_workers=jobs + 2) as ex:
        coq_f = ex.submit(coq_expected, progs, jobs, sem)
        eng_f = ex.submit(engine_verdicts, use_engine)
        if live:
            build(live[0])
        list(ex.map(build, live[1:]))
        times["build_s"] = t1.s()
        coq_errors = coq_f.result()
        times["build_and_coq_s"] = t1.s()
        t2 = core.Timer()
        list(ex.map(execute, [P for P in live if P.build_error is None]))
        times["execute_s"] = t2.s()
        ev_all = eng_f.result()
    times["engine_wait_s"] = T.s()
    report = {"repo": core.REPO, "fingerprint": core.repo_fingerprint(), "seed": seed, "programs": collections.OrderedDict(),
              "info": collections.OrderedDict(), "coq_errors": coq_errors}
    counts = collections.Counter()
    acc = {"packets_accepted": 0, "packets_accepted_locally_only": 0, "packets_rejected": 0, "packets_without_engine_verdict": 0,
           "accepted_messages": 0, "accepted_messages_agreeing": 0, "accepted_not_a_message": 0, "violations": [],
           "packets_accepted_but_not_runnable": 0, "model_gaps": collections.OrderedDict(),
           "rejected_packets_by_executed_outcome": collections.Counter(), "programs_fully_validated": 0}
    fixups = collections.Counter()
    mve = {"compared": 0, "differences": []}
    report["model_vs_execution"] = mve
    for P in progs:
        info = {"notes": P.notes}
        report["info"][P.pid] = info
        if P.status is not None:
            info["skipped"] = P.status
            counts["program skipped"] += 1
            continue
        verdicts = judge(P)
        report["programs"][P.pid] = verdicts
        info["build_s"] = getattr(P, "build_s", None)
        if P.import_fixups:
            info["unused_imports_as_emitted"] = P.import_fixups
            for f, qs in P.import_fixups.items():
                for q in qs:
                    fixups[q] += 1
        if P.build_error is not None:
            info["build_error"] = P.build_error
            info["build_error_in_driver_only"] = P.build_in_driver
        if P.file_errors:
            info["files_that_do_not_compile"] = P.file_errors
            info["builds"] = P.builds
        ev = P.direct_verdict if P.direct else ev_all.get(P.pid)
        if ev is not None and ev.get("text") is not None and ev["text"] != P.text0:
            info["engine"] = "program text differs from the engine's"
            ev = None
        good, local = accepted_paths(P.model, ev)
        if ev is not None and "valid_enc" in ev:
            info["validator"] = {p: ("accepted" if p in good else "accepted locally, calls a rejected packet" if p in local else
                                     "rejected enc=%s dec=%s" % (ev["valid_enc"].get(p), ev["valid_dec"].get(p)))
                                 for p in ev["valid_enc"]}
            if not ev["lenw_ok"] or not ev["paths_ok"]:
                info["validator_global"] = "lenw_ok=%s paths_ok=%s" % (ev["lenw_ok"], ev["paths_ok"])
            if good and len(good) == len(ev["valid_enc"]):
                acc["programs_fully_validated"] += 1
        elif ev is not None:
            info["engine"] = "skipped: %s" % ev.get("skipped")
        mve["compared"] += P.sem_compared
        for path, labels in verdicts.items():
            for label, e in labels.items():
                if "model_vs_execution" in e:
                    mve["differences"].append({"program": P.pid, "packet": path, "label": label, "verdict": e["verdict"],
                                               "validator": (info.get("validator") or {}).get(path), **e["model_vs_execution"]})
        for path, labels in verdicts.items():
            vs = [e["verdict"] for e in labels.values()]
            for v in vs:
                counts[v] += 1
            if ev is None or "valid_enc" not in ev:
                acc["packets_without_engine_verdict"] += 1
                continue
            if path in good and all(e["verdict"] == "BuildFails" for e in labels.values()):
                # the packet's own codec is accepted but it shares its FILE with a rejected packet whose code does
                # not compile (an inline packet of a rejected parent, or the other way round): it cannot be run
                f = P.file_of.get(path.split("/")[0])
                mates = [q for q, _ in codec.all_paths(P.model) if P.file_of.get(q.split("/")[0]) == f and q not in good]
                needs = [g for g in P.file_deps.get(f, ()) if g not in P.kept]
                if mates or needs:
                    acc["packets_accepted_but_not_runnable"] += 1
                    info.setdefault("not_runnable", {})[path] = "file %s also holds the rejected packet(s) %s" % (f, ", ".join(mates)) if mates \
                        else "file %s needs %s" % (f, ", ".join(needs))
                    continue
            if path in good:
                acc["packets_accepted"] += 1
                for label, e in labels.items():
                    if e["verdict"] == "NotAMessage":
                        acc["accepted_not_a_message"] += 1
                        continue
                    acc["accepted_messages"] += 1
                    if e["verdict"] == "Agree":
                        acc["accepted_messages_agreeing"] += 1
                    else:
                        gid = model_gap(e)
                        if gid:
                            g = acc["model_gaps"].setdefault(gid, {"what": [w for i, _, _, w in MODEL_GAPS if i == gid][0], "messages": 0,
                                                                   "packets": [], "witness": None})
                            g["messages"] += 1
                            if [P.pid, path] not in g["packets"]:
                                g["packets"].append([P.pid, path])
                            if g["witness"] is None:
                                g["witness"] = {"program": P.pid, "dsl": P.text, "packet": path, "label": label, **e}
                        else:
                            acc["violations"].append({"program": P.pid, "packet": path, "label": label, **e})
            else:
                acc["packets_accepted_locally_only" if path in local else "packets_rejected"] += 1
                worst = min(vs, key=ORDER.index) if vs else "no messages"
                acc["rejected_packets_by_executed_outcome"][worst] += 1
    report["counts"] = dict(counts)
    acc["rejected_packets_by_executed_outcome"] = dict(acc["rejected_packets_by_executed_outcome"])
    report["acceptance"] = acc
    report["unused_imports_as_emitted"] = dict(fixups)
    times["total_s"] = T.s()
    times["slowest_coq_shards_s"] = [x[0] for x in sorted(SHARD_TIMES, reverse=True)[:5]]
    report["times"] = times
    os.makedirs(core.BUILD, exist_ok=True)
    json.dump(report, open(REPORT, "w"), indent=1)
    if not quiet:
        summary(report, progs)
    return report


def summary(report, progs):
    acc = report["acceptance"]
    print("goexec: %d programs (%d skipped), repo %s" % (len(progs), sum(1 for P in progs if P.status is not None), report["repo"]))
    print("  verdicts over all (packet, message) pairs: " + ", ".join("%s %d" % kv for kv in sorted(report["counts"].items(), key=lambda kv: -kv[1])))
    if report["unused_imports_as_emitted"]:
        print("  !! MODEL GAP go-unused-import: files that do not compile AS EMITTED (neutralised by goexec to go on): "
              + ", ".join("%s unused in %d files" % kv for kv in report["unused_imports_as_emitted"].items()))
        print("       " + UNUSED_IMPORT_GAP)
    print("  packets the validator accepts (with everything they call): %d  (accepted locally only: %d, rejected: %d, no engine verdict: %d; programs fully validated: %d)"
          % (acc["packets_accepted"], acc["packets_accepted_locally_only"], acc["packets_rejected"], acc["packets_without_engine_verdict"], acc["programs_fully_validated"]))
    print("  their sample messages: %d laid out by the specification, %d agree when really run (%d samples are not messages)"
          % (acc["accepted_messages"], acc["accepted_messages_agreeing"], acc["accepted_not_a_message"]))
    print("  accepted packets that cannot be run (their file also holds a rejected packet that does not compile): %d" % acc["packets_accepted_but_not_runnable"])
    for gid, g in acc["model_gaps"].items():
        w = g["witness"]
        print("  !! MODEL GAP %s: %d messages of %d validated packets (%s ...) fail when really run: %s %s"
              % (gid, g["messages"], len(g["packets"]), ", ".join("%s:%s" % tuple(x) for x in g["packets"][:4]), w["verdict"], json.dumps(w.get("detail"))[:200]))
        print("       " + g["what"])
    if acc["violations"]:
        print("  !! %d UNEXPLAINED DISAGREEMENTS between the real execution and the harness's model on validated packets:" % len(acc["violations"]))
        for v in acc["violations"][:12]:
            print("     %s %s %s: %s %s" % (v["program"], v["packet"], v["label"], v["verdict"], json.dumps(v.get("detail"))[:300]))
    mve = report.get("model_vs_execution") or {"compared": 0, "differences": []}
    if mve["compared"]:
        print("  Sem.v on the extracted IR against the real execution, packet by packet (validated or not, where the extractor "
              "claims every line): %d runs compared, %d differ" % (mve["compared"], len(mve["differences"])))
        seen = set()
        for d in mve["differences"]:
            k = (d["program"], d["packet"], d["what"])
            if k in seen or len(seen) >= 10:
                continue
            seen.add(k)
            print("     %s %s %s [%s; validator: %s]: %s: model %s, executed %s" % (d["program"], d["packet"], d["label"], d["verdict"], d["validator"],
                                                                           d["what"], d["model"][:80], d["executed"][:160]))
    print("  rejected packets, worst executed outcome: " + json.dumps(acc["rejected_packets_by_executed_outcome"]))
    if report["coq_errors"]:
        print("  coq errors: " + " | ".join(report["coq_errors"])[:1500])
    # concrete failing messages, one per (program, packet, verdict)
    shown = 0
    for pid, pk in report["programs"].items():
        for path, labels in pk.items():
            seen = set()
            for label, e in labels.items():
                if e["verdict"] in ("Agree", "NotAMessage") or e["verdict"] in seen:
                    continue
                seen.add(e["verdict"])
                if shown < int(os.environ.get("SHOW", "12")):
                    shown += 1
                    extra = json.dumps(e.get("detail"))
                    print("  - %s %s %s: %s %s" % (pid, path, label, e["verdict"], (extra or "")[:260]))
    print("  times: " + json.dumps(report["times"]) + "   report: " + REPORT)


def main():
    ap = argparse.ArgumentParser()
    ap.add_argument("--programs", default="all")
    ap.add_argument("--only")
    ap.add_argument("--dsl-file")
    ap.add_argument("--no-engine", action="store_true", help="do not load the engine's result: ask Coq for the validator's report of every program here")
    ap.add_argument("--no-validator", action="store_true", help="executed verdicts only")
    ap.add_argument("--raw-build", action="store_true", help="compile the files exactly as emitted (no unused-import neutralisation)")
    ap.add_argument("--seed", type=int, default=0)
    ap.add_argument("--no-sem", action="store_true", help="skip the comparison of Sem.v on the extracted IR with the execution")
    ap.add_argument("--report", help="where to write the report (default .build/goexec_report.json)")
    ap.add_argument("-j", type=int, default=16)
    a = ap.parse_args()
    if a.report:
        global REPORT
        REPORT = a.report
    if a.dsl_file:
        programs = [(os.path.splitext(os.path.basename(a.dsl_file))[0], open(a.dsl_file).read())]
    else:
        programs = program_sets(a.programs)
    if a.only:
        want = a.only.split(",")
        programs = [(pid, t) for pid, t in programs if pid in want]
    ok, out = core.coq_make()
    if not ok:
        print(out[-3000:])
        sys.exit(2)
    rep = run(programs, a.seed, a.j, use_engine=None if a.no_validator else (not a.no_engine and not a.dsl_file), raw_build=a.raw_build, sem=not a.no_sem)
    sys.exit(1 if rep["acceptance"]["violations"] or rep["coq_errors"] else 0)


if __name__ == "__main__":
    main()
