#!/usr/bin/env python3
"""C07 "Successful compilation yields complete, well-formed target code":
python3 harness/complete.py [--tier quick|thorough] [--seed N] [--no-toolchains]

(1) marker scan.  The generators' marker strings (string literals containing "unsupport",
    "not supported", "unknow"/"unkown", "TODO") are collected from the Go source on every run and
    compared with the list this check knows (MARKER_SITES): a literal this check does not know is a
    NEW-DEVIATION ("new marker site"), a known one that disappeared is reported as a note.  Every
    emitted file of every corpus program x six targets is then scanned for the marker literals
    (their constant parts; format verbs and concatenations are wildcards).
(2) completeness of the observed IR (engine.run_engine, the `observed` text form): every declared
    packet has an entry, `members` = number of declared fields, every field index has a
    non-silent encode step and a non-silent decode step (a length-of field: a length placeholder
    EMarkZero, which the IR tags with its position variable), no Junk / Marker step.
(3) toolchain syntax checks, where a toolchain is present offline and needs nothing absent:
    gofmt -e (parse errors only) on every emitted .go file, ast.parse on every emitted .py file,
    luac -p if present; javac / g++ -fsyntax-only against the tiny stub runtime under
    harness/stubs/ (see harness/stubs/README.txt for what the stubs assume).

KNOWN deviation classes: id -> (language, pattern, description, witness program); everything else
is printed as "NEW-DEVIATION ...".  Exit status 0 iff there is none.  Report: .build/complete_report.json."""
import collections
import json
import os
import re
import shutil
import subprocess
import sys

sys.path.insert(0, os.path.dirname(os.path.abspath(__file__)))
import core
import codec
import engine
import checks
import ir as IR

ALL_LANGS = ["lua", "rust", "go", "java", "python", "cpp"]
SHORT = {"python": "py"}
KEYWORDS = re.compile(r"unsupport|not supported|unknow|unkown|TODO", re.I)
GO_STR = re.compile(r'"(?:[^"\\]|\\.)*"|`[^`]*`')

# ----------------------------------------------------------------------------------------
# (1) marker sites
# ----------------------------------------------------------------------------------------
# literal (as written in the Go source) -> kind:
#   marker: placeholder text emitted INSTEAD of code;  benign: text of working code (a run-time error message)
MARKER_SITES = {
    ("cpp_generator.go", '"-- unsupport type:"'): "marker",
    ("cpp_generator.go", '"-- unsupport "'): "marker",
    ("go_generator.go", '"    return nil, fmt.Errorf(\\"unknown message type\\")\\n"'): "benign",
    ("go_generator.go", '"unknow type"'): "marker",
    ("go_generator.go", '" is not supported for encoding--\\n"'): "marker",
    ("go_generator.go", '"-- unsupport "'): "marker",
    ("java_generator.go", '"        throw new IllegalArgumentException(\\"Unsupported %s:\\" + %s);\\n"'): "benign",
    ("java_generator.go", '"//TODO unknow"'): "marker",
    ("java_generator.go", '"// unknow type"'): "marker",
    ("java_generator.go", '"unkown type"'): "marker",
    ("lua_wsp_generator.go", '"-- unsupported numeric type: "'): "marker",
    ("lua_wsp_generator.go", '"-- unsupported type: "'): "marker",
    ("lua_wsp_generator.go", '"-- Unsupported type: %s"'): "marker",
    ("py_generator.go", '"-- unsupported type: "'): "marker",
    ("rust_generator.go", '"// unknown type for encode: %s"'): "marker",
    ("rust_generator.go", '"// unknown type for decode: %s"'): "marker",
}


def marker_sites():
    """[(file, line, literal)] regenerated from the Go source"""
    d = os.path.join(core.REPO, "internal", "parser")
    out = []
    for fn in sorted(os.listdir(d)):
        if not fn.endswith("_generator.go"):
            continue
        for ln, line in enumerate(open(os.path.join(d, fn), encoding="utf-8"), 1):
            if line.lstrip().startswith("//"):
                continue
            for m in GO_STR.finditer(line):
                if KEYWORDS.search(m.group(0)):
                    out.append((fn, ln, m.group(0)))
    return out


def go_unquote(lit):
    if lit.startswith("`"):
        return lit[1:-1]
    return lit[1:-1].replace('\\"', '"').replace("\\n", "\n").replace("\\t", "\t").replace("\\\\", "\\")


def literal_regex(lit):
    txt = go_unquote(lit).strip("\n")
    parts = re.split(r"%[sdvtq]", txt)
    return re.compile(".*".join(re.escape(p) for p in parts))


# ----------------------------------------------------------------------------------------
# known deviation classes
# ----------------------------------------------------------------------------------------
KNOWN = [
    # markers in the output
    ("marker-go-char", r"go", r"^marker: .*(is not supported for encoding--|unknow type|-- unsupport )",
     "go: a 'char' scalar / 'repeat char' has no entry in goBasicTypeMap: the struct member has no type, Encode/Decode emit nothing for a scalar and '--char:cs is not supported for encoding--' for a list (go_generator.go:300, 346, 445, 484), the test emits an empty sample; nothing is reported at compile time",
     "fnd-rchar"),
    ("marker-py-char", r"py", r"^marker: .*-- unsupported type: ",
     "python: 'repeat char' falls into the default branch of generateEncodeField/generateDecodeField (py_generator.go:275, 382)", "fnd-rchar"),
    ("marker-cpp-char", r"cpp", r"^marker: .*-- unsupport ",
     "c++: 'char' falls into the default branches (cpp_generator.go:329, 415, 609)", "fnd-rchar"),
    ("marker-lua", r"lua", r"^marker: .*-- [Uu]nsupported (numeric )?type",
     "lua: every match field leaves the line '-- Unsupported type: match' in the ProtoField table (default branch of generateFieldDefinitionFromPacket, lua_wsp_generator.go:445-450); other types without entry in luaBasicTypeMap get '-- unsupported ...' comment lines instead of a diagnostic (lua_wsp_generator.go:264-431)",
     "key-0"),
    # completeness of the IR
    ("char-field-dropped", r"go|py|cpp", r"^ir: ",
     "go/python/c++: a 'char' scalar has no member / no encode / no decode step (finding char-field-dropped of C01-C03)", "fnd-char", "char"),
    ("java-member-name-conversion", r"java", r"^ir: (field \d+ \(.*\): no (encode|decode) step|(E|D)Junk<class_members)",
     "java: members are declared as ToLowerCamel(ToCamel(name)) but encode/decode use ToLowerCamel(name): for s_u8, r_u8, b_len the steps name members that do not exist (finding java-member-name-conversion)",
     "fnd-underscore", "underscore"),
    ("object-field-name-is-not-type", r"go|java", r"^ir: field \d+ \(object( repeated)?\): no decode step",
     "go/java: the decoder allocates p.<TypeName> / new <fieldName>() but decodes through the field: for 'Inner ref_obj' the member is never allocated (findings go-object-field-name-is-not-type, java-object-field-name-is-not-type)",
     "fnd-objname"),
    ("cpp-arrow-on-object-target", r"cpp", r"^ir: field \d+ \(object\): no encode step",
     "c++: a length-of target that is an object is encoded with '->' although the member is a value (finding cpp-arrow-on-object-target): no well-typed encode step", "len-2"),
    ("rust-raw-type-names", r"rust", r"^ir: (field \d+ \(object( repeated)?\): no (encode|decode) step|(E|D)Junk<struct_)",
     "rust: field types use the raw packet name while structs are ToCamel(name) (finding rust-raw-type-names)", "fnd-lower-inline"),
    # syntax
    ("bare-pad-literal", r".*", r"^(syntax|javac|g\+\+): ",
     "all: FixedStringPadFromLeft = true without FixedStringPadChar leaves the bare space of NewConfiguration (model.go:142-153) as pad character: every generator pastes it unquoted into the call (finding bare-pad-literal)",
     "fnd-barepad", "barepad"),
    ("go-empty-package", r"go", r"^syntax: expected 'IDENT', found ('?import'?|newline|_test)",
     "go: without the GoPackage option every file starts with 'package ' (go_generator.go:65) / 'package _test' (go_generator.go:494)", "len-0"),
    ("go-char-syntax", r"go", r"^syntax: ",
     "go: the marker line / the empty sample of a 'char' field is not Go", "fnd-char", "char"),
    ("py-char-syntax", r"py", r"^syntax: ",
     "python: the marker line / the empty sample of a 'char' field is not Python", "fnd-char", "char"),
    ("java-empty-package", r"java", r"^javac: .*(<identifier> expected|class, interface, enum, or record expected|package ;)",
     "java: without the JavaPackage option every file starts with 'package ;' (java_generator.go:158, 676)", "len-0"),
    # javac / g++ -fsyntax-only against harness/stubs (optional, --stubs)
    ("java-nested-inline-class-name", r"java", r"^javac: package \w+ does not exist",
     "java: the test qualifies a doubly nested inline class with its direct parent only (Sub.Deep for Msg.Sub.Deep, java_generator.go:740-746)", "cells-c0"),
    ("java-u64-prefix-into-int", r"java", r"^javac: incompatible types: possible lossy conversion from long to int",
     "java: with StringPrefixLenType = u64 the decoder reads the prefix into a long and passes it to ByteBuf.readCharSequence(int, Charset) (java_generator.go:465, 467): does not compile",
     "cells-c5", "u64-prefix"),
    ("cpp-char", r"cpp", r"^g\+\+: ", "c++: a 'char' field has no C++ type: 'std::vector<> cs;', ' c;', buf.write_char (cpp_generator.go:21-32: no entry in cppBasicTypeMap, 276, 480-488)", "fnd-char", "char"),
    ("cpp-length-after-target", r"cpp", r"^g\+\+: .\w+Pos. was not declared in this scope",
     "c++: a length-of field declared after its target: the back-patch uses the position variable before its definition (finding length-field-after-target)", "fnd-len-after", "len-after"),
    ("cpp-camel-type-name", r"cpp", r"^g\+\+: (.\w+. was not declared in this scope|ISO C\+\+ forbids declaration of .type name. with no type|expected .>. before .\w+.|declaration of .* changes meaning of)",
     "c++: equals() and the test refer to <ToCamel(name)> (cpp_generator.go:172, 557, 587) while the struct is declared under the raw packet name (cpp_generator.go:139)", "fnd-snake-pkt", "rawname"),
    ("cpp-factory-tag-redefined", r"cpp", r"^g\+\+: redefinition of .struct \w+Tag.",
     "c++: 'struct <P>Tag{};' and 'using <P>MessageFactory' are emitted once per match KEY of a packet (cpp_generator.go:127-131): two match fields on different keys redefine them (sibling of finding factory-shared-by-match-fields)",
     "key-0", "two-match"),
    ("cpp-copy-of-unique-ptr-holder", r"cpp", r"^g\+\+: use of deleted function .*(operator=\(const \w+&\)|unique_ptr<)",
     "c++: the emitted test fills an object member with 'x.m = var;' (cpp_generator.go:567): a struct with a match member (std::unique_ptr) cannot be copy-assigned, so the test file does not compile (the C17 finding cpp-copy-of-unique-ptr-holder, here seen by g++ on the stubs)",
     "det-nonroot-matches"),
    ("cpp-nested-match-variable", r"cpp", r"^g\+\+: .\w+. was not declared in this scope",
     "c++: generateMakeUniqueInstance / generateNewInstance of a nested packet (cpp_generator.go:573-592) never declare the payload variable of a match field that is not at the top level (the C17 finding cpp-nested-match-variable, here seen by g++ on the stubs)",
     "det-shared-matching-payload"),
    ("cpp-redeclared-variable", r"cpp", r"^g\+\+: redeclaration of ", "c++: sample variables are named after the field (cpp_generator.go:545-557)", "rnd-0-1"),
    ("cpp-arrow-on-object-target", r"cpp", r"^g\+\+: base operand of .->. has non-pointer type",
     "c++: a length-of target that is an object is encoded with '->' (finding cpp-arrow-on-object-target, cpp_generator.go:229)", "len-2"),
    ("generator-panic-unresolved-object", r".*", r"^panic: runtime error: invalid memory address or nil pointer dereference",
     "all generators: an unresolved object reference (RefPacket == nil) is dereferenced: panic instead of a diagnostic", "rnd-0-2"),
]


def has_char(model):
    def pk(p):
        for f in p["fields"]:
            a = f["attr"]
            if a and a["kind"] == "basic" and a["type"].lower() == "char":
                return True
            if a and a["kind"] == "object" and a.get("inline") and pk(a["inline"]):
                return True
        return False
    return any(pk(p) for p in model["packets"])


def has_underscore(model):
    def pk(p):
        return any("_" in f["name"] or (f["attr"] and f["attr"]["kind"] == "object" and f["attr"].get("inline") and pk(f["attr"]["inline"]))
                   for f in p["fields"])
    return any(pk(p) for p in model["packets"])


def bare_pad(model):
    pad = model["config"].get("padding")
    return pad is not None and core.b64bytes(pad["char"]) == " " and pad["left"]


def walk_packets(model):
    for p in model["packets"]:
        for path, q in codec.all_paths({"packets": [p]}):
            yield q


def u64_prefix(model):
    return model["config"]["str"] == "u64" or model["config"]["list"] == "u64"


def len_after(model):
    for q in walk_packets(model):
        names = [f["name"] for f in q["fields"]]
        for i, f in enumerate(q["fields"]):
            a = f["attr"]
            if a and a["kind"] == "len" and a["target"] in names and names.index(a["target"]) < i:
                return True
    return False


def raw_name(model):
    return any(not q["name"][:1].isupper() or "_" in q["name"] for q in walk_packets(model))


def two_match(model):
    return any(len(set(f["attr"]["key"] for f in q["fields"] if f["attr"] and f["attr"]["kind"] == "match")) > 1 for q in walk_packets(model))


GUARDS = {"u64-prefix": u64_prefix, "len-after": len_after, "rawname": raw_name, "two-match": two_match, "char": has_char, "underscore": has_underscore, "barepad": bare_pad}


def classify(lang, text, model):
    for k in KNOWN:
        if len(k) > 5 and not (model is not None and GUARDS[k[5]](model)):
            continue
        if re.fullmatch(k[1], lang) and re.search(k[2], text):
            return k[0]
    return None


# ----------------------------------------------------------------------------------------
# (2) completeness of the observed IR
# ----------------------------------------------------------------------------------------
def field_desc(f):
    a = f["attr"]
    if a is None:
        return "nil"
    k = a["kind"]
    d = k + (" " + a["type"].lower() if k == "basic" and a["type"].lower() == "char" else "")
    return d + (" repeated" if f["repeat"] else "")


def ir_problems(model, observed):
    """[(path, text)] for one (program, language)"""
    out = []
    for path, p in codec.all_paths(model):
        txt = observed.get(path)
        if txt is None:
            out.append((path, "ir: no entry for the packet"))
            continue
        n, enc, dec = engine.parse_pkt(txt)
        if n != len(p["fields"]):
            out.append((path, "ir: members %d for %d fields" % (n, len(p["fields"]))))
        for kind, steps in (("encode", enc), ("decode", dec)):
            for t, s in steps:
                m = re.match(r"^([ED])(Junk<[^>]*>|Marker)", s)
                if m:
                    out.append((path, "ir: %s%s" % (m.group(1), re.sub(r"\d+", "N", m.group(2))[:60])))
        for i, f in enumerate(p["fields"]):
            a = f["attr"]
            live = lambda steps: [s for t, s in steps if t == i and not re.match(r"^[ED](Junk|Marker)", s)]
            if a and a["kind"] == "len" and not f["repeat"]:
                if not any(s.startswith("EMarkZero") for _, s in enc):
                    out.append((path, "ir: field %d (%s): no length placeholder" % (i, field_desc(f))))
            elif not [s for s in live(enc) if not s.startswith(("EMarkZero", "EPatch"))]:
                out.append((path, "ir: field %d (%s): no encode step" % (i, field_desc(f))))
            if not live(dec):
                out.append((path, "ir: field %d (%s): no decode step" % (i, field_desc(f))))
    return out


# ----------------------------------------------------------------------------------------
# (3) toolchains
# ----------------------------------------------------------------------------------------
def write_tree(root, files):
    shutil.rmtree(root, ignore_errors=True)
    for fn, txt in files.items():
        p = os.path.join(root, fn)
        os.makedirs(os.path.dirname(p), exist_ok=True)
        with open(p, "w", encoding="utf-8", errors="surrogateescape") as fh:
            fh.write(txt)


def gofmt_errors(root, files):
    names = [f for f in files if f.endswith(".go")]
    if not names:
        return []
    r = subprocess.run(["gofmt", "-e", "-l"] + names, cwd=root, stdout=subprocess.PIPE, stderr=subprocess.PIPE, text=True)
    out = []
    seen = set()
    for l in r.stderr.split("\n"):
        m = re.match(r"^([^:]+):(\d+):(\d+): (.*)$", l)
        if m and m.group(1) not in seen:          # the first error of a file; the rest is cascade
            seen.add(m.group(1))
            out.append((m.group(1), "syntax: %s (line %s)" % (m.group(4), m.group(2))))
    return out


def py_errors(root, files):
    import ast
    out = []
    for fn, txt in files.items():
        if fn.endswith(".py"):
            try:
                ast.parse(txt)
            except SyntaxError as ex:
                out.append((fn, "syntax: %s: %s" % (ex.msg, (ex.text or "").strip()[:60])))
    return out


STUBS = os.path.join(os.path.dirname(os.path.abspath(__file__)), "stubs")


def javac_errors(root, files):
    srcs = [f for f in files if f.endswith(".java")]
    stub = os.path.join(STUBS, "java")
    if not srcs or not os.path.isdir(stub):
        return []
    stubsrc = [os.path.join(dp, f) for dp, _, fs in os.walk(stub) for f in fs if f.endswith(".java")]
    outdir = os.path.join(root, "_classes")
    os.makedirs(outdir, exist_ok=True)
    r = subprocess.run(["timeout", "120", "javac", "-proc:none", "-Xlint:none", "-nowarn", "-Xmaxerrs", "20", "-d", outdir] + stubsrc + srcs,
                       cwd=root, stdout=subprocess.PIPE, stderr=subprocess.STDOUT, text=True)
    out = []
    seen = set()
    for l in r.stdout.split("\n"):
        m = re.match(r"^(\S+\.java):(\d+): error: (.*)$", l)
        if m and m.group(1) not in seen:          # the first error of a file
            seen.add(m.group(1))
            out.append((m.group(1), "javac: %s" % m.group(3)))
    if r.returncode != 0 and not out:
        out.append(("?", "javac: " + r.stdout[-200:]))
    return out


def gpp_errors(root, files):
    stub = os.path.join(STUBS, "cpp")
    srcs = [f for f in files if f.endswith("_test.cpp")]
    if not srcs or not os.path.isdir(stub):
        return []
    out = []
    for s in srcs:
        r = subprocess.run(["timeout", "120", "g++", "-std=c++17", "-fsyntax-only", "-fmax-errors=8", "-w", "-I", stub, "-I", ".", "-I", "include", s],
                           cwd=root, stdout=subprocess.PIPE, stderr=subprocess.STDOUT, text=True)
        seen = set()
        for l in r.stdout.split("\n"):
            m = re.match(r"^([^:\s]+):(\d+):(\d+): error: (.*)$", l)
            if m and m.group(1) not in seen:      # the first error of a file
                seen.add(m.group(1))
                out.append((m.group(1), "g++: %s" % m.group(4)))
        if r.returncode != 0 and not any(x[1].startswith("g++") for x in out):
            out.append((s, "g++: " + r.stdout[-200:]))
    return out


def norm(text):
    """a deviation text without the identifiers of the particular program"""
    return text


# ----------------------------------------------------------------------------------------
def main():
    import argparse
    ap = argparse.ArgumentParser()
    ap.add_argument("--tier", default="quick")
    ap.add_argument("--seed", type=int, default=0)
    ap.add_argument("--no-toolchains", action="store_true")
    ap.add_argument("--stubs", action="store_true", help="also run javac / g++ -fsyntax-only against harness/stubs (slow)")
    ap.add_argument("--only", default=None)
    ap.add_argument("--no-coq", action="store_true", help="skip the evaluation of complete_ir in Coq")
    args = ap.parse_args()
    t = core.Timer()
    new = []
    notes = []
    # ---- (1a) the marker sites of the source
    sites = marker_sites()
    seen_keys = collections.Counter()
    for fn, ln, lit in sites:
        key = (fn, lit)
        seen_keys[key] += 1
        if key not in MARKER_SITES:
            new.append(("-", "new marker site %s:%d %s (not in MARKER_SITES of harness/complete.py)" % (fn, ln, lit), [("-", "-")]))
    for key in MARKER_SITES:
        if key not in seen_keys:
            notes.append("marker site %s %s is no longer in the source" % key)
    patterns = []
    for fn, ln, lit in sites:
        kind = MARKER_SITES.get((fn, lit), "marker")
        patterns.append((kind, "%s:%d" % (fn, ln), literal_regex(lit)))
    benign = [p for p in patterns if p[0] == "benign"]
    marks = [p for p in patterns if p[0] == "marker"]

    r = engine.run_engine(args.tier, args.seed)
    if "coq_build_failed" in r:
        print("Coq development does not build:\n" + r["coq_build_failed"])
        return 2
    hook = core.Hook()
    progs = engine.programs_for(args.tier, args.seed)
    if args.only:
        progs = [x for x in progs if x[0] in args.only.split(",")]
    tools = {"gofmt": shutil.which("gofmt") is not None, "python-ast": True, "luac": shutil.which("luac") is not None,
             "javac": shutil.which("javac") is not None and os.path.isdir(os.path.join(STUBS, "java")) and args.stubs,
             "g++": shutil.which("g++") is not None and os.path.isdir(os.path.join(STUBS, "cpp")) and args.stubs,
             "rustc": False}
    deviations = collections.OrderedDict()         # (lang, text) -> [(pid, where)]
    py_side = {}
    gbody = []
    models, texts = {}, {}
    stats = collections.Counter()
    scratch = os.path.join(core.BUILD, "complete_scratch")

    def deviate(lang, text, pid, where):
        deviations.setdefault((lang, text), []).append((pid, where))

    for pid, text in progs:
        texts[pid] = text
        resp = hook.ask({"op": "gen", "text": text, "langs": ALL_LANGS})
        if resp.get("fatal") or resp.get("syntax_error") or resp.get("rejected") or resp.get("cyclic") or "steps" not in resp:
            stats["not compiled"] += 1
            continue
        stats["programs"] += 1
        models[pid] = resp["model"]
        for lang6, step in zip(ALL_LANGS, resp["steps"]):
            lang = SHORT.get(lang6, lang6)
            if "error" in step:
                stats["%s refused with an error" % lang] += 1
                continue
            if "panic" in step:
                stats["%s panics" % lang] += 1
                deviate(lang, "panic: " + step["panic"], pid, "*")
                continue
            files = step["files"]
            stats["%s files" % lang] += len(files)
            # (1b) marker scan
            for fn, txt in files.items():
                for ln, line in enumerate(txt.split("\n"), 1):
                    if not KEYWORDS.search(line) and "--" not in line:
                        continue
                    if any(p[2].search(line) for p in benign):
                        continue
                    hit = next((p for p in marks if p[2].search(line)), None)
                    if hit:
                        stats["%s marker lines" % lang] += 1
                        deviate(lang, "marker: %s emits '%s'" % (hit[1], re.sub(r"\s+", " ", line.strip())[:80]), pid, "%s:%d" % (fn, ln))
            # (1c) Lua: every ProtoField the dissector functions use is declared, every sub-dissector called is defined
            if lang == "lua":
                for fn, txt in files.items():
                    declared = set(re.findall(r"^\s*(\w+) = ProtoField\.", txt, re.M))
                    used = set(re.findall(r"\bfields\.(\w+)", txt))
                    for x in sorted(used - declared):
                        deviate(lang, "lua: fields.%s is used by a dissector function but no ProtoField is declared under that name" % x, pid, fn)
                    defined = set(re.findall(r"^local function (dissect_\w+)\(", txt, re.M))
                    called = set(re.findall(r"\b(dissect_\w+)\(", txt))
                    for x in sorted(called - defined):
                        deviate(lang, "lua: %s is called but never defined" % x, pid, fn)
                    stats["lua fields used"] += len(used)
            # (1d) Go: an imported package that the file never refers to does not compile (checked against `go build`
            # by harness/goexec.py: the static rule agrees with the compiler on every file)
            if lang == "go":
                for fn, txt in files.items():
                    m = re.search(r"^import \((.*?)^\s*\)", txt, re.S | re.M)
                    if not m:
                        continue
                    rest = txt[m.end():]
                    for imp in re.findall(r'^\s*(?:(\w+)\s+)?"([^"]+)"', m.group(1), re.M):
                        name = imp[0] or imp[1].rsplit("/", 1)[-1]
                        if name and not re.search(r"\b%s\." % re.escape(name), rest):
                            deviate(lang, "go: package %s is imported and not used" % imp[1], pid, fn)
            # (3) syntax
            if not args.no_toolchains:
                root = os.path.join(scratch, lang)
                errs = []
                if lang == "go" and tools["gofmt"]:
                    write_tree(root, files)
                    errs += gofmt_errors(root, files)
                if lang == "py":
                    errs += py_errors(root, files)
                if lang == "java" and tools["javac"]:
                    write_tree(root, files)
                    errs += javac_errors(root, files)
                if lang == "cpp" and tools["g++"]:
                    write_tree(root, files)
                    errs += gpp_errors(root, files)
                stats["%s files checked" % lang] += len(files) if lang in ("go", "py") or (lang == "java" and tools["javac"]) or (lang == "cpp" and tools["g++"]) else 0
                for fn, e in errs:
                    stats["%s syntax errors" % lang] += 1
                    deviate(lang, norm(e), pid, fn)
        # (2) completeness of the observed IR
        ep = r["programs"].get(pid)
        if ep is None or "skipped" in ep:
            stats["ir not available (outside the modelled input space)"] += 1
            continue
        mname = "M_" + "".join(c if c.isalnum() else "_" for c in pid)
        glines = ["Definition %s : bmodel := %s." % (mname, core.g_model(ep["model"], ep["names"]))]
        for lang, e in ep["langs"].items():
            if "observed" not in e:
                continue
            stats["%s ir programs" % lang] += 1
            probs = ir_problems(ep["model"], e["observed"])
            if not probs:
                stats["%s ir complete" % lang] += 1
            for path, tx in probs:
                deviate(lang, tx, pid, path)
            py_side[(pid, lang)] = (not probs, sorted(set((path, int(m.group(1))) for path, tx in probs
                                                             for m in [re.match(r"ir: field (\d+) ", tx)] if m)),
                                    all(v == "T" for v in e["valid_enc"].values()) and all(v == "T" for v in e["valid_dec"].values())
                                    and e.get("paths_ok", False))
            oname = "O_%s_%s" % (mname, lang)
            glines.append("Definition %s : prog := %s." % (oname, IR.g_prog([(path, checks.fix_ir(pir)) for path, pir in e["prog"]])))
            glines.append('Eval vm_compute in ("<<<%s|%s>>>" ++ show_bool (complete_ir %s %s) ++ "," ++ show_bool (supported %s) ++ "," ++ '
                          'show_bool (andb (validate_enc %s %s) (validate_dec %s %s)) ++ "," ++ '
                          'join " " (map (fun x => fst x ++ ":" ++ show_nat (snd x)) (incomplete_fields %s %s))).'
                          % (pid, lang, mname, oname, mname, mname, oname, mname, oname, mname, oname))
        gbody += glines
    hook.close()
    # ---- the executable Coq definition (coq/Tests/Completeness.v, theorem in coq/Proofs/Complete.v) on the same IR
    if not args.no_coq:
        from concurrent.futures import ThreadPoolExecutor
        shards = engine.shard_body(gbody, 8)
        prelude = core.COQ_PRELUDE + "From FP Require Import Validate Completeness.\nOpen Scope string_scope.\n"
        with ThreadPoolExecutor(max_workers=16) as ex:
            outs = list(ex.map(lambda kv: core.coq_eval("cases_complete_%d" % kv[0], kv[1], prelude=prelude), list(enumerate(shards))))
        got = {}
        for rc, out, err in outs:
            if rc != 0:
                new.append(("-", "coq evaluation failed: " + err[-600:], [("-", "-")]))
            got.update(core.parse_results(out))
        for (pid, lang), (py_ok, py_fields, validated) in py_side.items():
            g = got.get("%s|%s" % (pid, lang))
            if g is None:
                new.append((lang, "no Coq result for complete_ir", [(pid, "*")]))
                continue
            c_ok, c_sup, c_val, c_fields = g.split(",", 3)
            cf = sorted(set((x.rsplit(":", 1)[0], int(x.rsplit(":", 1)[1])) for x in c_fields.split(" ") if x))
            stats["coq complete_ir evaluated"] += 1
            stats["coq complete_ir = true"] += c_ok == "T"
            stats["coq validated (enc and dec)"] += c_val == "T"
            if cf != py_fields:
                new.append((lang, "harness: Coq incomplete_fields %s, Python completeness scan %s" % (cf[:4], py_fields[:4]), [(pid, "*")]))
            if (c_val == "T") != validated:
                new.append((lang, "harness: validate_enc/dec = %s here, engine says %s" % (c_val, validated), [(pid, "*")]))
            if c_val == "T" and c_sup == "T" and c_ok != "T":
                new.append((lang, "theorem validated_is_complete contradicted by evaluation (!)", [(pid, "*")]))
    # ---- classification
    known_seen = collections.OrderedDict()
    for (lang, text), where in deviations.items():
        rest = []
        for w in where:
            kid = classify(lang, text, models.get(w[0]))
            if kid is None:
                rest.append(w)
            else:
                known_seen.setdefault(kid, []).append((lang, text, w))
        if rest:
            new.append((lang, text, rest))
    print("C07 completeness: tier %s seed %d, %d programs x %d targets, engine %s, %.1fs" % (
        args.tier, args.seed, stats["programs"], len(ALL_LANGS), "cached" if r.get("cached") else "run", t.s()))
    print("  marker sites in the source: %d (%d marker, %d benign); toolchains: %s" % (
        len(sites), len(marks), len(benign), ", ".join("%s=%s" % (k, "yes" if v else "no") for k, v in tools.items())))
    for lang in ["go", "rust", "java", "py", "cpp", "lua"]:
        print("  %-5s %s" % (lang, "  ".join("%s=%d" % (k[len(lang) + 1:], n) for k, n in sorted(stats.items()) if k.startswith(lang + " "))))
    for k in ("coq complete_ir evaluated", "coq complete_ir = true", "coq validated (enc and dec)"):
        if stats[k]:
            print("  %s: %d" % (k, stats[k]))
    for k in ("not compiled", "ir not available (outside the modelled input space)"):
        if stats[k]:
            print("  %s: %d" % (k, stats[k]))
    for n in notes:
        print("  NOTE " + n)
    alld = dict((k[0], k) for k in KNOWN)
    print("known deviation classes seen: %d" % len(known_seen))
    for kid, items in known_seen.items():
        langs = sorted(set(l for l, _, _ in items))
        print("  KNOWN %-34s %-12s x%-4d %s" % (kid, ",".join(langs), len(items), alld[kid][3][:160]))
    for lang, text, where in new:
        print("NEW-DEVIATION lang=%s program=%s at=%s :: %s" % (lang, where[0][0], where[0][1], text))
        if where[0][0] in texts:
            print("   dsl: " + texts[where[0][0]].replace("\n", "\\n")[:500])
    rep = {"tier": args.tier, "seed": args.seed, "stats": dict(stats), "toolchains": tools,
           "marker_sites": [{"file": fn, "line": ln, "literal": lit, "kind": MARKER_SITES.get((fn, lit), "NEW")} for fn, ln, lit in sites],
           "known_deviations_seen": {kid: {"description": alld[kid][3], "witness": alld[kid][4], "occurrences": len(items),
                                           "languages": sorted(set(l for l, _, _ in items)),
                                           "examples": [{"lang": l, "text": tx, "program": w[0], "at": w[1]} for l, tx, w in items[:3]]}
                                     for kid, items in known_seen.items()},
           "new_deviations": [{"lang": l, "text": tx, "program": w[0][0], "at": w[0][1], "count": len(w), "dsl": texts.get(w[0][0])} for l, tx, w in new],
           "notes": notes}
    os.makedirs(core.BUILD, exist_ok=True)
    json.dump(rep, open(os.path.join(core.BUILD, "complete_report.json"), "w"), indent=1)
    return 1 if new else 0


if __name__ == "__main__":
    sys.exit(main())
