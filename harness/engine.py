"""The codec engine shared by C01-C06: one run compiles the corpus with the real generators,
extracts the IR of their output, and asks Coq for (i) the generator models' output (the tie),
(ii) the reference compilation and the proved-sound validator's verdict on the *observed* IR,
per packet.  Results are cached per repository fingerprint / tier / seed."""
import hashlib
import json
import os
import re
import sys

sys.path.insert(0, os.path.dirname(os.path.abspath(__file__)))
import core
import codec
import corpus
import ir as IR
from core import g_model

LANGS = ["go", "rust", "java", "py", "cpp"]
CACHE = os.path.join(core.VERIF, ".cache")


def programs_for(tier, seed):
    if os.environ.get("VERIF_REPLAY_DSL"):
        return [("replay", os.environ["VERIF_REPLAY_DSL"])]
    cfgs = corpus.pairwise_configs() if tier == "quick" else corpus.all_configs()
    if tier == "quick":
        cfgs = cfgs[:12]
    progs = corpus.cell_programs(cfgs)
    progs += corpus.finding_programs()
    # the layout / ordering / identifier-shape programs of the determinism checks (small), except the
    # one whose output is nondeterministic by itself (file-name collision, the C13 finding)
    # (det-acronyms: every Rust packet falls under the recorded finding rust-raw-type-names, whose witness
    # programs are among the finding programs already)
    progs += [(pid, text) for pid, text in corpus.layout_programs() if pid not in ("det-name-collision", "det-acronyms")]
    progs += corpus.random_programs(seed, 12 if tier == "quick" else 200)
    return progs


STEP_RE = re.compile(r"(\d+):")


def split_steps(txt):
    """'0:EInt(1,F) 1:EList(...)' -> [(tag, text)] (splits on top-level blanks only)."""
    out = []
    depth = 0
    cur = ""
    for ch in txt:
        if ch in "([":
            depth += 1
        elif ch in ")]":
            depth -= 1
        if ch == " " and depth == 0:
            if cur:
                out.append(cur)
            cur = ""
        else:
            cur += ch
    if cur:
        out.append(cur)
    res = []
    for s in out:
        m = STEP_RE.match(s)
        res.append((int(m.group(1)), s[m.end():]) if m else (-1, s))
    return res


def split_plain(txt):
    """'EInt(1,F) EList(..)' -> step texts (no tags)"""
    out = []
    depth = 0
    cur = ""
    for ch in txt:
        if ch in "([":
            depth += 1
        elif ch in ")]":
            depth -= 1
        if ch == " " and depth == 0:
            if cur:
                out.append(cur)
            cur = ""
        else:
            cur += ch
    if cur:
        out.append(cur)
    return out


def parse_pkt(txt):
    """'path{n|enc|dec}' -> (n, enc steps, dec steps)"""
    body = txt[txt.index("{") + 1:-1]
    n, enc, dec = body.split("|", 2)
    return int(n), split_steps(enc), split_steps(dec)


def erase(step):
    """A step's text with member indices / mark and span ids erased (the signature form)."""
    s = re.sub(r"^(EMarkZero)\(\d+,", r"\1(_,", step)
    s = re.sub(r"^(EPatch)\(\d+,\d+,", r"\1(_,_,", s)
    s = re.sub(r"^(ESpan\(.*),\d+\)$", r"\1,_)", s)
    s = re.sub(r"DDispatch\(\[[^\]]*\],([TF]),\d+,", r"DDispatch([..],\1,_,", s)
    s = re.sub(r"ECheck\([0-9.]*,", "ECheck(_,", s)
    s = re.sub(r"EObj\([^)]*\)", "EObj(_)", s)
    s = re.sub(r"DObj\([^)]*\)", "DObj(_)", s)
    s = re.sub(r"(EFixed|DFixed)\(\d+,", r"\1(_,", s)
    return s


def diff_signatures(obs_steps, ref_steps):
    """Align by member tag; return sorted signature strings 'observed ~ reference'."""
    sigs = set()

    def by_tag(steps):
        d = {}
        for t, s in steps:
            d.setdefault(t, []).append(s)
        return d
    o, r = by_tag(obs_steps), by_tag(ref_steps)
    for t in sorted(set(o) | set(r)):
        a, b = o.get(t, []), r.get(t, [])
        if a == b:
            continue
        # value-independent steps may carry different tags: compare them untagged below
        a2 = [x for x in a if not x.startswith(("EMarkZero", "EPatch"))]
        b2 = [x for x in b if not x.startswith(("EMarkZero", "EPatch"))]
        if a2 != b2:
            sigs.add("%s ~ %s" % (" ".join(erase(x) for x in a2) or "-", " ".join(erase(x) for x in b2) or "-"))
    am = sorted(erase(s) for t, s in obs_steps if s.startswith(("EMarkZero", "EPatch")))
    bm = sorted(erase(s) for t, s in ref_steps if s.startswith(("EMarkZero", "EPatch")))
    if am != bm:
        sigs.add("%s ~ %s" % (" ".join(am) or "-", " ".join(bm) or "-"))
    return sorted(sigs)


def run_engine(tier="quick", seed=0, langs=LANGS, use_cache=True):
    t = core.Timer()
    fp = core.build_binaries()["fingerprint"]
    vfp = hashlib.sha256()
    for root, dirs, files in os.walk(os.path.join(core.VERIF, "harness")):
        for f in sorted(files):
            if f.endswith(".py"):
                vfp.update(open(os.path.join(root, f), "rb").read())
    for root, dirs, files in os.walk(core.COQ):
        dirs[:] = sorted(d for d in dirs if d != "Run")
        for f in sorted(files):
            if f.endswith(".v"):
                vfp.update(open(os.path.join(root, f), "rb").read())
    key = hashlib.sha256(("%s|%s|%s|%d|%s|%s" % (fp, vfp.hexdigest(), tier, seed, ",".join(langs), os.environ.get("VERIF_REPLAY_DSL", ""))).encode()).hexdigest()[:24]
    os.makedirs(CACHE, exist_ok=True)
    cpath = os.path.join(CACHE, "engine-%s.json" % key)
    if use_cache and os.path.exists(cpath):
        res = json.load(open(cpath))
        res["cached"] = True
        return res
    ok, out = core.coq_make()
    if not ok:
        return {"coq_build_failed": out[-4000:], "fingerprint": fp}
    hook = core.Hook()
    progs = programs_for(tier, seed)
    body = []
    cases = []
    programs = {}
    stats = {"programs": 0, "outside_model": 0, "rejected": 0, "generator_panics": 0, "hook_fatal": 0}
    for pid, text in progs:
        resp, names = codec.compile_program(hook, text, langs)
        if names is None:
            if resp.get("fatal"):
                stats["hook_fatal"] += 1
            stats["rejected"] += 1
            programs[pid] = {"text": text, "skipped": "rejected or not compiled"}
            continue
        ok_m, why = codec.modelled(resp["model"])
        if not ok_m:
            stats["outside_model"] += 1
            programs[pid] = {"text": text, "skipped": "outside the modelled input space: " + "; ".join(sorted(set(why)))}
            continue
        stats["programs"] += 1
        mname = "M_" + "".join(c if c.isalnum() else "_" for c in pid)
        body.append("Definition %s : bmodel := %s." % (mname, g_model(resp["model"], names)))
        entry = {"text": text, "langs": {}, "model": resp["model"], "names": names}
        programs[pid] = entry
        for lang, step in zip(langs, resp["steps"]):
            if "error" in step:
                # the generator refuses the program with an error (e.g. no root packet for Lua/Python/C++)
                stats["generator_errors"] = stats.get("generator_errors", 0) + 1
                entry["langs"][lang] = {"error": step["error"]}
                continue
            if "panic" in step:
                stats["generator_panics"] += 1
                entry["langs"][lang] = {"panic": step["panic"], "frames": step.get("frames")}
                continue
            prog, notes = codec.extractor(lang)(step["files"], resp["model"], names)
            oname = "O_%s_%s" % (mname, lang)
            body.append("Definition %s : prog := %s." % (oname, IR.g_prog(prog)))
            cid = "%s|%s" % (pid, lang)
            cases.append(cid)
            entry["langs"][lang] = {"observed": {path: IR.show_pkt(path, pir) for path, pir in prog}, "notes": notes,
                                    "order": [path for path, _ in prog], "prog": prog,
                                    "model_unchanged": step.get("model_unchanged", True)}
            body.append('Eval vm_compute in ("<<<%s|model>>>" ++ show_prog (%s %s)).' % (cid, codec.COQ_GEN[lang], mname))
            body.append('Eval vm_compute in ("<<<%s|rep>>>" ++ show_bool (lenw_ok %s) ++ "@@" ++ report %s %s).' % (cid, mname, mname, oname))
    hook.close()
    t_hook = t.s()
    # shard: one coqc per ~12 programs, in parallel
    shards = shard_body(body, 8)
    outs = run_shards(shards, "engine")
    got = {}
    errors = []
    for rc, out, err in outs:
        if rc != 0:
            errors.append(("coqc exit status %d%s " % (rc, " (time limit)" if rc == 124 else "")) + err[-2000:])
        got.update(core.parse_results(out))
    for cid in cases:
        pid, lang = cid.split("|")
        e = programs[pid]["langs"][lang]
        e["model"] = IR.parse_show_prog(got.get(cid + "|model", ""))
        rep = got.get(cid + "|rep", "").split("@@")
        if len(rep) != 7:
            rep = ["F", "", "F", "", "", "", ""]
        e["ref"] = IR.parse_show_prog(rep[1])
        e["lenw_ok"] = rep[0] == "T"
        e["paths_ok"] = rep[2] == "T"
        e["valid_enc"] = dict(x.rsplit("=", 1) for x in rep[3].split(",") if x)
        e["valid_dec"] = dict(x.rsplit("=", 1) for x in rep[4].split(",") if x)
        for kind, txt in (("enc", rep[5]), ("dec", rep[6])):
            d = {}
            for part in txt.split("%%"):
                if "==" not in part:
                    continue
                path, rest = part.split("==", 1)
                sigs = []
                for pr in rest.split("&&"):
                    if "~~" in pr:
                        x, y = pr.split("~~", 1)
                        sigs.append("%s ~ %s" % (" ".join(erase(s) for s in split_plain(x)) or "-",
                                                 " ".join(erase(s) for s in split_plain(y)) or "-"))
                d[path] = sorted(set(sigs))
            e["diff_" + kind] = d
    res = {"fingerprint": fp, "tier": tier, "seed": seed, "stats": stats, "programs": programs, "cases": cases,
           "coq_errors": errors, "wall_s": t.s(), "hook_extract_s": t_hook, "cached": False}
    json.dump(res, open(cpath, "w"))
    return res


def shard_body(body, per):
    """Group the lines so that each shard holds whole programs (a 'Definition M_' line starts a program)."""
    groups = []
    cur = []
    for l in body:
        if l.startswith("Definition M_") and " : bmodel" in l and cur:
            groups.append(cur)
            cur = []
        cur.append(l)
    if cur:
        groups.append(cur)
    # balance by size: big programs dominate the evaluation time
    # at least 16 bins (one per core); more when the corpus is large, so that no single coqc run
    # grows past a few minutes (the thorough tier once lost a shard to the evaluation time limit)
    total = sum(len(l) for g in groups for l in g)
    nshards = max(1, min(len(groups), max((len(groups) + per - 1) // per, total // 400000)))
    bins = [[0, []] for _ in range(nshards)]
    for g in sorted(groups, key=lambda g: -sum(len(l) for l in g)):
        b = min(bins, key=lambda b: b[0])
        b[0] += sum(len(l) for l in g)
        b[1].append(g)
    return ["\n".join("\n".join(g) for g in b[1]) + "\n" for b in bins if b[1]]


def run_shards(shards, tag):
    from concurrent.futures import ThreadPoolExecutor
    with ThreadPoolExecutor(max_workers=16) as ex:
        return list(ex.map(lambda kv: core.coq_eval("cases_%s_%d" % (tag, kv[0]), kv[1],
                                                    prelude=core.COQ_PRELUDE + "From FP Require Import Validate RefDec.\nOpen Scope string_scope.\n"),
                           list(enumerate(shards))))
