#!/usr/bin/env python3
"""Python EXECUTION oracle: run the emitted Python codecs and self-tests for real.

    python3 harness/pyexec.py [--programs cells|findings|all] [--only id[,id]] [--dsl-file f] [--no-engine] [--jobs N]
                              [--baseline report.json] [--out report.json] [--rebind-fix] [--show N]

The other checks never run emitted code: harness/extract_py.py reads the emitted text back into
the codec IR, whose semantics (coq/IR/Sem.v) is the written-down runtime contract.  python3 is
available, so here the emitted <root>.py / <root>_test.py are executed against a small STAND-IN
runtime (harness/pyexec_rt/: bytebuf.py, checksum.py, message_factory.py, codec.py - every function
is listed there with its Sem.v counterpart) and compared with

  * the wire SPECIFICATION  coq/Wire/Layout.v  `layout (cs_test reg) M fuel0 p v`  (= lay_packet ... []),
  * the harness's MODEL of the emitted code:  sem_enc / sem_dec  on the IR extract_py.py reads,

both evaluated by coqc in coq/Run/pyexec_<n>.v.  The checksum registry is IR/Oracle.v `cs_test`
on both sides (every name registered with (7 + sum of the bytes) mod 251, or nothing registered).

Per (packet path, sample message, registry) the verdict against the specification is
  Agree | NotAMessage | ImportFails(text) | EncFails(text) | EncDiffers(got,want) | DecFails(text)
  | DecConsumes(n,want) | DecDiffers | ReencDiffers(got,want)
and `model_disagreements` lists every step where real execution and Sem.v-on-the-extracted-IR
differ (bytes, failure, bytes consumed, decoded value, re-encoding).

Acceptance classes (validity = the proved-sound validator's verdict, engine.run_engine("quick", 0)
where the program is in its corpus, else the same Validate.report evaluated here):
  whole   every Python packet of the program validates (hypothesis of validated_enc/dec_correct)
  closure the packet and every packet it can reach validate
  self    valid_enc = valid_dec = T for the packet alone (it calls a packet the validator rejects)
  ambiguous  two packets are emitted under ONE Python class name (finding file-name-collision): no per-path verdict
ACCEPTANCE: every execution in the classes whole/closure agrees with the specification, unless the emitted MODULE does
not import and the failing line belongs to a packet the validator rejects (Python loads a module as a whole; the
validator judges packet by packet) - those are counted as "blocked".
--baseline: list the executions whose verdict differs from an earlier report (mutated generators: VERIF_REPO=<worktree>
            python3 harness/pyexec.py --no-engine --baseline .build/pyexec_report.json --out ...).
--rebind-fix: experiment for the one systematic disagreement found between execution and the model: a packet with two
            match fields on different keys emits `xMessageFactory = XMessageFactory()` twice, the second binding drops the
            registrations of the first (Python), extract_py.py merges them (its documented convention).
Self-tests (C17): <root>_test.py is a unittest module; it is run with both registries; a test
passes iff it passes under both (the rule of harness/tests.py), compared with .build/tests_report.json.
Report: .build/pyexec_report.json."""
import argparse
import collections
import json
import os
import re
import shutil
import subprocess
import sys
from concurrent.futures import ThreadPoolExecutor

sys.path.insert(0, os.path.dirname(os.path.abspath(__file__)))
import core
import codec
import corpus
import engine
import samples
import ir as IR
from core import g_model

RT_DIR = os.path.join(os.path.dirname(os.path.abspath(__file__)), "pyexec_rt")
RT_FILES = ["bytebuf.py", "checksum.py", "message_factory.py", "codec.py", "pyexec_driver.py"]
SCRATCH = os.path.join(core.BUILD, "pyexec")
JUNK = [171, 205, 239]
MARK = "@@PYEXEC "

PRELUDE = core.COQ_PRELUDE + """From FP Require Import Validate RefDec.
Open Scope string_scope.
Definition pyx_hexd (n : N) : string := String (Ascii.ascii_of_N (if N.ltb n 10 then 48 + n else 87 + n)) EmptyString.
Fixpoint pyx_hex (l : list byte) : string :=
  match l with [] => "" | b :: r => pyx_hexd (N.div b 16) ++ pyx_hexd (N.modulo b 16) ++ pyx_hex r end.
Definition pyx_ob (o : option (list byte)) : string := match o with Some b => "S" ++ pyx_hex b | None => "N" end.
(* printing long strings is what costs time in coqc: bytes equal to the specification's are printed as "=" *)
Definition pyx_rel (ref : option (list byte)) (o : option (list byte)) : string :=
  match ref, o with
  | Some a, Some b => if list_eqb a b then "=" else "S" ++ pyx_hex b
  | _, _ => pyx_ob o
  end.
Definition pyx_junk : list byte := [%s]%%N.
(* the harness's model of the emitted decoder on the specification's bytes followed by junk:
   ok.<bytes consumed>.<decoded = original up to computed members>.<re-encoding> | err | crash *)
Definition pyx_dec (reg : bool) (M : bmodel) (P : prog) (path : string) (p : packet) (v : value) (b : list byte) : string :=
  match sem_dec P fuel0 path (b ++ pyx_junk) with
  | DOk (v', rest') =>
      "ok." ++ show_nat (length b + length pyx_junk - length rest') ++ "."
      ++ show_bool (value_eqb (blank M fuel0 p v) (blank M fuel0 p v')) ++ "."
      ++ pyx_rel (Some b) (sem_enc (cs_test reg) P fuel0 path v' [])
  | DErr => "err"
  | DCrash => "crash"
  end.
(* specification bytes / model's encoding / model's decoding *)
Definition pyx_row (reg : bool) (M : bmodel) (P : prog) (path : string) (v : value) : string :=
  match packet_at M path with
  | None => "N/" ++ pyx_ob (sem_enc (cs_test reg) P fuel0 path v []) ++ "/-"
  | Some p =>
      let spec := layout (cs_test reg) M fuel0 p v in
      pyx_ob spec ++ "/" ++ pyx_rel spec (sem_enc (cs_test reg) P fuel0 path v []) ++ "/"
      ++ match spec with Some b => pyx_dec reg M P path p v b | None => "-" end
  end.
Definition pyx_both (M : bmodel) (P : prog) (path : string) (v : value) : string :=
  let a := pyx_row true M P path v in
  let b := pyx_row false M P path v in
  a ++ "#" ++ (if String.eqb a b then "=" else b).
""" % "; ".join(str(b) for b in JUNK)


# ----------------------------------------------------------------------------------------
# programs
# ----------------------------------------------------------------------------------------
def program_sets(which):
    out = []
    if which in ("cells", "all"):
        out += [(pid, text, {}) for pid, text in corpus.cell_programs(corpus.pairwise_configs()[:4])]
    if which in ("findings", "all"):
        import tests
        out += [(pid, text, {}) for pid, text in corpus.finding_programs()]
        out += [(pid, text, {}) for pid, text in corpus.layout_programs() if pid != "det-escaped-keys"]   # escaped key literals: carried as written in IR and samples, unescaped by Python
        out += tests.witness_programs()
    return out


def safe(pid):
    return "".join(c if c.isalnum() else "_" for c in pid)


# ----------------------------------------------------------------------------------------
# value trees (what the driver builds objects from) and the blanking of computed members
# ----------------------------------------------------------------------------------------
class Trees:
    def __init__(self, model, names):
        self.model = model
        self.names = names
        self.top = {}
        for p in model["packets"]:
            self.top[p["name"]] = p           # the LAST packet of a name (PacketsMap)

    def camel(self, n):
        return self.names[n][0] if n in self.names else n

    def elem(self, a, path, fname, v):
        if a is None:
            return self.plain(v)
        k = a["kind"]
        if k == "object" and v[0] == "O":
            if a["iner"] and a.get("inline"):
                return self.packet(a["inline"], path + "/" + fname, v)
            q = self.top.get(a.get("ref"))
            if q is not None:
                return self.packet(q, q["name"], v)
            return {"O": [self.plain(x) for x in v[1]], "cls": None}
        if k == "match" and v[0] == "D":
            q = self.top.get(v[1])
            if q is not None:
                return self.packet(q, q["name"], v[2])
            return {"O": [self.plain(x) for x in v[2][1]], "cls": None}
        return self.plain(v)

    def plain(self, v):
        if v[0] == "I":
            return {"I": v[1]}
        if v[0] == "S":
            return {"S": bytes(v[1]).hex()}
        if v[0] == "L":
            return {"L": [self.plain(x) for x in v[1]]}
        if v[0] == "O":
            return {"O": [self.plain(x) for x in v[1]], "cls": None}
        return {"O": [self.plain(x) for x in v[2][1]], "cls": None}

    def packet(self, p, path, v):
        if v[0] != "O" or len(v[1]) != len(p["fields"]):
            return self.plain(v)
        out = []
        for f, x in zip(p["fields"], v[1]):
            a = f["attr"]
            if f["repeat"] and x[0] == "L":
                out.append({"L": [self.elem(a, path, f["name"], y) for y in x[1]]})
            else:
                out.append(self.elem(a, path, f["name"], x))
        return {"O": out, "cls": self.camel(p["name"])}

    # IR/Oracle.v `blank`: computed members (length-of, checksum) set to 0, recursively
    def blank(self, p, t, depth=0):
        if depth > 24 or "O" not in t or len(t["O"]) != len(p["fields"]):
            return t
        out = []
        for f, x in zip(p["fields"], t["O"]):
            a = f["attr"]
            if a is not None and not f["repeat"] and a["kind"] in ("len", "checksum"):
                out.append({"I": 0})
            elif a is not None and f["repeat"] and "L" in x:
                out.append({"L": [self.blank_elem(a, y, depth) for y in x["L"]]})
            else:
                out.append(self.blank_elem(a, x, depth))
        return {"O": out, "cls": t.get("cls")}

    def blank_elem(self, a, x, depth):
        if a is None or "O" not in x:
            return x
        if a["kind"] == "object":
            q = a.get("inline") if (a["iner"] and a.get("inline")) else self.top.get(a.get("ref"))
            return self.blank(q, x, depth + 1) if q is not None else x
        if a["kind"] == "match":
            for pr in a["pairs"]:
                q = self.top.get(pr["value"])
                if q is not None and self.camel(q["name"]) == x.get("cls"):
                    return self.blank(q, x, depth + 1)
        return x


def reach(model, names):
    """path -> set of packet paths its codec can call (object members, inline objects, match payloads), transitively"""
    top = {p["name"]: p for p in model["packets"]}
    direct = {}
    for path, p in codec.all_paths(model):
        s = set()
        for f in p["fields"]:
            a = f["attr"]
            if not a:
                continue
            if a["kind"] == "object":
                if a["iner"] and a.get("inline"):
                    s.add(path + "/" + f["name"])
                elif a.get("ref") in top:
                    s.add(a["ref"])
            if a["kind"] == "match":
                for pr in a["pairs"]:
                    if pr["value"] in top:
                        s.add(pr["value"])
        direct[path] = s
    out = {}
    for path in direct:
        seen, todo = set(), [path]
        while todo:
            x = todo.pop()
            if x in seen:
                continue
            seen.add(x)
            todo += list(direct.get(x, ()))
        out[path] = seen
    return out


def drop_dead_registrations(text):
    """Python semantics of a re-bound factory name: 'x = X()' emitted a second time creates a NEW object, the
    registrations made through the earlier binding are lost when decode runs.  extract_py.py (by its documented
    convention) gives the name the union of all registrations; with --rebind-fix the dead 'x.register(...)' lines are
    removed from the text the extractor reads (the executed text is never changed)."""
    lines = text.split("\n")
    last = {}
    for i, l in enumerate(lines):
        m = re.fullmatch(r"(\w+) = (\w+)\(\)", l.strip())
        if m and not l.startswith(" "):
            last[m.group(1)] = i
    out = []
    for i, l in enumerate(lines):
        m = re.fullmatch(r"(\w+)\.register\(.*\)", l.strip())
        if m and not l.startswith(" ") and m.group(1) in last and i < last[m.group(1)]:
            continue
        out.append(l)
    return "\n".join(out)


REBIND_FIX = False


# ----------------------------------------------------------------------------------------
# phase 1: the real generator
# ----------------------------------------------------------------------------------------
def compile_all(progs):
    hook = core.Hook()
    out = collections.OrderedDict()
    for pid, text, kw in progs:
        req = {"op": "gen", "text": text, "langs": ["python"]}
        if kw.get("allow_cyclic"):
            req["allow_cyclic"] = True
        resp = hook.ask(req)
        e = {"id": pid, "text": text}
        out[pid] = e
        if resp.get("fatal"):
            e["status"] = "GeneratorDies"
            continue
        if resp.get("syntax_error") or resp.get("rejected") or resp.get("cyclic") or "steps" not in resp:
            e["status"] = "NotAccepted"
            e["why"] = json.dumps({k: v for k, v in resp.items() if k != "model"})[:300]
            continue
        step = resp["steps"][0]
        if "error" in step:
            e["status"] = "GeneratorRefuses"
            e["why"] = step["error"]
            continue
        if "panic" in step:
            e["status"] = "GeneratorPanic"
            e["why"] = step["panic"]
            continue
        e["status"] = "Generated"
        e["files"] = step["files"]
        e["model"] = resp["model"]
        e["names"] = hook.ask({"op": "names", "idents": core.model_identifiers(resp["model"])})["names"]
        ok, why = codec.modelled(resp["model"])
        e["modelled"] = ok
        e["why_not_modelled"] = sorted(set(why))
        root = resp["model"].get("root")
        e["module"] = e["names"][root][2] if root in e["names"] else None
        if ok:
            try:
                fx = {k: drop_dead_registrations(v) for k, v in step["files"].items()} if REBIND_FIX else step["files"]
                e["prog"], e["notes"] = codec.extractor("py")(fx, resp["model"], e["names"])
            except Exception as ex:
                e["prog"], e["notes"] = None, ["extract_py raised %r" % ex]
            smp = samples.Sampler(resp["model"], 0)
            e["messages"] = [(path, label, v) for path, p in codec.all_paths(resp["model"]) for label, v in smp.messages(p)]
    hook.close()
    return out


# ----------------------------------------------------------------------------------------
# phase 2: Coq - specification bytes, the model's behaviour, the validator's verdict
# ----------------------------------------------------------------------------------------
CHUNK = 10      # messages per group: a big program is spread over several coqc runs (the definitions are repeated)


def coq_groups(e):
    """[(group id, lines)]; every group starts with its own 'Definition M_...' (engine.shard_body splits there)"""
    out = []
    msgs = list(enumerate(e["messages"]))
    chunks = [msgs[i:i + CHUNK] for i in range(0, len(msgs), CHUNK)] or [[]]
    for j, ch in enumerate(chunks):
        m = "M_%s_c%d" % (safe(e["id"]), j)
        o = "O_%s_c%d" % (safe(e["id"]), j)
        lines = ["Definition %s : bmodel := %s." % (m, g_model(e["model"], e["names"])),
                 "Definition %s : prog := %s." % (o, IR.g_prog(e["prog"] or []))]
        if j == 0:
            lines.append('Eval vm_compute in ("<<<%s|rep>>>" ++ show_bool (lenw_ok %s) ++ "@@" ++ report %s %s).' % (e["id"], m, m, o))
        for k, (path, label, v) in ch:
            lines.append("Definition %s_v%d : value := %s." % (m, k, samples.g_value(v)))
            lines.append('Eval vm_compute in ("<<<%s|%d>>>" ++ pyx_both %s %s %s %s_v%d).' % (e["id"], k, m, o, core.g_str(path), m, k))
        out.append(("%s#%d" % (e["id"], j), lines))
    return out


def coq_phase(entries, jobs):
    groups = [g for e in entries for g in coq_groups(e)]
    if not groups:
        return {}, []
    body = [l for _, g in groups for l in g]
    shards = engine.shard_body(body, max(1, (len(groups) + jobs - 1) // jobs))
    with ThreadPoolExecutor(max_workers=jobs) as ex:
        outs = list(ex.map(lambda kv: core.coq_eval("pyexec_%d" % kv[0], kv[1], prelude=PRELUDE, timeout=600), list(enumerate(shards))))
    got, errors, retry = {}, [], []
    for (rc, out, err), sh in zip(outs, shards):
        got.update(core.parse_results(out))
        if rc != 0:
            firsts = set(l for l in sh.split("\n") if l.startswith("Definition M_") and " : bmodel" in l)
            retry += [(gid, g) for gid, g in groups if g[0] in firsts]
    if retry:
        with ThreadPoolExecutor(max_workers=jobs) as ex:
            outs = list(ex.map(lambda kv: core.coq_eval("pyexec_r%d" % kv[0], "\n".join(kv[1][1]) + "\n", prelude=PRELUDE, timeout=300),
                               list(enumerate(retry))))
        for (rc, out, err), (pid, g) in zip(outs, retry):
            got.update(core.parse_results(out))
            if rc != 0:
                errors.append("%s: coqc exit %d: %s" % (pid, rc, err[-600:]))
    return got, errors


def parse_ob(t, ref=None):
    if t == "=":
        return ref
    return None if not t.startswith("S") else bytes.fromhex(t[1:])


def parse_row(t):
    """'spec/semenc/semdec' -> dict"""
    spec, senc, sdec = t.split("/", 2)
    d = {"spec": parse_ob(spec), "sem_dec": None}
    d["sem_enc"] = parse_ob(senc, d["spec"])
    if sdec.startswith("ok."):
        _, n, eq, ob = sdec.split(".", 3)
        d["sem_dec"] = {"ok": True, "consumed": int(n), "same": eq == "T", "reenc": parse_ob(ob, d["spec"])}
    elif sdec in ("err", "crash"):
        d["sem_dec"] = {"ok": False, "how": sdec}
    return d


def split_rows(txt):
    """the text of one Eval -> [registered row, unregistered row] ('=': same as the registered one)"""
    a, b = txt.split("#")
    return [a, a if b == "=" else b]


# ----------------------------------------------------------------------------------------
# phase 3: execution
# ----------------------------------------------------------------------------------------
def run_driver(d, mode, planfile, limit):
    env = {"PATH": os.environ.get("PATH", "/usr/bin:/bin"), "PYTHONDONTWRITEBYTECODE": "1", "PYTHONHASHSEED": "0"}
    try:
        r = subprocess.run([sys.executable, "pyexec_driver.py", mode, planfile], cwd=d, env=env, stdout=subprocess.PIPE,
                           stderr=subprocess.PIPE, timeout=limit)
        out, err, rc = r.stdout.decode("utf-8", "replace"), r.stderr.decode("utf-8", "replace"), r.returncode
    except subprocess.TimeoutExpired as ex:
        out = (ex.stdout or b"").decode("utf-8", "replace")
        err, rc = "time limit of %d s exceeded" % limit, 124
    rows = [json.loads(l[len(MARK):]) for l in out.split("\n") if l.startswith(MARK)]
    return rows, rc, err[-600:]


def execute(e, rows_by_k, limit=120):
    """write the scratch directory, run the messages and the self-tests"""
    d = os.path.join(SCRATCH, safe(e["id"]))
    shutil.rmtree(d, ignore_errors=True)
    os.makedirs(d)
    shadow = [f for f in e["files"] if f in RT_FILES]
    for f in RT_FILES:
        shutil.copy(os.path.join(RT_DIR, f), os.path.join(d, f))
    for name, text in e["files"].items():
        with open(os.path.join(d, os.path.basename(name)), "w", encoding="utf-8", errors="surrogateescape") as fh:
            fh.write(text)
    res = {"dir": d, "shadowed_runtime_modules": shadow}
    if e.get("messages") is not None and e["module"]:
        tr = Trees(e["model"], e["names"])
        top_of = dict(codec.all_paths(e["model"]))
        msgs = []
        for k, (path, label, v) in enumerate(e["messages"]):
            tree = tr.packet(top_of[path], path, v)
            spec = {}
            for reg in (True, False):
                row = rows_by_k.get((k, reg))
                spec["true" if reg else "false"] = row["spec"].hex() if row and row["spec"] is not None else None
            msgs.append({"id": str(k), "cls": tr.camel(top_of[path]["name"]), "value": tree, "spec": spec})
        json.dump({"module": e["module"], "junk": bytes(JUNK).hex(), "messages": msgs, "step_limit": 10}, open(os.path.join(d, "plan.json"), "w"))
        res["trees"] = {m["id"]: m["value"] for m in msgs}
        res["rows"], res["rc"], res["stderr"] = run_driver(d, "messages", "plan.json", limit)
    if e["module"]:
        res["selftest"] = {}
        for reg in ("registered", "unregistered"):
            pf = "selftest_%s.json" % reg
            json.dump({"module": e["module"], "checksum": reg, "step_limit": 10}, open(os.path.join(d, pf), "w"))
            rows, rc, err = run_driver(d, "selftest", pf, limit)
            res["selftest"][reg] = {"rows": rows, "rc": rc, "stderr": err}
    return res


def blame_import(e, imp):
    """packet paths whose emitted class (or factory lines) hold the line the import fails at"""
    if not imp or imp.get("file") != (e["module"] or "") + ".py" or not imp.get("line"):
        return []
    lines = e["files"].get(imp["file"], "").split("\n")
    ln = imp["line"] - 1
    cls = None
    k = min(ln, len(lines) - 1)
    while k >= 0:                       # inside a class body: the nearest class header above an indented line
        m = re.match(r"class (\w+)\(BinaryCodec\):", lines[k])
        if m:
            cls = m.group(1)
            break
        if lines[k].strip() and not lines[k].startswith((" ", "#")) and k != ln:
            break                        # a module-level statement in between: the line is not in that class
        k -= 1
    if cls is None:                      # module-level lines (factory registrations) precede their class
        for k in range(ln, len(lines)):
            m = re.match(r"class (\w+)\(BinaryCodec\):", lines[k])
            if m:
                cls = m.group(1)
                break
    return [path for path, q in codec.all_paths(e["model"]) if e["names"][q["name"]][0] == cls]


# ----------------------------------------------------------------------------------------
# phase 4: judgement
# ----------------------------------------------------------------------------------------
def short(b, n=48):
    h = b.hex() if isinstance(b, (bytes, bytearray)) else str(b)
    return h if len(h) <= 2 * n else h[:2 * n] + "...(%d bytes)" % (len(h) // 2)


def diff_text(got, want):
    k = first_diff(got, want)
    lo = max(0, k - 4)
    return "first difference at byte %d (got %d bytes, want %d): got ..%s.. want ..%s.." % (k, len(got), len(want), got[lo:k + 8].hex(), want[lo:k + 8].hex()) \
        if max(len(got), len(want)) > 40 else "got %s want %s (first difference at byte %d)" % (got.hex(), want.hex(), k)


def has_junk(step):
    if not isinstance(step, (tuple, list)):
        return False
    if step and step[0] in ("EJunk", "DJunk"):
        return True
    return any(has_junk(x) for x in step[1:] if isinstance(x, (tuple, list)))


def first_diff(a, b):
    k = 0
    while k < min(len(a), len(b)) and a[k] == b[k]:
        k += 1
    return k


def judge(e, got, ex):
    """-> (per-message verdict rows, model disagreements)"""
    tr = Trees(e["model"], e["names"])
    top_of = dict(codec.all_paths(e["model"]))
    imp = next((r for r in ex.get("rows", []) if "import_error" in r), None)
    by = {(r["id"], r["reg"]): r for r in ex.get("rows", []) if "id" in r}
    blamed = blame_import(e, imp)
    junk_paths = set(path for path, pir in (e["prog"] or []) if any(has_junk(st) for _, st in pir["enc"] + pir["dec"]))
    rc = reach(e["model"], e["names"])
    out, dis = [], []
    for k, (path, label, v) in enumerate(e["messages"]):
        txt = got.get("%s|%d" % (e["id"], k))
        for reg, part in zip((True, False), (split_rows(txt) if txt else [None, None])):
            rec = {"packet": path, "label": label, "registered": reg}
            out.append(rec)
            if part is None:
                rec["verdict"] = "NoCoqResult"
                continue
            c = parse_row(part)
            spec = c["spec"]
            r = by.get((str(k), reg))
            if spec is not None:
                rec["spec_len"] = len(spec)
            # ---- against the specification
            if spec is None:
                rec["verdict"] = "NotAMessage"
            elif imp is not None:
                rec["verdict"] = "ImportFails"
                rec["detail"] = imp["import_error"]
                rec["blamed"] = blamed
            elif r is None:
                rec["verdict"] = "NoExecutionResult"
                rec["detail"] = "driver exit %s: %s" % (ex.get("rc"), ex.get("stderr", "")[-200:])
            elif "enc_err" in r:
                rec["verdict"] = "EncFails"
                rec["detail"] = r["enc_err"]
            elif bytes.fromhex(r["enc"]) != spec:
                g = bytes.fromhex(r["enc"])
                rec["verdict"] = "EncDiffers"
                rec["detail"] = diff_text(g, spec)
                rec["got"], rec["want"] = g.hex(), spec.hex()
            elif "dec_err" in r:
                rec["verdict"] = "DecFails"
                rec["detail"] = r["dec_err"]
            elif r.get("consumed") != len(spec):
                rec["verdict"] = "DecConsumes"
                rec["detail"] = "consumed %s of %d message bytes" % (r.get("consumed"), len(spec))
            elif tr.blank(top_of[path], r["decoded"]) != tr.blank(top_of[path], ex["trees"][str(k)]):
                rec["verdict"] = "DecDiffers"
            elif "reenc_err" in r or bytes.fromhex(r["reenc"]) != spec:
                rec["verdict"] = "ReencDiffers"
                rec["detail"] = r.get("reenc_err") or diff_text(bytes.fromhex(r["reenc"]), spec)
            else:
                rec["verdict"] = "Agree"
            # ---- against the harness's model of the emitted code (Sem.v on the extracted IR)
            if r is None and imp is None:
                continue
            where = {"program": e["id"], "packet": path, "label": label, "registered": reg}
            if rc.get(path, {path}) & junk_paths:
                # extract_py.py claims no meaning for some line of this codec (EJunk/DJunk): the model abstains
                where["ir_has_unclaimed_lines"] = True
            if imp is not None:
                # the model is per packet, Python per module: an import failure is a disagreement only if the
                # model lets this packet work
                if c["sem_enc"] is not None:
                    dis.append(dict(where, stage="import" if (path in blamed or not blamed) else "import(line of another packet)",
                                    model="sem_enc = %s" % short(c["sem_enc"]), executed="import fails: " + imp["import_error"][:200]))
                continue
            if c["sem_enc"] is None and "enc" in r:
                dis.append(dict(where, stage="enc", model="sem_enc = None", executed=short(bytes.fromhex(r["enc"]))))
            elif c["sem_enc"] is not None and "enc_err" in r:
                dis.append(dict(where, stage="enc", model=short(c["sem_enc"]), executed="raises " + r["enc_err"]))
            elif c["sem_enc"] is not None and bytes.fromhex(r["enc"]) != c["sem_enc"]:
                dis.append(dict(where, stage="enc", model=short(c["sem_enc"]), executed=short(bytes.fromhex(r["enc"]))))
            sd = c["sem_dec"]
            if sd is not None and r.get("dec_in") == "spec":
                if not sd["ok"] and "dec_err" not in r:
                    dis.append(dict(where, stage="dec", model="sem_dec = " + sd["how"], executed="returns, consumed %s" % r.get("consumed")))
                elif sd["ok"] and "dec_err" in r:
                    dis.append(dict(where, stage="dec", model="sem_dec = DOk, consumed %d" % sd["consumed"], executed="raises " + r["dec_err"]))
                elif sd["ok"]:
                    if sd["consumed"] != r.get("consumed"):
                        dis.append(dict(where, stage="dec-consumed", model=sd["consumed"], executed=r.get("consumed")))
                    same = tr.blank(top_of[path], r["decoded"]) == tr.blank(top_of[path], ex["trees"][str(k)])
                    if same != sd["same"]:
                        dis.append(dict(where, stage="dec-value", model="decoded = original: %s" % sd["same"], executed="decoded = original: %s" % same))
                    mre = sd["reenc"]
                    xre = bytes.fromhex(r["reenc"]) if "reenc" in r else None
                    if mre != xre:
                        dis.append(dict(where, stage="reenc", model="None" if mre is None else short(mre),
                                        executed=r.get("reenc_err", "") if xre is None else short(xre)))
    return out, dis


def selftest_outcomes(ex):
    """test id -> (status, text) combined over the two registries (pass iff both pass)"""
    st = ex.get("selftest")
    if not st:
        return None
    out = {}
    module_error = None
    for reg in ("registered", "unregistered"):
        rows = st[reg]["rows"]
        ie = next((r for r in rows if "test_import_error" in r), None)
        if ie:
            module_error = "error(import of the test module: %s)" % ie["test_import_error"]
            continue
        if not any("tests_run" in r for r in rows):
            module_error = "error(driver: exit %s %s)" % (st[reg]["rc"], st[reg]["stderr"][-200:])
            continue
        for r in rows:
            if "test" not in r:
                continue
            cur = "pass" if r["status"] == "pass" else "%s(%s; checksum %s)" % (r["status"], r["text"], reg)
            old = out.get(r["test"])
            if old is None or (old == "pass" and cur != "pass"):
                out[r["test"]] = cur
    if module_error:
        return {"*": module_error}
    return out


# ----------------------------------------------------------------------------------------
def main():
    ap = argparse.ArgumentParser()
    ap.add_argument("--programs", default="all", choices=["cells", "findings", "all"])
    ap.add_argument("--only", default=None)
    ap.add_argument("--dsl-file", default=None)
    ap.add_argument("--no-engine", action="store_true", help="do not consult engine.run_engine / tests_report.json (mutated repositories)")
    ap.add_argument("--jobs", type=int, default=16)
    ap.add_argument("--rebind-fix", action="store_true", help="experiment: let the extractor see Python's semantics of a re-bound factory name")
    ap.add_argument("--show", type=int, default=12)
    ap.add_argument("--out", default=os.path.join(core.BUILD, "pyexec_report.json"))
    ap.add_argument("--baseline", default=None, help="an earlier report: list the executions and self-tests whose verdict changed")
    args = ap.parse_args()
    t = core.Timer()
    global REBIND_FIX
    REBIND_FIX = args.rebind_fix
    core.build_binaries()
    ok, out = core.coq_make()
    if not ok:
        print("Coq development does not build:\n" + out[-3000:])
        return 2
    if args.dsl_file:
        progs = [(os.path.splitext(os.path.basename(args.dsl_file))[0], open(args.dsl_file).read(), {})]
    else:
        progs = program_sets(args.programs)
    if args.only:
        progs = [p for p in progs if p[0] in args.only.split(",")]
    eng = None
    if not args.no_engine and not args.dsl_file:
        eng = engine.run_engine("quick", 0)
        if "coq_build_failed" in eng:
            eng = None
    P = compile_all(progs)
    t_gen = t.s()
    runnable = [e for e in P.values() if e["status"] == "Generated"]
    with_spec = [e for e in runnable if e["modelled"] and e["prog"] is not None]
    got, coq_errors = coq_phase(with_spec, args.jobs)
    t_coq = t.s()

    def rows_of(e):
        d = {}
        for k in range(len(e.get("messages") or [])):
            txt = got.get("%s|%d" % (e["id"], k))
            if txt:
                for reg, part in zip((True, False), split_rows(txt)):
                    d[(k, reg)] = parse_row(part)
        return d
    for e in runnable:
        if e not in with_spec:
            e["messages"] = None
    with ThreadPoolExecutor(max_workers=args.jobs) as ex:
        execs = list(ex.map(lambda e: execute(e, rows_of(e)), runnable))
    t_exec = t.s()

    # ------------------------------------------------------------------ judgement
    import tests as T
    report = {"programs": {}, "model_disagreements": [], "coq_errors": coq_errors}
    verdict_counts = collections.Counter()
    acc = {c: collections.Counter() for c in ("whole", "closure", "self", "ambiguous", "invalid")}
    self_only = collections.Counter()
    acc_fail = []
    acc_blocked = collections.Counter()      # (program, blamed packets, error) -> executions of validated packets it blocks
    engine_mismatch = []
    for e in P.values():
        pr = {"status": e["status"], "why": e.get("why")}
        report["programs"][e["id"]] = pr
    for e, ex in zip(runnable, execs):
        pr = report["programs"][e["id"]]
        pr["scratch"] = ex["dir"]
        if ex["shadowed_runtime_modules"]:
            pr["shadowed_runtime_modules"] = ex["shadowed_runtime_modules"]
        imp = next((r for r in ex.get("rows", []) if "import_error" in r), None)
        if imp:
            pr["import_error"] = imp["import_error"]
        pr["selftests"] = selftest_outcomes(ex)
        if e not in with_spec:
            pr["no_spec"] = "outside the modelled input space: " + "; ".join(e["why_not_modelled"]) if not e["modelled"] else "; ".join(e.get("notes") or [])
            continue
        rep = T.parse_rep(got.get("%s|rep" % e["id"], ""))
        ve, vd = rep["valid_enc"], rep["valid_dec"]
        ep = eng["programs"].get(e["id"]) if eng else None
        if ep and "langs" in ep and "valid_enc" in ep["langs"].get("py", {}):
            if ep["langs"]["py"]["valid_enc"] != ve or ep["langs"]["py"]["valid_dec"] != vd:
                engine_mismatch.append(e["id"])
            ve, vd = ep["langs"]["py"]["valid_enc"], ep["langs"]["py"]["valid_dec"]
            pr["validity_from"] = "engine.run_engine(quick, 0)"
        else:
            pr["validity_from"] = "Validate.report evaluated by pyexec"
        paths = [p for p, _ in codec.all_paths(e["model"])]
        valid = {p: ve.get(p) == "T" and vd.get(p) == "T" for p in paths}
        base_ok = rep["paths_ok"] and rep["lenw_ok"]
        rc = reach(e["model"], e["names"])
        whole = base_ok and all(valid.values()) and len(valid) > 0
        klass = {}
        cname = collections.Counter(e["names"][q["name"]][0] for _, q in codec.all_paths(e["model"]))
        shared = set(pth for pth, q in codec.all_paths(e["model"]) if cname[e["names"][q["name"]][0]] > 1)
        if shared:
            pr["shared_class_names"] = sorted(shared)
        for p in paths:
            if p in shared or (rc[p] & shared):
                # two packets are emitted as ONE Python class name (the later definition replaces the earlier):
                # a per-path verdict has no meaning (engine.programs_for leaves such programs out: finding file-name-collision)
                klass[p] = "ambiguous"
            elif whole:
                klass[p] = "whole"
            elif base_ok and all(valid.get(q, False) for q in rc[p]):
                klass[p] = "closure"
            elif valid[p]:
                klass[p] = "self"
            else:
                klass[p] = "invalid"
        rows, dis = judge(e, got, ex)
        report["model_disagreements"] += dis
        pk = collections.OrderedDict()
        for p in paths:
            pk[p] = {"valid_enc": ve.get(p), "valid_dec": vd.get(p), "class": klass[p], "messages": []}
        for r in rows:
            pk[r["packet"]]["messages"].append({k: v for k, v in r.items() if k != "packet"})
            verdict_counts[r["verdict"]] += 1
            c = klass[r["packet"]]
            acc[c][r["verdict"]] += 1
            if c == "self" and r["verdict"] not in ("Agree", "NotAMessage"):
                bad = sorted(q for q in rc[r["packet"]] if not valid.get(q, False))
                self_only[(e["id"], r["packet"], r["verdict"], ",".join(bad))] += 1
            elif c in ("whole", "closure") and r["verdict"] not in ("Agree", "NotAMessage"):
                if r["verdict"] == "ImportFails" and r.get("blamed") and all(klass.get(b) == "invalid" for b in r["blamed"]):
                    acc_blocked[(e["id"], ",".join(r["blamed"]), r["detail"])] += 1
                else:
                    acc_fail.append(dict(r, program=e["id"], klass=c))
        pr["packets"] = pk
        pr["lenw_ok"], pr["paths_ok"] = rep["lenw_ok"], rep["paths_ok"]

    # ------------------------------------------------------------------ self-tests vs harness/tests.py
    st_rows = []
    tests_rep = None
    tp = os.path.join(core.BUILD, "tests_report.json")
    if not args.no_engine and not args.dsl_file and os.path.exists(tp):
        tests_rep = json.load(open(tp))["verdicts"]
    for e in P.values():
        pr = report["programs"][e["id"]]
        sts = pr.get("selftests")
        if e["status"] != "Generated":
            continue
        for p in e["model"]["packets"]:
            tname = "Test%s.test_encode_decode" % e["names"][p["name"]][0]
            got_st = None
            if sts is not None:
                got_st = sts.get("*") or sts.get(tname) or "missing(no such test function)"
            tv = tests_rep.get("%s|py|%s" % (e["id"], p["name"])) if tests_rep else None
            hv = (tv.get("if_built") or tv["verdict"]) if tv else None
            if hv is None:
                agree = None
            elif hv in ("Pass", "MemberNotExercised"):
                agree = got_st == "pass"
            elif hv.startswith(("TestDoesNotBuild", "RoundTripFails", "EqualityFails")):
                agree = got_st != "pass"
            else:
                agree = None
            st_rows.append({"program": e["id"], "packet": p["name"], "test": tname, "executed": got_st, "tests_py": hv, "agree": agree})
    report["selftests"] = st_rows

    # ------------------------------------------------------------------ summary
    wall = t.s()
    st_cnt = collections.Counter(re.sub(r"\(.*", "", r["executed"] or "none", flags=re.S) for r in st_rows)
    n_msgs = sum(verdict_counts.values())
    print("pyexec: %d programs (%s), %d executed, %d with a specification, %d (packet, message, registry) executions, %.1fs (generate %.1f, coq %.1f, execute %.1f)"
          % (len(P), " ".join("%s=%d" % kv for kv in sorted(collections.Counter(e["status"] for e in P.values()).items())),
             len(runnable), len(with_spec), n_msgs, wall, t_gen, t_coq - t_gen, t_exec - t_coq))
    print("  verdicts against the specification: " + "  ".join("%s=%d" % kv for kv in sorted(verdict_counts.items())))
    for c in ("whole", "closure", "self", "ambiguous", "invalid"):
        print("  validity class %-8s %s" % (c, "  ".join("%s=%d" % kv for kv in sorted(acc[c].items())) or "-"))
    n_acc = sum(sum(acc[c].values()) for c in ("whole", "closure"))
    n_blocked = sum(acc_blocked.values())
    n_agree = sum(acc[c]["Agree"] + acc[c]["NotAMessage"] for c in ("whole", "closure"))
    print("ACCEPTANCE (a): %d executions of validated packets: %d agree (%d of them NotAMessage), %d cannot run because the MODULE does not import "
          "(the failing line belongs to a packet the validator rejects), %d FAIL"
          % (n_acc, n_agree, sum(acc[c]["NotAMessage"] for c in ("whole", "closure")), n_blocked, len(acc_fail)))
    print("  packets valid by themselves that call a packet the validator rejects (class self): %d executions agree, %d do not:"
          % (acc["self"]["Agree"] + acc["self"]["NotAMessage"], sum(self_only.values())))
    for (pid, pth, vd, bad), n in sorted(self_only.items())[:args.show]:
        print("   self-only x%-3d %s %s: %s  (calls rejected packet %s)" % (n, pid, pth, vd, bad))
    for (pid, bl, det), n in sorted(acc_blocked.items())[:args.show]:
        print("   blocked x%-4d %s: %s  (packet %s)" % (n, pid, det[:150], bl))
    for r in acc_fail[:args.show]:
        print("   FAIL %s %s %s reg=%s [%s]: %s %s" % (r["program"], r["packet"], r["label"], r["registered"], r["klass"], r["verdict"], r.get("detail", "")[:200]))
    if engine_mismatch:
        print("  NOTE validity evaluated here differs from engine.run_engine for: " + ", ".join(engine_mismatch[:8]))
    alld = report["model_disagreements"]
    dis = [d for d in alld if not d.get("ir_has_unclaimed_lines")]
    print("MODEL vs EXECUTION: %d disagreements between Sem.v on the extracted IR and the executed code (+ %d in codecs with lines extract_py.py does not claim: EJunk/DJunk, the model abstains)"
          % (len(dis), len(alld) - len(dis)))
    groups = collections.OrderedDict()
    norm = lambda x: re.sub(r"\d+", "N", re.sub(r"[0-9a-f]{4,}[^ ]*", "<hex>", str(x)))
    for d in dis:
        groups.setdefault((d["stage"], norm(d["model"])[:60], norm(d["executed"])[:100]), []).append(d)
    for key, ds in sorted(groups.items(), key=lambda kv: -len(kv[1]))[:args.show]:
        d = ds[0]
        print("   x%-4d stage=%s  model: %s | executed: %s" % (len(ds), d["stage"], str(d["model"])[:80], str(d["executed"])[:170]))
        print("         e.g. %s packet %s message %s registered=%s; programs: %s" % (d["program"], d["packet"], d["label"], d["registered"],
                                                                                 " ".join(sorted(set(x["program"] for x in ds))[:10])))
    if len(groups) > args.show:
        print("   (%d more shapes in the report)" % (len(groups) - args.show))
    print("SELF-TESTS (C17): %d test functions: %s" % (len(st_rows), "  ".join("%s=%d" % kv for kv in sorted(st_cnt.items()))))
    if tests_rep is not None:
        ag = collections.Counter(r["agree"] for r in st_rows)
        print("  against harness/tests.py: agree=%d disagree=%d not comparable=%d" % (ag[True], ag[False], ag[None]))
        n = 0
        for r in st_rows:
            if r["agree"] is False and n < args.show:
                n += 1
                print("   DISAGREE %s %s: executed %s ; tests.py %s" % (r["program"], r["packet"], (r["executed"] or "")[:160], r["tests_py"]))
    for err in coq_errors[:3]:
        print("COQ ERROR " + err[:600])
    report["summary"] = {"programs": len(P), "executed": len(runnable), "with_specification": len(with_spec), "executions": n_msgs,
                         "verdicts": dict(verdict_counts), "by_validity_class": {c: dict(v) for c, v in acc.items()},
                         "acceptance_a": {"executions": n_acc, "agree": n_agree, "blocked_by_import_failure_of_an_invalid_packet":
                                          [{"program": k[0], "blamed": k[1], "error": k[2], "executions": n} for k, n in sorted(acc_blocked.items())],
                                          "failures": acc_fail,
                                          "valid_alone_but_calls_a_rejected_packet": [{"program": k[0], "packet": k[1], "verdict": k[2], "rejected": k[3], "executions": n}
                                                                                      for k, n in sorted(self_only.items())]},
                         "engine_validity_mismatch": engine_mismatch,
                         "model_disagreements": len(dis), "model_abstains": len(alld) - len(dis), "selftest_counts": dict(st_cnt), "wall_s": wall,
                         "repo": core.REPO}
    if args.baseline:
        base = json.load(open(args.baseline))
        changed = []
        for pid, pr in report["programs"].items():
            bp = base["programs"].get(pid, {})
            for path, pk in (pr.get("packets") or {}).items():
                bm = {(m["label"], m["registered"]): m for m in ((bp.get("packets") or {}).get(path, {}).get("messages") or [])}
                for m in pk["messages"]:
                    b = bm.get((m["label"], m["registered"]))
                    if b is None or b["verdict"] != m["verdict"]:
                        changed.append((pid, path, m, b))
        print("AGAINST THE BASELINE %s: %d executions changed their verdict (%d programs)" % (args.baseline, len(changed), len(set(c[0] for c in changed))))
        seen = set()
        changed.sort(key=lambda c: (c[2].get("spec_len", 0), c[0]))
        for pid, path, m, b in changed:
            key = (path, m["verdict"], (m.get("detail") or "")[:40])
            if key in seen or len(seen) >= args.show:
                continue
            seen.add(key)
            tree = None
            e = P[pid]
            for k, (pth, label, v) in enumerate(e.get("messages") or []):
                if pth == path and label == m["label"]:
                    tree = samples.j_value(v)
            print("   CHANGED %s packet %s message %s registered=%s: %s -> %s %s" % (pid, path, m["label"], m["registered"], b["verdict"] if b else "-",
                                                                                 m["verdict"], m.get("detail", "")))
            print("           message: %s" % json.dumps(tree)[:300])
            print("           dsl: %s" % e["text"].replace("\n", " ")[:400])
        bs = {(r["program"], r["packet"]): r["executed"] for r in base.get("selftests", [])}
        sc = [(r, bs.get((r["program"], r["packet"]))) for r in st_rows
              if re.sub(r"\(.*", "", bs.get((r["program"], r["packet"])) or "", flags=re.S) != re.sub(r"\(.*", "", r["executed"] or "", flags=re.S)]
        print("   self-tests whose outcome changed: %d" % len(sc))
        for r, b in sc[:4]:
            print("   CHANGED self-test %s %s: %s -> %s" % (r["program"], r["test"], b, r["executed"]))
        report["summary"]["changed_against_baseline"] = [{"program": c[0], "packet": c[1], "now": c[2], "before": c[3]} for c in changed]
    json.dump(report, open(args.out, "w"), indent=1)
    return 0


if __name__ == "__main__":
    sys.exit(main())
