"""Language fragments (coq/Gen/Frag.v) against the validator on the engine corpus.

For every corpus program and language the Coq side evaluates
    L_frag_enc M, L_frag_dec M                      the structural fragment predicates
    validate_enc M (gen_L M), validate_dec ...       the validator on the generator MODEL's output
    lenw_ok M                                        (validate_dec_full = validate_dec && lenw_ok)
    L_frag_why M                                     names of the violated conditions
Proofs/Frag<L>.v prove  L_frag_enc M = true -> validate_enc M (gen_L M) = true  (and the decoder
analogue, with lenw_ok) for ALL models; "frag true but not validated" on any program would
contradict the theorem (or mean the theorem is not proved for that language) and makes this
script fail.  The report lists how many corpus programs are inside each fragment and the
validating programs a fragment excludes, with the violated conditions.

Programs outside the generator models' input space (codec.modelled) are evaluated too (the
theorems hold for all models), but reported separately.

usage: python3 harness/frag.py [--json out.json] [--langs go,py,...] [--tier quick] [--seed 0]
Exit status 0 iff no "frag true but not validated"."""
import json
import os
import sys
import collections

sys.path.insert(0, os.path.dirname(os.path.abspath(__file__)))
import core
import codec
import engine
from core import g_model

LANGS = ["go", "py", "cpp", "rust", "java"]
GEN = codec.COQ_GEN
PRELUDE = core.COQ_PRELUDE + "From FP Require Import Validate RefDec Frag.\nOpen Scope string_scope.\n"


def corpus_models(tier, seed):
    hook = core.Hook()
    out = []
    try:
        for pid, text in engine.programs_for(tier, seed):
            resp, names = codec.compile_program(hook, text, ["go"])
            if names is None:
                out.append({"id": pid, "text": text, "model": None, "status": "rejected"})
                continue
            ok, why = codec.modelled(resp["model"])
            out.append({"id": pid, "text": text, "model": g_model(resp["model"], names),
                        "status": "modelled" if ok else "outside: " + "; ".join(sorted(set(why)))})
    finally:
        hook.close()
    return out


def evaluate(models, langs):
    body = []
    for m in models:
        if m["model"] is None:
            continue
        mname = "M_" + "".join(c if c.isalnum() else "_" for c in m["id"])
        body.append("Definition %s : bmodel := %s." % (mname, m["model"]))
        for l in langs:
            g = GEN[l]
            body.append('Eval vm_compute in ("<<<%s|%s>>>" ++ show_bool (%s_frag_enc %s) ++ show_bool (%s_frag_dec %s)'
                        ' ++ show_bool (validate_enc %s (%s %s)) ++ show_bool (validate_dec %s (%s %s))'
                        ' ++ show_bool (lenw_ok %s) ++ "@" ++ join "," (%s_frag_why %s)).'
                        % (m["id"], l, l, mname, l, mname, mname, g, mname, mname, g, mname, mname, l, mname))
    shards = engine.shard_body(body, 8)
    outs = run_shards(shards)
    got = {}
    errors = []
    for rc, out, err in outs:
        if rc != 0:
            errors.append(err[-3000:])
        got.update(core.parse_results(out))
    return got, errors


def run_shards(shards):
    from concurrent.futures import ThreadPoolExecutor
    with ThreadPoolExecutor(max_workers=16) as ex:
        return list(ex.map(lambda kv: core.coq_eval("cases_frag_%d" % kv[0], kv[1], prelude=PRELUDE),
                           list(enumerate(shards))))


def main(argv):
    tier, seed, langs, jout = "quick", 0, LANGS, None
    i = 0
    while i < len(argv):
        if argv[i] == "--tier":
            tier = argv[i + 1]; i += 2
        elif argv[i] == "--seed":
            seed = int(argv[i + 1]); i += 2
        elif argv[i] == "--langs":
            langs = argv[i + 1].split(","); i += 2
        elif argv[i] == "--json":
            jout = argv[i + 1]; i += 2
        else:
            print(__doc__); return 2
    ok, out = core.coq_make()
    if not ok:
        print("coq build failed:\n" + out[-3000:])
        return 2
    models = corpus_models(tier, seed)
    got, errors = evaluate(models, langs)
    for e in errors:
        print("COQ ERROR:", e)
    bad = []
    report = {"langs": {}, "programs": len(models), "rejected": sum(1 for m in models if m["model"] is None),
              "outside_model_space": sum(1 for m in models if m["status"].startswith("outside"))}
    for l in langs:
        r = {"enc": collections.Counter(), "dec": collections.Counter(), "excluded_enc": [], "excluded_dec": [],
             "why_enc": collections.Counter(), "why_dec": collections.Counter()}
        for m in models:
            if m["model"] is None:
                continue
            v = got.get("%s|%s" % (m["id"], l))
            if v is None:
                bad.append((m["id"], l, "no result from Coq"))
                continue
            flags, why = v.split("@", 1)
            fe, fd, ve, vd, lw = [c == "T" for c in flags]
            why = [w for w in why.split(",") if w]
            why_e = [w for w in why if not w.startswith("dec:")]
            why_d = [w[4:] for w in why if w.startswith("dec:")]
            vdf = vd and lw                                    # validate_dec_full
            for kind, fr, va, wh in (("enc", fe, ve, why_e), ("dec", fd, vdf, why_d)):
                r[kind]["inside" if fr else "outside", "validated" if va else "not validated"] += 1
                if fr and not va:
                    bad.append((m["id"], l, kind + ": inside the fragment but the model's output is NOT validated"))
                if fr and wh:
                    bad.append((m["id"], l, kind + ": inside the fragment but violated conditions are listed: " + ",".join(wh)))
                if not fr and not wh:
                    bad.append((m["id"], l, kind + ": outside the fragment but no violated condition is named"))
                if va and not fr:
                    r["excluded_" + kind].append((m["id"], wh))
                if not fr:
                    for w in wh:
                        r["why_" + kind][w] += 1
        report["langs"][l] = r
    n = sum(1 for m in models if m["model"] is not None)
    print("corpus: %d programs (%d rejected by the front end, %d outside the generator models' input space but evaluated)"
          % (len(models), report["rejected"], report["outside_model_space"]))
    for l in langs:
        r = report["langs"][l]
        for kind in ("enc", "dec"):
            c = r[kind]
            ins = c["inside", "validated"] + c["inside", "not validated"]
            val = c["inside", "validated"] + c["outside", "validated"]
            print("%-5s %s: inside fragment %3d / %d   validated %3d   inside&validated %3d   inside&NOT validated %d   validated but excluded %d"
                  % (l, kind, ins, n, val, c["inside", "validated"], c["inside", "not validated"], c["outside", "validated"]))
            ex = r["excluded_" + kind]
            if ex:
                by = collections.defaultdict(list)
                for pid, wh in ex:
                    by[",".join(wh)].append(pid)
                for wh, pids in sorted(by.items()):
                    print("        excluded although validated (%s): %s" % (wh, " ".join(pids)))
            print("        violated conditions over the corpus: " +
                  ", ".join("%s x%d" % kv for kv in sorted(r["why_" + kind].items())))
    for b in bad:
        print("FAIL", *b)
    if jout:
        def conv(o):
            if isinstance(o, collections.Counter):
                return {"%s/%s" % k if isinstance(k, tuple) else k: v for k, v in o.items()}
            return o
        json.dump({"programs": report["programs"], "rejected": report["rejected"],
                   "outside_model_space": report["outside_model_space"],
                   "langs": {l: {k: conv(v) for k, v in r.items()} for l, r in report["langs"].items()},
                   "failures": bad}, open(jout, "w"), indent=1)
    print("RESULT:", "ok" if not bad and not errors else "FAILED")
    return 0 if not bad and not errors else 1


if __name__ == "__main__":
    sys.exit(main(sys.argv[1:]))
