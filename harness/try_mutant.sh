#!/bin/sh
# usage: try_mutant.sh <patch.diff> <property id>...   applies the patch to /repo, runs the checks, reverts
P=$1; shift
cd /repo && git apply --check "$P" || { echo "PATCH DOES NOT APPLY"; exit 2; }
git -C /repo apply "$P"
for id in "$@"; do
  (cd /verif && timeout 1200 ./check $id --tier quick 2>&1 | grep -v "^KNOWN-FINDING" | tail -4)
done
git -C /repo checkout -- . 
git -C /repo status --short | head -3
