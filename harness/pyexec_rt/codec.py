"""STAND-IN for the runtime module `codec` (`from codec import *`) (harness/pyexec.py).

Strings are Python str; their wire form is their UTF-8 bytes (Layout.v `VStr`).  Bytes that are
not UTF-8 survive unchanged (errors='surrogateescape'), so str <-> bytes is a bijection as in Sem.v.

  function                                              Sem.v counterpart
  ----------------------------------------------------  ------------------------------------------------
  BinaryCodec                                           base class of every emitted type (encode/decode)
  write_fixed_string(buf, s, n, 'utf-8')                EFixed n None        : pad_of None = (32, right)
  write_fixed_string(buf, s, n, 'utf-8', pad, left)     EFixed n (Some(pad,left)) : pad must be ONE byte (lit_byte),
                                                        length s <= n else error ; buf ++ pad_to n c left s
  read_fixed_string(buf, n, 'utf-8'[, pad, left])       DFixed n pad         : take n ; trim_pad c left (on the pad side only)
  write_string(buf, s, 'uW') / write_string_le          EStr w le le         : enc_int w le (length s) ++ s   (unsigned prefix,
                                                        the w low bytes of the length: enc_int does not check the range)
  read_string(buf, 'uW') / read_string_le               DStr w le false      : dec_int w le ; take_n
  read_len(buf, 'uW') / read_len_le                     DList's prefix       : dec_int w le  (unsigned)
An unknown prefix type name is an error (extract_py.py: only names of the width table are claimed).
"""
from bytebuf import ByteBuf, WIDTHS, enc_int

__all__ = ["BinaryCodec", "write_fixed_string", "read_fixed_string", "write_string", "write_string_le",
           "read_string", "read_string_le", "read_len", "read_len_le"]


class BinaryCodec:
    def encode(self, buffer):
        raise NotImplementedError

    def decode(self, buffer):
        raise NotImplementedError


def _bytes_of(s):
    if not isinstance(s, str):
        raise TypeError("string expected, got %r" % (s,))
    return s.encode("utf-8", "surrogateescape")


def _str_of(b):
    return b.decode("utf-8", "surrogateescape")


def _pad_byte(pad):
    """Sem.v pad_of / lit_byte: the pad argument denotes exactly one byte"""
    b = _bytes_of(pad)
    if len(b) != 1:
        raise ValueError("pad character must be one byte, got %r" % (pad,))
    return b


def _width(t):
    if t not in WIDTHS:
        raise ValueError("unknown length prefix type %r" % (t,))
    return WIDTHS[t]


def write_fixed_string(buffer, s, n, encoding, pad=" ", from_left=False):
    data = _bytes_of(s)
    c = _pad_byte(pad)
    if len(data) > n:
        raise ValueError("string of %d bytes does not fit char[%d]" % (len(data), n))
    fill = c * (n - len(data))
    buffer.write_bytes(fill + data if from_left else data + fill)           # Bytes.pad_to


def read_fixed_string(buffer, n, encoding, pad=" ", from_left=False):
    c = _pad_byte(pad)
    h = buffer.read_bytes(n)
    return _str_of(h.lstrip(c) if from_left else h.rstrip(c))               # Bytes.trim_pad


def _write_string(buffer, s, t, le):
    data = _bytes_of(s)
    buffer.write_bytes(enc_int(_width(t), le, len(data)) + data)


def _read_len(buffer, t, le):
    return int.from_bytes(buffer.read_bytes(_width(t)), "little" if le else "big")


def write_string(buffer, s, t):
    _write_string(buffer, s, t, False)


def write_string_le(buffer, s, t):
    _write_string(buffer, s, t, True)


def read_string(buffer, t):
    return _str_of(buffer.read_bytes(_read_len(buffer, t, False)))


def read_string_le(buffer, t):
    return _str_of(buffer.read_bytes(_read_len(buffer, t, True)))


def read_len(buffer, t):
    return _read_len(buffer, t, False)


def read_len_le(buffer, t):
    return _read_len(buffer, t, True)
