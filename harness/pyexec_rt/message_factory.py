"""STAND-IN for the runtime module `message_factory` (harness/pyexec.py).

  class XFactory(MessageFactory[K, V]): ...   a table per factory OBJECT (Python semantics; extract_py.py keys
                                              the table by the variable NAME - the same thing unless a name is re-bound)
  f.register(key, cls)            one row of Sem.v DDispatch's table, in registration order
  f.create(key)                   table_lookup table first_wins:=false key : the LAST registration of an equal key
                                  wins (dict overwrite) ; equal = Python ==  (ints as integers, str as strings:
                                  key_matches) ; returns a fresh cls() ; unknown key = error (unk_err = true -> DErr)
"""
from typing import Generic, TypeVar

K = TypeVar("K")
V = TypeVar("V")


class UnknownMessageKey(Exception):
    pass


class MessageFactory(Generic[K, V]):
    def __init__(self):
        self._table = {}

    def register(self, key, cls):
        self._table[key] = cls

    def create(self, key):
        if key not in self._table:
            raise UnknownMessageKey("no message registered for key %r" % (key,))
        return self._table[key]()
