"""STAND-IN for the runtime module `bytebuf` the emitted Python imports (harness/pyexec.py).

It implements the runtime contract written down in coq/IR/Sem.v and nothing else.  Scalars are
carried as their UNSIGNED BIT PATTERNS (Wire/Layout.v `VInt`: floats are their IEEE bits, signed
types their two's complement pattern): write_i8(255) writes ff, read_i8 of ff returns 255.

  method                          Sem.v / Bytes.v counterpart
  ------------------------------  ------------------------------------------------------------
  ByteBuf()                       estate with st_buf = []  (sem_enc ... [])
  write_index (attribute read)    `length buf`  (EMarkZero records it; ESpan takes the difference)
  write_<t>(v)      t in u8..f64  EInt w false :  buf ++ enc_int w false v     (enc_be: the w low bytes)
  write_<t>_le(v)                 EInt w true  :  buf ++ enc_int w true v
  write_<t>[_le]_at(pos, v)       EPatch      :  patch_at buf pos (enc_int w le (v mod pow256 w))
  read_<t>() / read_<t>_le()      DInt w le   :  dec_int w le rd ; too few bytes = DCrash (exception)
  read_bytes(n)                   `take n rd` ; too few bytes = DCrash (exception)
  read_index                      number of bytes consumed (observed by the driver only)

There is no `write_()` / `read_()` (the zero PyType the generator emits for a type it has no table
entry for): calling it is an AttributeError, as with any runtime that honours the documented API.
"""

WIDTHS = {"i8": 1, "u8": 1, "i16": 2, "u16": 2, "i32": 4, "u32": 4, "f32": 4, "i64": 8, "u64": 8, "f64": 8}


class BufferUnderflow(Exception):
    pass


def enc_int(w, le, n):
    """Bytes.enc_int: the w low-order bytes of n (most significant first, reversed when le)"""
    if isinstance(n, bool) or not isinstance(n, int):
        raise TypeError("integer bit pattern expected, got %r" % (n,))
    n %= 256 ** w
    return n.to_bytes(w, "little" if le else "big")


class ByteBuf:
    def __init__(self, data=b""):
        self._buf = bytearray(data)
        self.read_index = 0

    @property
    def write_index(self):
        return len(self._buf)

    def to_bytes(self):
        return bytes(self._buf)

    def written(self):
        """the whole output so far (what a checksum algorithm sees: Sem.v ECheck `h buf`)"""
        return bytes(self._buf)

    def write_bytes(self, b):
        self._buf += b

    def read_bytes(self, n):
        if n < 0 or self.read_index + n > len(self._buf):
            raise BufferUnderflow("need %d bytes at %d, have %d" % (n, self.read_index, len(self._buf) - self.read_index))
        b = bytes(self._buf[self.read_index:self.read_index + n])
        self.read_index += n
        return b

    def _write_int(self, w, le, v):
        self._buf += enc_int(w, le, v)

    def _patch_int(self, w, le, pos, v):
        # Bytes.patch_at: firstn pos buf ++ new ++ skipn (pos + length new) buf  (= Python slice assignment)
        if isinstance(pos, bool) or not isinstance(pos, int) or pos < 0:
            raise TypeError("position expected, got %r" % (pos,))
        self._buf[pos:pos + w] = enc_int(w, le, v)

    def _read_int(self, w, le):
        return int.from_bytes(self.read_bytes(w), "little" if le else "big")


def _install():
    for t, w in WIDTHS.items():
        for suffix, le in (("", False), ("_le", True)):
            if le and w == 1:
                continue                 # the runtime table has no i8_le / u8_le (py_generator.go pyBasicTypeMap)
            name = t + suffix
            setattr(ByteBuf, "write_" + name, (lambda w, le: lambda self, v: self._write_int(w, le, v))(w, le))
            setattr(ByteBuf, "write_" + name + "_at", (lambda w, le: lambda self, pos, v: self._patch_int(w, le, pos, v))(w, le))
            setattr(ByteBuf, "read_" + name, (lambda w, le: lambda self: self._read_int(w, le))(w, le))


_install()
