"""Runs inside the scratch directory of one program (harness/pyexec.py): `python3 pyexec_driver.py messages|selftest`.

messages: reads plan.json = {"module", "junk" (hex), "messages": [{"id", "cls", "value", "spec": {"true": hex|null, "false": ..}}]}
  value trees: {"I": n} | {"S": hex of the UTF-8 bytes} | {"L": [tree]} | {"O": [tree per member], "cls": class name}
  For every message and checksum registry (registered / unregistered) it
    1. builds an object of the emitted class (member names = vars(cls()) in __init__ order, positional), encodes it;
    2. decodes (spec bytes if given, else its own bytes) + junk with a fresh object, notes the bytes consumed;
    3. dumps the decoded object and re-encodes it;
  and prints one line "@@PYEXEC <json>" per (message, registry); exceptions are caught per step.
selftest: loads <module>_test with unittest and prints one line per test function."""
import importlib
import json
import os
import signal
import sys
import traceback

MARK = "@@PYEXEC "


def emit(obj):
    sys.stdout.write(MARK + json.dumps(obj) + "\n")
    sys.stdout.flush()


def exc_text(e, limit=300):
    t = "%s: %s" % (type(e).__name__, e)
    return t[:limit]


def first_lines(e):
    """one line: kind, file:line of the emitted module, the offending source line, the message"""
    fn, ln, src = None, None, ""
    if isinstance(e, SyntaxError):
        fn, ln, src = e.filename, e.lineno, (e.text or "").strip()
    else:
        for fr in traceback.extract_tb(e.__traceback__):
            if not fr.filename.startswith("<") and "importlib" not in fr.filename:
                fn, ln, src = fr.filename, fr.lineno, (fr.line or "").strip()
    msg = e.msg if isinstance(e, SyntaxError) else str(e)
    return {"text": ("%s at %s:%s: %s  [%s]" % (type(e).__name__, os.path.basename(fn or "?"), ln, msg, src))[:400],
            "file": os.path.basename(fn) if fn else None, "line": ln}


class StepTimeout(Exception):
    pass


def on_alarm(signum, frame):
    raise StepTimeout("step exceeded the time limit")


class BuildError(Exception):
    pass


def members_of(cls):
    return list(vars(cls()).keys())


def build(mod, tree):
    if "I" in tree:
        return tree["I"]
    if "S" in tree:
        return bytes.fromhex(tree["S"]).decode("utf-8", "surrogateescape")
    if "L" in tree:
        return [build(mod, x) for x in tree["L"]]
    if "O" in tree:
        cname = tree.get("cls")
        cls = getattr(mod, cname, None) if cname else None
        if cls is None or not isinstance(cls, type):
            raise BuildError("the emitted module defines no class %s" % cname)
        obj = cls()
        ms = list(vars(obj).keys())
        if len(ms) != len(tree["O"]):
            raise BuildError("class %s declares %d members %s, the message has %d fields" % (cname, len(ms), ms, len(tree["O"])))
        for m, sub in zip(ms, tree["O"]):
            setattr(obj, m, build(mod, sub))
        return obj
    raise BuildError("bad value tree %r" % (tree,))


def dump(x, depth=0):
    if depth > 40:
        return {"X": "too deep"}
    if isinstance(x, bool):
        return {"X": repr(x)}
    if isinstance(x, int):
        return {"I": x}
    if isinstance(x, str):
        return {"S": x.encode("utf-8", "surrogateescape").hex()}
    if isinstance(x, list):
        return {"L": [dump(y, depth + 1) for y in x]}
    if hasattr(x, "encode") and hasattr(x, "decode") and hasattr(x, "__dict__"):
        try:
            order = members_of(type(x))
        except Exception:
            order = []
        names = order + [k for k in vars(x) if k not in order]
        return {"O": [dump(getattr(x, k, None), depth + 1) for k in names], "cls": type(x).__name__}
    return {"X": repr(x)[:80]}


def run_messages(plan):
    from bytebuf import ByteBuf
    try:
        mod = importlib.import_module(plan["module"])
    except BaseException as e:            # SyntaxError, NameError at import time, ...
        fl = first_lines(e)
        emit({"import_error": fl["text"], "file": fl["file"], "line": fl["line"], "kind": type(e).__name__})
        return
    emit({"imported": plan["module"], "classes": sorted(k for k, v in vars(mod).items() if isinstance(v, type) and v.__module__ == mod.__name__)})
    junk = bytes.fromhex(plan["junk"])
    signal.signal(signal.SIGALRM, on_alarm)
    for msg in plan["messages"]:
        for reg in (True, False):
            os.environ["PYEXEC_CHECKSUM"] = "registered" if reg else "unregistered"
            out = {"id": msg["id"], "reg": reg}
            own = None
            signal.alarm(plan.get("step_limit", 10))
            try:
                obj = build(mod, msg["value"])
                buf = ByteBuf()
                obj.encode(buf)
                own = buf.to_bytes()
                out["enc"] = own.hex()
            except BaseException as e:
                out["enc_err"] = exc_text(e)
            finally:
                signal.alarm(0)
            spec = msg.get("spec", {}).get("true" if reg else "false")
            data = bytes.fromhex(spec) if spec is not None else own
            out["dec_in"] = "spec" if spec is not None else ("own" if own is not None else None)
            if data is not None:
                dec = None
                signal.alarm(plan.get("step_limit", 10))
                try:
                    cls = getattr(mod, msg["cls"], None)
                    if cls is None:
                        raise BuildError("the emitted module defines no class %s" % msg["cls"])
                    dec = cls()
                    buf = ByteBuf(data + junk)
                    dec.decode(buf)
                    out["consumed"] = buf.read_index
                    out["decoded"] = dump(dec)
                except BaseException as e:
                    out["dec_err"] = exc_text(e)
                    dec = None
                finally:
                    signal.alarm(0)
                if dec is not None:
                    signal.alarm(plan.get("step_limit", 10))
                    try:
                        buf = ByteBuf()
                        dec.encode(buf)
                        out["reenc"] = buf.to_bytes().hex()
                    except BaseException as e:
                        out["reenc_err"] = exc_text(e)
                    finally:
                        signal.alarm(0)
            emit(out)


def run_selftest(plan):
    import unittest
    os.environ["PYEXEC_CHECKSUM"] = plan["checksum"]
    name = plan["module"] + "_test"
    try:
        tmod = importlib.import_module(name)
    except BaseException as e:
        fl = first_lines(e)
        emit({"test_import_error": fl["text"], "file": fl["file"], "line": fl["line"], "kind": type(e).__name__})
        return
    suite = unittest.defaultTestLoader.loadTestsFromModule(tmod)

    class R(unittest.TestResult):
        def __init__(self):
            super().__init__()
            self.rows = {}

        def addSuccess(self, test):
            self.rows.setdefault(test.id(), ("pass", ""))

        def addFailure(self, test, err):
            self.rows[test.id()] = ("fail", exc_text(err[1]))

        def addError(self, test, err):
            self.rows[test.id()] = ("error", exc_text(err[1]))

        def addSkip(self, test, reason):
            self.rows[test.id()] = ("skip", reason)

    res = R()
    signal.signal(signal.SIGALRM, on_alarm)
    signal.alarm(plan.get("step_limit", 10) * 4)
    try:
        suite.run(res)
    except BaseException as e:
        emit({"test_run_error": exc_text(e)})
    finally:
        signal.alarm(0)
    for tid, (st, text) in sorted(res.rows.items()):
        parts = tid.split(".")
        emit({"test": ".".join(parts[-2:]), "status": st, "text": text})
    emit({"tests_run": res.testsRun})


if __name__ == "__main__":
    plan = json.load(open(sys.argv[2] if len(sys.argv) > 2 else "plan.json"))
    if sys.argv[1] == "messages":
        run_messages(plan)
    else:
        run_selftest(plan)
