"""STAND-IN for the runtime module `checksum` (harness/pyexec.py).

  create_checksum_service(name)   Sem.v ECheck: `cs (unquote alg)` - Some h (an object with .calc) or None
  service.calc(buffer)            `h buf` on the WHOLE output written so far (nested encoders share the buffer)

The registry is IR/Oracle.v `cs_test`: with PYEXEC_CHECKSUM=registered EVERY algorithm name is
registered with the one function  h(buf) = (7 + sum of the bytes) mod 251 ; with
PYEXEC_CHECKSUM=unregistered no name is (create_checksum_service returns None and the emitted
encoder writes the member's own value)."""
import os


def cs_test(data):
    """Oracle.v: fun b => fold_left N.add b 7 mod 251"""
    return (7 + sum(data)) % 251


class _Service:
    def calc(self, buffer):
        return cs_test(buffer.written())


def create_checksum_service(name):
    if not isinstance(name, str):
        raise TypeError("algorithm name expected, got %r" % (name,))
    if os.environ.get("PYEXEC_CHECKSUM", "registered") == "registered":
        return _Service()
    return None
