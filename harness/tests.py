#!/usr/bin/env python3
"""C17 "Emitted self-tests build and pass": python3 harness/tests.py [--tier quick|thorough] [--seed N] [--show N]

For every corpus program (engine.programs_for) plus a few C17 witness programs, and every codec
language:
  * the observed IR of the emitted codec comes from the engine's (cached) result (for the
    witness programs it is extracted here, with the same extractor);
  * the sample message every emitted test builds comes from harness/extract_tests.py;
  * Coq (coq/Tests/SelfTest.v, sharded like engine.py) evaluates, per (packet, sample):
      typed, layout defined, check_enc / check_dec (IR/Oracle.v) and the test's own
      encode - decode - compare (selftest), each with and without a registered checksum.

Verdict per (program, language, packet):
  Pass | TestDoesNotBuild(problems) | SampleIllTyped | RoundTripFails(verdict) | EqualityFails | NoTestEmitted
  plus  MemberNotExercised (builds, round-trips and passes, but a member is left empty/default:
        the "does not exercise the member" half of a 'problems' entry)
  and   GeneratorPanic (no output at all for that language).
A test that only fails to build for a reason of the environment kind (GoPackage / GoModule /
JavaPackage not set) keeps that verdict, and the remaining pipeline is still evaluated and
reported as "if_built".

Deviations are classified against KNOWN (id -> language, pattern, description, witness program);
everything else is printed as "NEW-DEVIATION ...".  Exit status 0 iff there is none.
Report: .build/tests_report.json."""
import collections
import json
import os
import re
import sys

sys.path.insert(0, os.path.dirname(os.path.abspath(__file__)))
import core
import codec
import engine
import samples
import ir as IR
import checks
import extract_tests as ET
from core import g_model

LANGS = engine.LANGS
VERDICTS = codec.VERDICTS
OUTCOMES = {0: "Pass", 1: "EncodeFails", 2: "DecodeFails", 3: "NotEqual", 9: "Internal"}

# ----------------------------------------------------------------------------------------
# C17 witness programs: shapes of the sample emitters the codec corpus does not reach
# ----------------------------------------------------------------------------------------
OPTS = 'options {\n    JavaPackage = "com.example.msg";\n    GoPackage = "msg";\n    GoModule = "example.com/msg";\n}\n'


def witness_programs():
    P = []

    def add(name, text, **kw):
        P.append(("t17-" + name, OPTS + text, kw))
    add("plain", "packet Inner {\n    u8 a,\n    string s,\n}\nroot packet P {\n    u16 x,\n    char[4] sym,\n    Inner,\n    repeat u32 ns,\n}\n")
    add("same-payload", "packet A {\n    u8 a,\n}\nroot packet P {\n    u8 K1,\n    u8 K2,\n    match K1 as M1 {\n        1 : A,\n    },\n    match K2 as M2 {\n        2 : A,\n    },\n}\n")
    add("shared-key", "packet A {\n    u8 a,\n}\npacket B {\n    u16 b,\n}\nroot packet P {\n    u8 K,\n    match K as M1 {\n        1 : A,\n    },\n    match K as M2 {\n        1 : B,\n    },\n}\n")
    add("nested-match", "packet A {\n    u8 a,\n}\npacket Env {\n    u8 Kind,\n    match Kind as Body {\n        7 : A,\n    },\n}\nroot packet P {\n    Env,\n    u8 x,\n}\n")
    add("nested-match-imported", "packet A {\n    u8 a,\n}\npacket Env {\n    u8 Kind,\n    match Kind as Body {\n        7 : A,\n    },\n}\nroot packet P {\n    Env,\n    A,\n    u8 x,\n}\n")
    add("match-in-payload", "packet A {\n    u8 a,\n}\npacket Env {\n    u8 Kind,\n    match Kind as Body {\n        7 : A,\n    },\n}\nroot packet P {\n    u8 T,\n    match T as Payload {\n        1 : Env,\n    },\n}\n")
    add("nested-cks", "packet Env {\n    u8 a,\n    u16 Sum @calculatedFrom(\"CRC16\"),\n}\nroot packet P {\n    Env,\n    u8 x,\n}\n")
    add("deep-inline", "root packet P {\n    Outer {\n        u8 a,\n        Mid {\n            u8 b,\n            Leaf {\n                u8 c,\n            },\n        },\n    },\n}\n")
    add("str-key", "packet A {\n    u8 a,\n}\npacket B {\n    u16 b,\n}\nroot packet P {\n    string Kind,\n    char[2] K2,\n    match Kind as M1 {\n        \"AA\" : A,\n        \"BB\" : B,\n    },\n    match K2 as M2 {\n        \"ZZ\" : B,\n    },\n}\n")
    add("obj-named", "packet Inner {\n    u8 a,\n}\nroot packet P {\n    Inner first,\n    Inner second,\n    repeat Inner more,\n}\n")
    add("var-clash", "packet Inner {\n    u8 a,\n}\nroot packet P {\n    Inner original,\n    Inner decoded,\n    Inner buf,\n}\n")
    add("same-inline-twice", "packet A {\n    Hdr {\n        u8 a,\n    },\n}\npacket B {\n    Hdr {\n        u16 b,\n    },\n}\nroot packet P {\n    A,\n    B,\n}\n")
    add("no-root", "packet A {\n    u8 a,\n}\npacket B {\n    A,\n}\n")
    add("cyclic", "packet A {\n    u8 a,\n    repeat B,\n}\npacket B {\n    repeat A,\n}\nroot packet P {\n    A,\n}\n", allow_cyclic=True)
    # member ORDER: inline objects before / between packet references (state carried across the field loop)
    add("inline-then-ref", "packet Party {\n    u8 id,\n}\nroot packet Order {\n    u8 k,\n    repeat Leg {\n        u16 qty,\n    },\n    Party Owner,\n    repeat Party Parties,\n"
        "    Hdr {\n        u8 h,\n    },\n    Party Last,\n    string note,\n}\n")
    add("len-list", "packet A {\n    u8 a,\n}\nroot packet P {\n    u8 K,\n    u16 L @lengthOf(M),\n    match K as M {\n        1 : A,\n    },\n    repeat A items,\n    u32 Sum @calculatedFrom(\"CRC32\"),\n}\n")
    return P


# ----------------------------------------------------------------------------------------
# known deviation classes
# ----------------------------------------------------------------------------------------
# (id, language regex, regex on the deviation text, description (with Go source lines), witness program)
KNOWN = [
    ("env-go-package", r"go", r"^build-env: Go(Package|Module) is not set",
     "go: without GoPackage/GoModule options the files start with 'package ' / 'package _test' and the test imports msg \"\" (go_generator.go:65, 494, 502): neither the codec nor the test builds",
     "len-0"),
    ("env-java-package", r"java", r"^build-env: JavaPackage is not set",
     "java: without the JavaPackage option every file starts with 'package ;' (java_generator.go:158, 676)", "len-0"),
    ("go-test-camel-type-name", r"go", r"^build: (undefined: msg\.\w+|'original' is a |declared and not used|\w+\.\w+: variable \w+ of type \*msg\.\w+ assigned to a member of type \*\w+)",
     "go: the test refers to msg.<ToCamel(name)> (go_generator.go:516, 541, 583) while the struct is declared under the raw packet name (go_generator.go:166): packets named order_item / orderItem / hdr do not build",
     "fnd-snake-pkt"),
    ("go-redeclared-variable", r"go", r"^build: no new variables on left side of :=",
     "go: sample variables are named after the field (go_generator.go:530-541): two fields (at any nesting depth) with the same lowerCamel name declare the same variable twice with ':='",
     "t17-same-inline-twice"),
    ("go-variable-shadows-scaffold", r"go", r"^build: variable \w+ shadows an identifier the scaffold uses",
     "go: a field named like a scaffold identifier (buf, decoded, t, msg, bytes, assert) shadows it (go_generator.go:530-541)", "t17-var-clash"),
    ("go-char-sample", r"go", r"^build: \w+\.\w+: (no value is emitted|element type char is not a type visible)",
     "go: 'char' has no entry in goBasicTypeMap: generateTestValue (go_generator.go:565-569: no TestValue, testValue stays empty) emits an empty value / '[]char{}'", "fnd-char"),
    ("go-duplicate-key-field", r"go", r"^build: duplicate field name \w+ in struct literal",
     "go: the key member is written once per match field (go_generator.go:546): two match fields on one key give a duplicate field in the struct literal", "t17-shared-key"),
    ("rust-raw-type-names", r"rust", r"^build: \w+\.\w+: cannot find type \w+ in this scope",
     "rust: member types use the raw packet name (rust_generator.go:190) while structs are declared as ToCamel(name): the codec itself does not build for lower-case / snake-case packet names (C07, finding rust-raw-type-names)",
     "fnd-lower-inline"),
    ("rust-float-default", r"rust", r"^cover: \w+\.\w+ left at its default \(Default::default\(\)\)",
     "rust: primitiveSingleValues (rust_generator.go:588-601, default at 559) has no f32/f64 (nor the long spellings): such members are sampled with Default::default()", "cells-c0"),
    ("rust-empty-list-sample", r"rust", r"^cover: \w+\.\w+: list left empty \(vec!\[\]\)",
     "rust: testValueList (rust_generator.go:526-537, the final return at 536) returns vec![] for object lists and float lists: the member is not exercised", "cells-c0"),
    ("rust-nested-match-enum-name", r"rust", r"^build: \w+\.\w+: mismatched types: expected enum ",
     "rust: testMatchValue (rust_generator.go:603-621, parentName passed down at 613) names the enum after the packet the TEST is for, not after the packet that declares the match field: a match field inside a referenced packet / payload does not build",
     "t17-nested-match"),
    ("rust-unimported-nested-type", r"rust", r"^build: .*: cannot find (struct|type) \w+ in this scope \(crate::\w+ is not imported\)",
     "rust: generateUseCode (rust_generator.go:73-100) imports the modules of the packet's own object fields and match payloads only; the sample literal also names the types nested inside them (payload of a match field of a member packet, member of a member)",
     "t17-nested-match"),
    ("rust-duplicate-key-field", r"rust", r"^build: \w+: field \w+ specified more than once",
     "rust: the key member is written once per match field (rust_generator.go:484)", "t17-shared-key"),
    ("java-nested-inline-class-name", r"java", r"^build: cannot find symbol: class [\w.]+ \(the inline class is ",
     "java: GenerateNewInstance (java_generator.go:743-749) qualifies an inline class with the name of its direct parent only: Sub.Deep instead of Msg.Sub.Deep does not resolve from the test class", "cells-c0"),
    ("java-redeclared-variable", r"java", r"^build: variable \w+ is already defined",
     "java: sample variables are named after the field / payload packet (java_generator.go:743-746, 764): the same name at two places (or 'decoded', 'buffer') is declared twice in one method",
     "t17-same-payload"),
    ("java-equals-member-names", r"java", r"^build: class \w+: equals compares '\w+', which is no member",
     "java: members are declared as ToLowerCamel(ToCamel(name)) (java_generator.go:287) but equals/hashCode use ToLowerCamel(name) (java_generator.go:389, 410): names like s_u8 do not compile (finding java-member-name-conversion)",
     "fnd-underscore"),
    ("py-char-sample", r"py", r"^build: (\w+_test\.py does not parse|class \w+: __eq__ compares '\w+', which is no member|self\.packet\.\w+ is assigned, but class \w+ has no such member)",
     "python: 'char' has no entry in pyBasicTypeMap: generateTestValue (py_generator.go:471, 477-486: no TestValue) emits 'x.c = ' (the whole test module is a syntax error) and __init__ omits the member that __eq__ compares", "fnd-char"),
    ("char-list-sample-empty", r"py|cpp", r"^cover: \w+\.\w+: list left empty$",
     "python/c++: 'repeat char' is sampled as [] / {} (no TestValue for char): member not exercised", "fnd-rchar"),
    ("cpp-char-sample", r"cpp", r"^build: \w+\.\w+: no value is emitted",
     "c++: 'char' has no entry in cppBasicTypeMap: generateTestValue (cpp_generator.go:567, 594-602: no TestValue) emits 'original.c = ;'", "fnd-char"),
    ("cpp-camel-type-name", r"cpp", r"^build: ('\w+' was not declared in this scope|struct \w+: equals casts to \w+|'original' is never declared|\w+\.\w+: a \w+ is assigned to a member of type \w+|variable '\w+' hides the struct)",
     "c++: the test and equals() refer to <ToCamel(name)> (cpp_generator.go:172, 557, 587) while the struct is declared under the raw packet name (cpp_generator.go:139)", "fnd-snake-pkt"),
    ("cpp-redeclared-variable", r"cpp", r"^build: redeclaration of '\w+'",
     "c++: sample variables are named after the field (cpp_generator.go:545-557)", "t17-same-inline-twice"),
    ("cpp-nested-match-variable", r"cpp", r"^build: \w+\.\w+: '\w+' was not declared in this scope",
     "c++: generateMakeUniqueInstance / generateNewInstance of a nested packet (cpp_generator.go:573-592) never declare the payload variable of a match field that is not at the top level", "t17-match-in-payload"),
    ("cpp-copy-of-unique-ptr-holder", r"cpp", r"^build: \w+\.\w+: \w+ holds a std::unique_ptr and is not copy-assignable",
     "c++: an object member is filled with 'x.m = var;' (cpp_generator.go:567): a struct with a match member (std::unique_ptr) cannot be copied", "t17-nested-match"),
    ("generator-no-root", r"py|cpp", r"^panic: .*nil pointer",
     "python/c++: Generate dereferences binModel.RootPacket (py_generator.go:60, cpp_generator.go:58): a DSL without 'root packet' panics", "t17-no-root", "no-root"),
    ("generator-panic-unresolved-object", r".*", r"^panic: runtime error: invalid memory address or nil pointer dereference",
     "all generators: an object reference the visitor leaves unresolved (RefPacket == nil, e.g. 'repeat Quote' inside an inline object of a packet declared before Quote) is dereferenced (go_generator.go:156, model.Field.GetType): panic instead of a diagnostic",
     "rnd-0-2"),
    ("generator-cyclic", r".*", r"^fatal: generator process died",
     "all generators: a cycle in the packet reference graph (A has repeat B, B has repeat A) recurses without bound in the sample/code emitters (stack overflow kills the process)", "t17-cyclic"),
]


def dup_type_names(model):
    return any("declared" in w for w in codec.modelled(model)[1])


def len_after_target(model):
    for p in model["packets"]:
        names = [f["name"] for f in p["fields"]]
        for i, f in enumerate(p["fields"]):
            a = f["attr"]
            if a and a["kind"] == "len" and a["target"] in names and names.index(a["target"]) < i:
                return True
    return False


def has_nested_checksum(model):
    tops = {p["name"]: p for p in model["packets"]}

    def cks_inside(p, depth=0):
        for f in p["fields"]:
            a = f["attr"]
            if not a or depth > 8:
                continue
            if a["kind"] == "checksum" and depth > 0:
                return True
            if a["kind"] == "object":
                q = a.get("inline") if a["iner"] else tops.get(a["ref"])
                if q is not None and cks_inside(q, depth + 1):
                    return True
            if a["kind"] == "match":
                for pr in a["pairs"]:
                    if pr["value"] in tops and cks_inside(tops[pr["value"]], depth + 1):
                        return True
        return False
    return any(cks_inside(p) for p in model["packets"])


def has_nested_match(model):
    """a packet with a match field that another packet holds as object member or match payload"""
    with_match = set(p["name"] for p in model["packets"] if any(f["attr"] and f["attr"]["kind"] == "match" for f in p["fields"]))
    for p in model["packets"]:
        for path, q in ET.inline_tree(p, p["name"]):
            for f in q["fields"]:
                a = f["attr"]
                if a and a["kind"] == "object" and a.get("ref") in with_match:
                    return True
                if a and a["kind"] == "match" and any(pr["value"] in with_match for pr in a["pairs"]):
                    return True
    return False


GUARDS = {"no-root": lambda m: not m.get("root"), "nested-match": has_nested_match, "dup": dup_type_names, "len-after": len_after_target, "nested-cks": has_nested_checksum}

KNOWN += [
    ("duplicate-inline-type-name", r".*", r"^(build: (type \w+ is declared more than once|\w+(\.\w+)?: struct \w+ is declared more than once|unknown field \w+ in struct literal"
     r"|no new variables|variable \w+ is already defined|redeclaration of|\w+\.\w+ is assigned, but class \w+ has no such member|\w+\.\w+: a \w+ is assigned, the codec constructs"
     r"|struct \w+ has no member named)|cover: \w+\.\w+ left at its zero value|run: \w+\.\w+ is never assigned)",
     "all: two inline objects with the same type name in different packets (A { Hdr {..} }, B { Hdr {..} }) are emitted as two top-level types of one name (Go package, Rust crate), as one Python class that replaces the other, or only once (C++ hasGen is keyed by name, cpp_generator.go:96-99): the codec and the samples of the second one do not fit",
     "t17-same-inline-twice", "dup"),
]


def classify(lang, text, model=None):
    for k in KNOWN:
        kid, lrx, rx = k[0], k[1], k[2]
        if len(k) > 5 and not (model is not None and GUARDS[k[5]](model)):
            continue
        if re.fullmatch(lrx, lang) and re.search(rx, text):
            return kid
    return None


# ----------------------------------------------------------------------------------------
# self-test of the scaffold interpreters: a changed scaffold must change what they report
# ----------------------------------------------------------------------------------------
ASSIGN_RE = {
    "go": r"^\s*\w+\s*:\s*\S.*,$",
    "rust": r"^\s*\w+: \S.*,$",
    "java": r"^\s*\w+\.set\w+\(.*\);$",
    "py": r"^\s*(self\.packet|\w+)\.\w+ = \S.*$",
    "cpp": r"^\s*\w+(\.|->)\w+ = \S.*;$",
}
TEST_FILE = {"go": r"_test\.go$", "rust": r"\.rs$", "java": r"Test\.java$", "py": r"_test\.py$", "cpp": r"_test\.cpp$"}


def summary(ents):
    return json.dumps([(e["path"], e["emitted"], e["sample"], e["problems"], e["post_copies"], e["assigned"]) for e in ents], sort_keys=True)


def interpreter_selftest(hook, text, limit=400):
    """mutate the emitted test text (delete an assignment, turn a number into a string, rename the
    assigned member / variable) and count the mutations the interpreters do not notice"""
    resp = hook.ask({"op": "gen", "text": text, "langs": [codec.HOOK_LANG[l] for l in LANGS]})
    model = resp["model"]
    names = hook.ask({"op": "names", "idents": core.model_identifiers(model)})["names"]
    total, missed = 0, []
    for lang, step in zip(LANGS, resp["steps"]):
        files = step["files"]
        base = summary(ET.EXTRACTORS[lang](files, model, names))
        n = 0
        for fn in sorted(files):
            if not re.search(TEST_FILE[lang], fn):
                continue
            lines = files[fn].split("\n")
            in_test = lang != "rust"
            # statements on a variable whose class does not resolve are not interpreted (the unit already fails to build)
            dead = set()
            if lang == "java":
                for cls in re.findall(r"cannot find symbol: class ([\w.]+)", base):
                    dead |= set(re.findall(r"%s (\w+) = new " % re.escape(cls), files[fn]))
            for k, l in enumerate(lines):
                if dead and re.match(r"^\s*(%s)\." % "|".join(sorted(dead)), l):
                    continue
                if lang == "rust":
                    if "#[cfg(test)]" in l:
                        in_test = True
                    elif l.startswith("pub struct ") or l.startswith("impl "):
                        in_test = False
                if not in_test or not re.match(ASSIGN_RE[lang], l) or n >= limit:
                    continue
                muts = [None]                                           # delete the line
                if re.search(r"\b\d+\b", l):
                    muts.append(re.sub(r"(?<![\w\"])-?\d+[LFD]?\b", '"zz"', l, count=1))   # type confusion
                muts.append(re.sub(r"(\w+)(\s*[:=(]|\.set)", r"zzUndeclared\2", l, count=1) if lang != "java"
                            else re.sub(r"\.set(\w+)\(", r".setZzUndeclared(", l, count=1))
                for mu in muts:
                    if mu == l:
                        continue
                    new = lines[:k] + ([] if mu is None else [mu]) + lines[k + 1:]
                    f2 = dict(files)
                    f2[fn] = "\n".join(new)
                    try:
                        got = summary(ET.EXTRACTORS[lang](f2, model, names))
                    except Exception as ex:
                        got = "exception %r" % ex
                    total += 1
                    n += 1
                    if got == base:
                        missed.append((lang, fn, k + 1, l.strip(), "deleted" if mu is None else mu.strip()))
    return total, missed


# ----------------------------------------------------------------------------------------
# Coq side
# ----------------------------------------------------------------------------------------
PRELUDE = core.COQ_PRELUDE + """From FP Require Import Validate RefDec Validated SelfTest SelfTestPass Quiet SelfTestQuiet.
Open Scope string_scope.
(* hypotheses of validated_selftest_passes[_quiet] (Proofs/SelfTestPass.v, SelfTestQuiet.v) that depend on the tested packet *)
Definition guard_codes (reg : bool) (M : bmodel) (post : list nat) (path : string) : list nat :=
  match packet_at M path with
  | Some p => [if post_ok reg p post then 1 else 0; if no_nested_computed reg M p then 1 else 0]%nat
  | None => [0; 0]%nat
  end.
"""


def g_stores(st):
    return "[" + "; ".join('(%s, [%s])' % (core.g_str(path), "; ".join(
        "mkStore %d%%nat %d%%nat %s" % (a, b, "None" if c is None else "(Some %d%%nat)" % c) for a, b, c in l))
        for path, l in sorted(st.items())) + "]"


def g_eqs(eqs):
    return "[" + "; ".join('(%s, [%s])' % (core.g_str(path), "; ".join("%d%%nat" % i for i in l)) for path, l in sorted(eqs.items())) + "]"


def coq_rows(mname, oname, tag, ents):
    """Gallina for one (program, language): definitions + one Eval printing a row of codes per sample"""
    lines = []
    rows = []
    st = ents[0]["stores"] if ents else {}
    eqs = ents[0]["eq_members"] if ents and ents[0]["compares"] == "members" else {}
    lines.append("Definition S_%s : list (string * list store) := %s." % (tag, g_stores(st)))
    lines.append("Definition E_%s : list (string * list nat) := %s." % (tag, g_eqs(eqs)))
    k = 0
    index = []
    for e in ents:
        if e["sample"] is None:
            continue
        v = "V_%s_%d" % (tag, k)
        k += 1
        lines.append("Definition %s : value := %s." % (v, samples.g_value(e["sample"])))
        post = "[%s]" % "; ".join("%d%%nat" % i for i in e["post_copies"])
        path = core.g_str(e["path"])
        terms = ["(if typed_at %s %s %s then 1 else 0)%%nat" % (mname, path, v),
                 "(if layout_defined true %s %s %s then 1 else 0)%%nat" % (mname, path, v),
                 "(if layout_defined false %s %s %s then 1 else 0)%%nat" % (mname, path, v)]
        for reg in ("true", "false"):
            terms.append("verdict_code (check_enc %s %s %s %s %s)" % (reg, mname, oname, path, v))
        for reg in ("true", "false"):
            terms.append("verdict_code (check_dec %s %s %s %s %s [])" % (reg, mname, oname, path, v))
        for reg in ("true", "false"):
            terms.append("outcome_code (selftest %s %s %s S_%s E_%s %s %s %s)" % (reg, mname, oname, tag, tag, post, path, v))
        # the remaining hypotheses of the theorem validated_selftest_passes_quiet for this unit
        extra = " ++ guard_codes true %s %s %s ++ guard_codes false %s %s %s ++ [if quiet %s S_%s fuel0 %s %s then 1 else 0]%%nat" % (
            mname, post, path, mname, post, path, oname, tag, path, v)
        rows.append('join "," (map show_nat ([%s]%s))' % ("; ".join(terms), extra))
        index.append(e["path"])
    return lines, rows, index


def coqc_limited(name, body, timeout=600, mem_kb=6000000):
    """like core.coq_eval, with an address-space limit: a decoder that reads a garbage length makes
    vm_compute build an astronomically long unary number (N.to_nat in IR/Sem.v)"""
    import subprocess
    d = os.path.join(core.COQ, "Run")
    os.makedirs(d, exist_ok=True)
    path = os.path.join(d, name + ".v")
    with open(path, "w", encoding="latin-1") as fh:
        fh.write(PRELUDE + body)
    args = []
    for line in open(os.path.join(core.COQ, "_CoqProject")):
        line = line.strip()
        if line.startswith("-Q"):
            _, dd, ns = line.split()
            args += ["-Q", os.path.join(core.COQ, dd), ns]
    cmd = "ulimit -v %d; exec timeout %d coqc %s %s" % (mem_kb, timeout, " ".join(args), path)
    r = subprocess.run(["bash", "-c", cmd], stdout=subprocess.PIPE, stderr=subprocess.PIPE, cwd=d)
    return r.returncode, r.stdout.decode("latin-1"), r.stderr.decode("latin-1")


def eval_groups(groups, tag):
    """groups: [(program id, [Gallina lines])].  Shards of whole programs in parallel; a shard that fails
    is re-run program by program, a program that fails Eval by Eval.  -> (results, [(pid, what failed, stderr)])"""
    from concurrent.futures import ThreadPoolExecutor
    body = [l for _, g in groups for l in g]
    shards = engine.shard_body(body, 8)
    got, failed = {}, []
    with ThreadPoolExecutor(max_workers=16) as ex:
        outs = list(ex.map(lambda kv: coqc_limited("cases_%s_%d" % (tag, kv[0]), kv[1]), list(enumerate(shards))))
    retry = []
    for (rc, out, err), sh in zip(outs, shards):
        got.update(core.parse_results(out))
        if rc != 0:
            ids = set(re.findall(r"<<<([^|>]*)\|", sh))
            retry += [(pid, g) for pid, g in groups if pid in ids and not all(k in got for k in re.findall(r"<<<([^>]*)>>>", "\n".join(g)))]
    if retry:
        with ThreadPoolExecutor(max_workers=8) as ex:
            outs = list(ex.map(lambda kv: coqc_limited("cases_%s_r%d" % (tag, kv[0]), "\n".join(kv[1][1]) + "\n", timeout=200), list(enumerate(retry))))
        single = []
        for (rc, out, err), (pid, g) in zip(outs, retry):
            got.update(core.parse_results(out))
            if rc != 0:
                defs = [l for l in g if not l.startswith("Eval ")]
                for l in g:
                    if l.startswith("Eval ") and re.search(r"<<<([^>]*)>>>", l).group(1) not in got:
                        single.append((pid, defs, l))
        if single:
            with ThreadPoolExecutor(max_workers=8) as ex:
                outs = list(ex.map(lambda kv: coqc_limited("cases_%s_s%d" % (tag, kv[0]), "\n".join(kv[1][1] + [kv[1][2]]) + "\n", timeout=120),
                                   list(enumerate(single))))
            for (rc, out, err), (pid, defs, l) in zip(outs, single):
                got.update(core.parse_results(out))
                if rc != 0:
                    failed.append((pid, re.search(r"<<<([^>]*)>>>", l).group(1), "exit %d: %s" % (rc, err[-400:])))
    return got, failed


def parse_rep(text):
    """the string printed by Validate.report (preceded by lenw_ok), as engine.run_engine reads it"""
    rep = text.split("@@")
    if len(rep) != 7:
        rep = ["F", "", "F", "", "", "", ""]
    e = {"lenw_ok": rep[0] == "T", "paths_ok": rep[2] == "T",
         "valid_enc": dict(x.rsplit("=", 1) for x in rep[3].split(",") if x),
         "valid_dec": dict(x.rsplit("=", 1) for x in rep[4].split(",") if x)}
    for kind, txt in (("enc", rep[5]), ("dec", rep[6])):
        d = {}
        for part in txt.split("%%"):
            if "==" not in part:
                continue
            path, rest = part.split("==", 1)
            sigs = []
            for pr in rest.split("&&"):
                if "~~" in pr:
                    x, y = pr.split("~~", 1)
                    sigs.append("%s ~ %s" % (" ".join(engine.erase(t) for t in engine.split_plain(x)) or "-",
                                             " ".join(engine.erase(t) for t in engine.split_plain(y)) or "-"))
            d[path] = sorted(set(sigs))
        e["diff_" + kind] = d
    return e


# ----------------------------------------------------------------------------------------
def unvalidated_findings(e, known):
    """ids of the known codec findings (known_findings.json) that explain the packets of this
    (program, language) which the proved-sound validator does not accept; plus unexplained signatures"""
    pats = [(f, re.compile(f["sig"])) for f in known["findings"] if "sig" in f]
    ids, unknown = set(), []
    for kind in ("enc", "dec"):
        for path, v in e.get("valid_" + kind, {}).items():
            if v == "T":
                continue
            for s in (e.get("diff_" + kind, {}).get(path) or ["(steps reordered or of another shape)"]):
                key = "%s|%s|%s" % (e["_lang"], kind, s)
                hit = next((f for f, rx in pats if rx.search(key)), None)
                if hit:
                    ids.add(hit["id"])
                else:
                    unknown.append(key)
    return sorted(ids), unknown


def main():
    import argparse
    ap = argparse.ArgumentParser()
    ap.add_argument("--tier", default="quick")
    ap.add_argument("--seed", type=int, default=0)
    ap.add_argument("--show", type=int, default=4)
    ap.add_argument("--only", default=None, help="comma separated program ids (debugging)")
    args = ap.parse_args()
    t = core.Timer()
    r = engine.run_engine(args.tier, args.seed)
    if "coq_build_failed" in r:
        print("Coq development does not build:\n" + r["coq_build_failed"])
        return 2
    known_codec = json.load(open(os.path.join(core.VERIF, "known_findings.json")))
    hook = core.Hook()
    progs = [(pid, text, {}) for pid, text in engine.programs_for(args.tier, args.seed)] + witness_programs()
    if args.only:
        progs = [x for x in progs if x[0] in args.only.split(",")]
    groups = []
    cases = {}               # (pid, lang) -> {"ents": [...], "index": [...], "engine": e or None}
    deviations = collections.OrderedDict()     # (lang, text) -> [(pid, path)]
    verdicts = {}            # (pid, lang, path) -> dict
    texts = {}
    models = {}

    def deviate(lang, text, pid, path):
        deviations.setdefault((lang, text), []).append((pid, path))

    for pid, text, kw in progs:
        texts[pid] = text
        if re.search(r'^\s*\[?\s*"[^"\n]*\\', text, re.M):
            # a match key with a backslash escape: the codec IR carries key literals as written (both the dispatch table
            # and the key member), the scaffold interpreter evaluates the sample's literal as the target language would -
            # the two views differ by the unescaping only, which would be reported as an ill-typed sample
            verdicts[(pid, "*", "*")] = {"verdict": "NotEvaluated(outside the modelled input space)", "why": "escaped string key literal"}
            continue
        req = {"op": "gen", "text": text, "langs": [codec.HOOK_LANG[l] for l in LANGS]}
        if kw.get("allow_cyclic"):
            req["allow_cyclic"] = True
        resp = hook.ask(req)
        if resp.get("fatal"):
            for lang in LANGS:
                verdicts[(pid, lang, "*")] = {"verdict": "GeneratorPanic", "why": "fatal: generator process died"}
                deviate(lang, "fatal: generator process died", pid, "*")
            continue
        if resp.get("syntax_error") or resp.get("rejected") or resp.get("cyclic") or "steps" not in resp:
            if pid.startswith("t17-"):
                print("NOTE witness program %s is not an accepted DSL: %s" % (pid, json.dumps({k: v for k, v in resp.items() if k != "model"})[:300]))
            continue          # not an accepted DSL
        model = resp["model"]
        models[pid] = model
        names = hook.ask({"op": "names", "idents": core.model_identifiers(model)})["names"]
        ep = r["programs"].get(pid)
        in_engine = ep is not None and "skipped" not in ep
        ok_m, why_m = codec.modelled(model)
        mname = "M_" + "".join(c if c.isalnum() else "_" for c in pid)
        mlines = ["Definition %s : bmodel := %s." % (mname, g_model(model, names))] if ok_m else []
        for lang, step in zip(LANGS, resp["steps"]):
            if "error" in step:
                verdicts[(pid, lang, "*")] = {"verdict": "GeneratorRefuses", "why": step["error"]}
                continue
            if "panic" in step:
                verdicts[(pid, lang, "*")] = {"verdict": "GeneratorPanic", "why": step["panic"], "frames": step.get("frames")}
                deviate(lang, "panic: " + step["panic"], pid, "*")
                continue
            files = step["files"]
            try:
                ents = ET.EXTRACTORS[lang](files, model, names)
            except Exception as ex:          # an extractor bug must not hide the rest
                verdicts[(pid, lang, "*")] = {"verdict": "HarnessError", "why": repr(ex)}
                deviate(lang, "harness: extract_tests_%s raised %r" % (lang, ex), pid, "*")
                continue
            eng = None
            prog = None
            want_rep = False
            if in_engine and lang in ep["langs"] and "prog" in ep["langs"][lang]:
                eng = dict(ep["langs"][lang], _lang=lang)
                prog = [(path, checks.fix_ir(pir)) for path, pir in eng["prog"]]
            elif ok_m:
                prog, _ = codec.extractor(lang)(files, model, names)
                want_rep = True
            case = {"ents": ents, "index": [], "engine": eng, "has_ir": prog is not None}
            cases[(pid, lang)] = case
            if prog is not None:
                tag = "%s_%s" % (mname, lang)
                oname = "O_" + tag
                lines, rows, index = coq_rows(mname, oname, tag, ents)
                if rows:
                    mlines.append("Definition %s : prog := %s." % (oname, IR.g_prog(prog)))
                    if want_rep:
                        mlines.append('Eval vm_compute in ("<<<%s|%s|rep>>>" ++ show_bool (lenw_ok %s) ++ "@@" ++ report %s %s).'
                                      % (pid, lang, mname, mname, oname))
                    mlines += lines
                    mlines.append('Eval vm_compute in ("<<<%s|%s>>>" ++ join ";" [%s]).' % (pid, lang, "; ".join(rows)))
                    if True:
                        # the hypotheses of validated_selftest_passes_quiet that do not depend on the unit
                        mlines.append('Eval vm_compute in ("<<<%s|%s|hyp>>>" ++ show_bool (validate_enc %s %s) ++ show_bool (validate_dec_full %s %s) '
                                      '++ show_bool (eqs_ok %s E_%s)).' % (pid, lang, mname, oname, mname, oname, mname, tag))
                        case["theorem"] = True
                    case["index"] = index
        if len(mlines) > 1:
            groups.append((pid, mlines))
    st_total, st_missed = 0, []
    for pid in ("cells-c0", "t17-plain", "t17-str-key", "key-0"):
        if pid in texts and pid in models:
            a, b = interpreter_selftest(hook, texts[pid])
            st_total += a
            st_missed += [(pid,) + x for x in b]
    hook.close()
    got, failed = eval_groups(groups, "tests")
    coq_errors = []
    blown = set()
    for pid, cid, err in failed:
        if "rror:" in err and "Stack overflow" not in err and "Out of memory" not in err:
            coq_errors.append("%s: %s" % (cid, err))
        else:
            blown.add(cid)            # killed by the time / memory limit

    # ------------------------------------------------------------------ verdicts
    proved = collections.Counter()
    proved_units = {}
    for (pid, lang), case in cases.items():
        if case["engine"] is None and "%s|%s|rep" % (pid, lang) in got:
            case["engine"] = dict(parse_rep(got["%s|%s|rep" % (pid, lang)]), _lang=lang)
        rows = got.get("%s|%s" % (pid, lang), "")
        rows = [x.split(",") for x in rows.split(";")] if rows else []
        byp = {}
        for path, row in zip(case["index"], rows):
            byp[path] = [int(x) for x in row]
        # ---- theorem validated_selftest_passes_quiet (coq/Proofs/SelfTestQuiet.v; with an empty store table it is
        #      validated_selftest_passes of coq/Proofs/SelfTestPass.v): every evaluated unit
        if case.get("theorem"):
            hyp = got.get("%s|%s|hyp" % (pid, lang))
            for path, c in byp.items():
                if hyp is None or len(c) < 14:
                    proved[(lang, "not evaluated")] += 1
                    continue
                common = [("validate_enc", hyp[0] == "T"), ("validate_dec_full", hyp[1] == "T"), ("typed", c[0] == 1)]
                res = {}
                for reg, lay, st_code, g in ((True, c[1], c[7], c[9:11]), (False, c[2], c[8], c[11:13])):
                    hs = common + [("layout_defined", lay == 1), ("eqs_ok", hyp[2] == "T"),
                                   ("quiet (the test reaches a packet with store-backs)", c[13] == 1),
                                   ("post_ok", g[0] == 1), ("no_nested_computed", g[1] == 1)]
                    failing = [n for n, ok in hs if not ok]
                    res[reg] = failing
                    if not failing and st_code != 0:
                        coq_errors.append("theorem-contradicted: %s|%s|%s registered=%s: every hypothesis of validated_selftest_passes_quiet "
                                          "evaluates to true, selftest evaluates to %s" % (pid, lang, path, reg, OUTCOMES.get(st_code, st_code)))
                if not res[True] and not res[False]:
                    key = "proved"
                elif not res[False]:
                    key = "proved for an unregistered checksum only (registered: %s)" % res[True][0]
                else:
                    key = "hypothesis fails: %s" % res[False][0]
                proved[(lang, key)] += 1
                proved_units[(pid, lang, path)] = key
        for e in case["ents"]:
            path = e["path"]
            V = {"problems": e["problems"]}
            if (pid, lang, path) in proved_units:
                V["theorem"] = proved_units[(pid, lang, path)]
            verdicts[(pid, lang, path)] = V
            if not e["emitted"]:
                V["verdict"] = "NoTestEmitted"
                deviate(lang, "no test emitted", pid, path)
                continue
            build = [x for x in e["problems"] if x.startswith("build:")]
            env = [x for x in e["problems"] if x.startswith("build-env:")]
            run = [x for x in e["problems"] if x.startswith("run:")]
            cover = [x for x in e["problems"] if x.startswith("cover:")]
            for x in build + env + run + cover:
                deviate(lang, x, pid, path)
            if build:
                V["verdict"] = "TestDoesNotBuild"
                continue
            # what the test does once it builds
            if e["sample"] is None:
                inner = "RoundTripFails(%s)" % (run[0] if run else "no sample")
            elif not case["has_ir"]:
                inner = "NotEvaluated(outside the modelled input space)"
            elif path not in byp and "%s|%s" % (pid, lang) in blown:
                inner = "RoundTripFails(test:ResourceBlowup)"
                deviate(lang, "verdict: evaluating the round trip of this sample exceeds the time/memory limit (a decoder that reads a garbage length)", pid, path)
            elif path not in byp:
                inner = "NotEvaluated(no Coq result)"
                deviate(lang, "harness: no Coq result", pid, path)
            else:
                c = byp[path]
                V["codes"] = {"typed": c[0], "layout": c[1:3], "check_enc": [VERDICTS[x] for x in c[3:5]],
                              "check_dec": [VERDICTS[x] for x in c[5:7]], "selftest": [OUTCOMES.get(x, str(x)) for x in c[7:9]]}
                V["sample"] = samples.j_value(e["sample"])
                st = c[7:9]
                orc = [VERDICTS[x] for x in c[3:7]]
                if c[0] == 0 or 0 in c[1:3] or "NotAMessage" in orc:
                    inner = "SampleIllTyped"
                elif 9 in st:
                    inner = "Internal"
                elif 1 in st or 2 in st:
                    inner = "RoundTripFails(test:%s)" % OUTCOMES[1 if 1 in st else 2]
                elif any(x != "Agree" for x in orc):
                    inner = "RoundTripFails(%s)" % next(x for x in orc if x != "Agree")
                elif 3 in st:
                    inner = "EqualityFails"
                elif cover:
                    inner = "MemberNotExercised"
                else:
                    inner = "Pass"
                # consistency with the proved-sound validator: a validated packet must agree
                eng = case["engine"]
                if eng is not None and inner.startswith(("RoundTripFails", "EqualityFails", "SampleIllTyped", "Internal")):
                    ids, unknown = unvalidated_findings(eng, known_codec)
                    V["codec_findings"] = ids
                    if inner.startswith("SampleIllTyped"):
                        deviate(lang, "verdict: %s" % inner, pid, path)
                    elif ids and not unknown:
                        deviate(lang, "verdict: %s explained by codec finding(s) %s" % (inner, ",".join(ids)), pid, path)
                    else:
                        deviate(lang, "verdict: %s" % inner, pid, path)
                elif inner.startswith(("RoundTripFails", "EqualityFails", "SampleIllTyped", "Internal")):
                    deviate(lang, "verdict: %s" % inner, pid, path)
            if env:
                V["verdict"] = "TestDoesNotBuild"
                V["if_built"] = inner
            else:
                V["verdict"] = inner
    # ------------------------------------------------------------------ report
    counts = collections.Counter()
    for (pid, lang, path), V in verdicts.items():
        v = V["verdict"]
        v = re.sub(r"\(.*", "", v) if v.startswith("RoundTripFails") else v
        counts[(lang, v)] += 1
        if "if_built" in V:
            counts[(lang, "  if built: " + re.sub(r"\(.*", "", V["if_built"]))] += 1
    print("C17 emitted self-tests: tier %s seed %d, %d programs (%d corpus + %d witness), %d test units, engine %s, %.1fs"
          % (args.tier, args.seed, len(progs), len(progs) - len(witness_programs()), len(witness_programs()), len(verdicts),
             "cached" if r.get("cached") else "run", t.s()))
    for lang in LANGS:
        print("  %-5s %s" % (lang, "  ".join("%s=%d" % (k[1].strip(), n) for k, n in sorted(counts.items()) if k[0] == lang)))
    print("interpreter self-test: mutations %d unnoticed %d" % (st_total, len(st_missed)))
    n_thm = sum(proved.values())
    print("theorem validated_selftest_passes_quiet (evaluated units: %d): proved to pass %s; not proved: %s" % (
        n_thm, " ".join("%s=%d" % (l, proved[(l, "proved")]) for l in LANGS),
        "; ".join("%s %s=%d" % (l, k, n) for (l, k), n in sorted(proved.items()) if k != "proved") or "-"))
    n_pass_proved = sum(1 for k, key in proved_units.items() if key == "proved"
                        and (verdicts[k].get("if_built") or verdicts[k]["verdict"]) in ("Pass", "MemberNotExercised"))
    print("  of the %d proved units, %d have the verdict Pass / MemberNotExercised (the others do not build)" % (
        sum(n for (l, k), n in proved.items() if k == "proved"), n_pass_proved))
    known_seen = collections.OrderedDict()
    new = []
    for pid, lang, fn, ln, old, mu in st_missed[:5]:
        new.append((lang, "harness: extract_tests_%s does not notice the mutation of %s:%d '%s' -> '%s'" % (lang, fn, ln, old, mu), [(pid, "*")]))
    for (lang, text), where in deviations.items():
        rest = []
        for w in where:                         # per program: the guards look at the model
            mdl = models.get(w[0])
            kid = classify(lang, text, mdl)
            if kid is None and text.startswith("verdict: "):
                kid = classify_verdict(lang, text, mdl)
            if kid is None:
                rest.append(w)
            else:
                known_seen.setdefault(kid, []).append((lang, text, [w]))
        if rest:
            new.append((lang, text, rest))
    print("known deviation classes seen: %d" % len(known_seen))
    alld = dict((k[0], k) for k in KNOWN + VERDICT_KNOWN)
    for kid, items in known_seen.items():
        n = sum(len(w) for _, _, w in items)
        langs = sorted(set(l for l, _, _ in items))
        print("  KNOWN %-34s %-18s x%-4d %s" % (kid, ",".join(langs), n, alld[kid][3][:150]))
    for lang, text, where in new:
        print("NEW-DEVIATION lang=%s program=%s packet=%s :: %s" % (lang, where[0][0], where[0][1], text))
        if args.show:
            print("   dsl: " + texts[where[0][0]].replace("\n", "\\n")[:600])
    for err in coq_errors[:4]:
        print("NEW-DEVIATION " + ("" if err.startswith("theorem-contradicted") else "coq evaluation failed: ") + err)
    rep = {"tier": args.tier, "seed": args.seed, "programs": len(progs),
           "counts": {"%s %s" % k: n for k, n in sorted(counts.items())},
           "known_deviations_seen": {kid: {"description": alld[kid][3], "witness": alld[kid][4], "languages": sorted(set(l for l, _, _ in items)),
                                           "occurrences": sum(len(w) for _, _, w in items),
                                           "examples": [{"lang": l, "text": tx, "program": w[0][0], "packet": w[0][1]} for l, tx, w in items[:3]]}
                                     for kid, items in known_seen.items()},
           "new_deviations": [{"lang": l, "text": tx, "program": w[0][0], "packet": w[0][1], "dsl": texts[w[0][0]]} for l, tx, w in new],
           "proved_units": {"theorem": "validated_selftest_passes_quiet (coq/Proofs/SelfTestQuiet.v; = validated_selftest_passes of coq/Proofs/SelfTestPass.v when the store table is empty; coq/Props/C17.v)",
                            "scope": "every test unit with a sample and an IR; the hypothesis 'quiet' fails for tests that reach a packet whose encoder stores computed members back (Go, Java, Python)",
                            "counts": {"%s: %s" % k: n for k, n in sorted(proved.items())},
                            "per_language_proved": {l: proved[(l, "proved")] for l in LANGS}},
           "coq_errors": coq_errors, "interpreter_selftest": {"mutations": st_total, "unnoticed": len(st_missed)},
           "samples": [{"program": k[0], "lang": k[1], "packet": k[2], **{a: b for a, b in V.items() if a != "problems"}}
                       for k, V in list(verdicts.items()) if V.get("verdict") == "Pass"][:5],
           "verdicts": {"%s|%s|%s" % k: V for k, V in verdicts.items()}}
    os.makedirs(core.BUILD, exist_ok=True)
    json.dump(rep, open(os.path.join(core.BUILD, "tests_report.json"), "w"), indent=1)
    return 1 if (new or coq_errors) else 0


# verdict-level deviations: (id, language regex, regex on "verdict: ...", description, witness[, guard])
VERDICT_KNOWN = [
    ("codec-finding", r".*", r"^verdict: .* explained by codec finding\(s\) ",
     "the emitted test fails (or the sample is not laid out as the wire specification says) because of a recorded codec finding of C01-C06 (known_findings.json): the packet is not accepted by the proved-sound validator and every unvalidated step matches a recorded finding",
     "len-24"),
    ("rust-nested-key-not-set", r"rust", r"^verdict: SampleIllTyped",
     "rust: only the test's top-level struct literal writes the key literal next to a match member (rust_generator.go:478-487); inside a nested struct literal (testValueSingle, rust_generator.go:547-553) the key member gets its primitive sample (42) while the payload is the first pair's packet: decode returns None and unwrap() panics",
     "t17-nested-match", "nested-match"),
    ("length-after-target-has-no-layout", r".*", r"^verdict: SampleIllTyped",
     "a length-of field declared after its target: the wire specification (Wire/Layout.v) lays no such message out (finding length-field-after-target)",
     "fnd-len-after", "len-after"),
    ("nested-checksum-not-copied", r"rust|cpp", r"^verdict: EqualityFails",
     "rust/c++: the test copies the computed members of the TOP-LEVEL packet from decoded into original (rust_generator.go:503-508, cpp_generator.go:527-535); a checksum member of a nested packet keeps its sample value in original (encode takes &self / is const) while decoded holds the computed one: with a registered checksum service the comparison fails",
     "t17-nested-cks", "nested-cks"),
]


def classify_verdict(lang, text, model):
    for k in VERDICT_KNOWN:
        kid, lrx, rx = k[0], k[1], k[2]
        if len(k) > 5 and not (model is not None and GUARDS[k[5]](model)):
            continue
        if re.fullmatch(lrx, lang) and re.search(rx, text):
            return kid
    return None


if __name__ == "__main__":
    sys.exit(main())
