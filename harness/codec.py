"""Correspondence of the codec generator models (coq/Gen/*.v) with the real generators."""
import json
import os
import sys

sys.path.insert(0, os.path.dirname(os.path.abspath(__file__)))
import core
import ir as IR
from core import g_model, model_identifiers, log

EXTRACTORS = {}


def extractor(lang):
    if lang not in EXTRACTORS:
        mod = __import__("extract_" + lang)
        EXTRACTORS[lang] = getattr(mod, "extract_" + lang)
    return EXTRACTORS[lang]


HOOK_LANG = {"go": "go", "py": "python", "java": "java", "rust": "rust", "cpp": "cpp", "lua": "lua"}
COQ_GEN = {"go": "gen_go", "py": "gen_py", "java": "gen_java", "rust": "gen_rust", "cpp": "gen_cpp"}


def compile_program(hook, text, langs):
    """Run the real front end and generators; returns the hook's response plus the names table."""
    resp = hook.ask({"op": "gen", "text": text, "langs": [HOOK_LANG[l] for l in langs]})
    if resp.get("fatal") or resp.get("syntax_error") or resp.get("rejected") or resp.get("cyclic") or "panic" in resp:
        return resp, None
    names = hook.ask({"op": "names", "idents": model_identifiers(resp["model"])})["names"]
    return resp, names


def modelled(model):
    """The input space of the generator models: every reference resolved, keys declared, unique type names."""
    seen = {}
    ok = [True]
    why = []

    def pk(p, path):
        seen.setdefault(p["name"], []).append(path)
        names = [f["name"] for f in p["fields"]]
        if len(set(names)) != len(names):
            ok[0] = False
            why.append("duplicate field")
        for f in p["fields"]:
            a = f["attr"]
            if a is None:
                ok[0] = False
                why.append("nil attr")
                continue
            if a["kind"] == "object":
                if a["ref"] is None:
                    ok[0] = False
                    why.append("unresolved object")
                if a["iner"] and a.get("inline"):
                    pk(a["inline"], path + "/" + f["name"])
            if a["kind"] == "match":
                if a["key"] is None or a["key"] not in names:
                    ok[0] = False
                    why.append("unresolved key")
                for pr in a["pairs"]:
                    if pr["value"] not in model["packets_map_keys"]:
                        ok[0] = False
                        why.append("unknown pair packet")
            if a["kind"] == "len" and (a["target"] is None or a["target"] not in names):
                ok[0] = False
                why.append("unresolved length target")
    for p in model["packets"]:
        pk(p, p["name"])
    for n, paths in seen.items():
        if len(paths) > 1:
            ok[0] = False
            why.append("type name %s declared %d times" % (n, len(paths)))
    return ok[0], why


def correspondence(programs, langs, hook, tag="corr"):
    """programs: [(id, text)].  Returns a dict with per-(program, lang) outcomes."""
    cases = []      # (case id, lang, model term name)
    body = []
    observed = {}
    stats = {"programs": 0, "outside_model": 0, "rejected": 0, "panics": 0}
    for pid, text in programs:
        resp, names = compile_program(hook, text, langs)
        if names is None:
            stats["rejected"] += 1
            observed[pid] = {"skipped": resp}
            continue
        ok, why = modelled(resp["model"])
        if not ok:
            stats["outside_model"] += 1
            observed[pid] = {"skipped": {"outside_model": why}}
            continue
        stats["programs"] += 1
        mname = "M_" + "".join(c if c.isalnum() else "_" for c in pid)
        body.append("Definition %s : bmodel := %s." % (mname, g_model(resp["model"], names)))
        observed[pid] = {"model": resp["model"], "names": names, "text": text, "langs": {}}
        for lang, step in zip(langs, resp["steps"]):
            if "error" in step:
                observed[pid]["langs"][lang] = {"error": step["error"]}
                continue
            if "panic" in step:
                stats["panics"] += 1
                observed[pid]["langs"][lang] = {"panic": step["panic"], "frames": step.get("frames")}
                continue
            prog, notes = extractor(lang)(step["files"], resp["model"], names)
            observed[pid]["langs"][lang] = {"prog": prog, "notes": notes, "files": step["files"],
                                            "model_unchanged": step.get("model_unchanged", True)}
            cid = "%s|%s" % (pid, lang)
            cases.append(cid)
            body.append('Eval vm_compute in ("<<<%s>>>" ++ show_prog (%s %s)).' % (cid, COQ_GEN[lang], mname))
    rc, out, err = core.coq_eval("cases_" + tag, "\n".join(body) + "\n")
    if rc != 0:
        return {"coq_error": err[-3000:], "stats": stats, "observed": observed, "mismatches": [], "cases": cases}
    got = core.parse_results(out)
    mismatches = []
    for cid in cases:
        pid, lang = cid.split("|")
        expected = IR.parse_show_prog(got.get(cid, ""))
        obs = observed[pid]["langs"][lang]["prog"]
        obs_txt = {path: IR.show_pkt(path, pir) for path, pir in obs}
        paths = list(expected.keys()) + [p for p in obs_txt if p not in expected]
        for path in paths:
            if expected.get(path) != obs_txt.get(path):
                mismatches.append({"program": pid, "lang": lang, "packet": path, "model": expected.get(path),
                                   "observed": obs_txt.get(path)})
    return {"stats": stats, "observed": observed, "mismatches": mismatches, "cases": cases}


def all_paths(model):
    out = []

    def under(p, path):
        for f in p["fields"]:
            a = f["attr"]
            if a and a["kind"] == "object" and a["iner"] and a.get("inline"):
                under(a["inline"], path + "/" + f["name"])
        out.append((path, p))
    for p in model["packets"]:
        under(p, p["name"])
    return out


REST = "[171; 205]"      # trailing bytes appended after the message for the decode oracle
VERDICTS = ["Agree", "NotAMessage", "EncFails", "EncDiffers", "DecFails", "DecDiffers", "DecConsumes", "ReencDiffers"]


def oracle(observed, langs, tag="oracle", use_model=False, seed=0, only=None):
    """Run every packet's boundary messages through the observed IR (or the model's) and judge
    them against the wire specification.  Returns [(program, lang, path, label, registered, kind, verdict, value)]."""
    import samples
    body = []
    index = []
    for pid, o in observed.items():
        if "skipped" in o:
            continue
        if only is not None and pid not in only:
            continue
        mname = "M_" + "".join(c if c.isalnum() else "_" for c in pid)
        body.append("Definition %s : bmodel := %s." % (mname, g_model(o["model"], o["names"])))
        smp = samples.Sampler(o["model"], seed)
        msgs = []
        for path, p in all_paths(o["model"]):
            for label, v in smp.messages(p):
                msgs.append((path, label, v))
        for k, (path, label, v) in enumerate(msgs):
            body.append("Definition %s_v%d : value := %s." % (mname, k, samples.g_value(v)))
        for lang in langs:
            lo = o["langs"].get(lang)
            if lo is None or "prog" not in lo:
                continue
            pname = "P_%s_%s" % (mname, lang)
            if use_model:
                body.append("Definition %s : prog := %s %s." % (pname, COQ_GEN[lang], mname))
            else:
                body.append("Definition %s : prog := %s." % (pname, IR.g_prog(lo["prog"])))
            terms = []
            for k, (path, label, v) in enumerate(msgs):
                for reg in (True, False):
                    r = "true" if reg else "false"
                    terms.append('verdict_code (check_enc %s %s %s "%s" %s_v%d)' % (r, mname, pname, path, mname, k))
                    index.append((pid, lang, path, label, reg, "enc", v))
                    terms.append('verdict_code (check_dec %s %s %s "%s" %s_v%d %s)' % (r, mname, pname, path, mname, k, REST))
                    index.append((pid, lang, path, label, reg, "dec", v))
            body.append('Eval vm_compute in ("<<<%s|%s>>>" ++ join "," (map show_nat [%s])).' % (pid, lang, "; ".join(terms)))
    rc, out, err = core.coq_eval("cases_" + tag, "\n".join(body) + "\n",
                                 prelude=core.COQ_PRELUDE)
    if rc != 0:
        return {"coq_error": err[-3000:]}
    got = core.parse_results(out)
    results = []
    pos = {}
    for (pid, lang, path, label, reg, kind, v) in index:
        key = "%s|%s" % (pid, lang)
        codes = got.get(key, "").split(",")
        i = pos.get(key, 0)
        pos[key] = i + 1
        code = int(codes[i]) if i < len(codes) and codes[i] != "" else -1
        results.append((pid, lang, path, label, reg, kind, VERDICTS[code] if code >= 0 else "NoResult", v))
    return {"results": results}


if __name__ == "__main__":
    import corpus
    langs = sys.argv[1].split(",")
    core.build_binaries()
    ok, out = core.coq_make()
    if not ok:
        print(out[-3000:])
        sys.exit(2)
    hook = core.Hook()
    progs = corpus.cell_programs(corpus.pairwise_configs()[:int(sys.argv[2]) if len(sys.argv) > 2 else 3])
    res = correspondence(progs, langs, hook)
    hook.close()
    if "coq_error" in res:
        print(res["coq_error"])
        sys.exit(2)
    print(res["stats"], "cases", len(res["cases"]), "mismatches", len(res["mismatches"]))
    if os.environ.get("ORACLE"):
        import collections
        t = core.Timer()
        orc = oracle(res["observed"], langs, use_model=os.environ.get("ORACLE") == "model")
        if "coq_error" in orc:
            print(orc["coq_error"])
            sys.exit(2)
        cnt = collections.Counter((r[1], r[5], r[6]) for r in orc["results"])
        print("oracle", t.s(), "s", dict(cnt))
        seen = set()
        for r in orc["results"]:
            if r[6] not in ("Agree",) and (r[1], r[2].split("/")[-1], r[5], r[6], r[3]) not in seen and len(seen) < int(os.environ.get("SHOW", "6")):
                seen.add((r[1], r[2].split("/")[-1], r[5], r[6], r[3]))
                print("  ", r[0], r[1], r[2], r[3], "reg" if r[4] else "noreg", r[5], r[6])
    for pid, o in res["observed"].items():
        if "skipped" in o:
            print("SKIPPED", pid, json.dumps(o["skipped"])[:300])
    for m in res["mismatches"][:int(os.environ.get("SHOW", "6"))]:
        print("----", m["program"], m["lang"], m["packet"])
        a, b = m["model"] or "", m["observed"] or ""
        ea = a.split(" ")
        eb = b.split(" ")
        for x, y in zip(ea, eb):
            if x != y:
                print("   model   :", x)
                print("   observed:", y)
        if len(ea) != len(eb):
            print("   lengths differ", len(ea), len(eb))
            print("   model   :", a[:1500])
            print("   observed:", b[:1500])
