#!/bin/sh
# usage: verify_mutant.sh <agent worktree> <seed id, e.g. C11-b>
# confirms in a FRESH scratch worktree of /repo: patch applies, builds, suite passes, demo fails with the
# patch and passes without it; then stores patch.diff + demo + meta.json under /verif/seeded/<id>/.
W=$1; ID=$2; S=/tmp/vm_$ID
export GOFLAGS=-mod=mod GOPROXY=off
git -C /repo worktree add --detach $S HEAD -q || exit 2
cd $S && git apply $W/_out/patch.diff || { echo "PATCH DOES NOT APPLY"; git -C /repo worktree remove --force $S; exit 2; }
go build ./... || { echo "BUILD FAILS"; git -C /repo worktree remove --force $S; exit 2; }
go test -vet=off -count=1 ./... > /tmp/vm_$ID.test.log 2>&1; echo "suite with patch: exit $?"
tail -3 /tmp/vm_$ID.test.log
bash $W/_out/demo.sh $S > /tmp/vm_$ID.demo1.log 2>&1; echo "demo with patch: exit $? (want non-zero)"
git -C $S checkout -- . ; 
bash $W/_out/demo.sh $S > /tmp/vm_$ID.demo0.log 2>&1; echo "demo without patch: exit $? (want 0)"
mkdir -p /verif/seeded/$ID && cp -r $W/_out/* /verif/seeded/$ID/
cd / && git -C /repo worktree remove --force $S
rm -f /tmp/vm_$ID.*.log
