"""Rewrites the appendix 'Recorded findings' of DESIGN.md from known_findings.json (between the two markers)."""
import json
import os
import re

VERIF = os.path.dirname(os.path.dirname(os.path.abspath(__file__)))
BEGIN, END = "<!-- findings:begin -->", "<!-- findings:end -->"


def main():
    kf = json.load(open(os.path.join(VERIF, "known_findings.json")))
    rows = []
    for f in kf["findings"]:
        ident = f.get("sig") and "signature `%s`" % f["sig"][:60].replace("|", "\\|") or f.get("class") and "class `%s` (%s)" % (f["class"], f.get("script", "")) \
            or f.get("crash_class") and "crash site `%s`" % f["crash_class"].replace("|", " \\| ") or f.get("lua_verdict") and "Lua verdict `%s`" % f["lua_verdict"].replace("|", "\\|") \
            or f.get("cli_args") and "command line `%s`" % " ".join(f["cli_args"])[:60].replace("|", "\\|") or f.get("identified_by", "")[:60]
        what = re.sub(r"\s+", " ", f["what"]).replace("|", "\\|")
        rows.append("| `%s` | %s | %s | %s |" % (f["id"], ", ".join(f.get("properties", [])), what[:420] + ("…" if len(what) > 420 else ""), ident))
    text = BEGIN + "\n\n%d recorded findings (genuine defects of the current tree that were not repaired), generated from `known_findings.json` by `harness/gen_findings_md.py`.\n\n" % len(rows)
    text += "| id | properties | what fails | identified by |\n|---|---|---|---|\n" + "\n".join(rows) + "\n\n" + END
    p = os.path.join(VERIF, "DESIGN.md")
    s = open(p).read()
    if BEGIN in s:
        s = s[:s.index(BEGIN)] + text + s[s.index(END) + len(END):]
    else:
        s = s.rstrip("\n") + "\n\n---------------------------------------------------------------------------\n\n## Appendix A. Recorded findings\n\n" + text + "\n"
    open(p, "w").write(s)


if __name__ == "__main__":
    main()
